"""CPython oracle: run the *same source text* that was given to @guppy under plain Python.

The module source is parsed, Guppy decorators/annotations are stripped
(`@guppy.struct` classes become plain record classes), and the code is executed in a
namespace that binds Guppy's builtins to small reference implementations:

  result(tag, v)  -> appended to the trace
  panic(msg, *a)  -> raises Panic (trace gets ('panic', msg))
  array(*xs)      -> PyArray: list-backed, index must satisfy 0 <= i < n else Panic,
                     iteration/unpacking in index order, copy()
  qubit()/gates   -> classical stand-in with an X-flip bit (only for programs whose
                     quantum part is classical-deterministic)

A program on which CPython raises anything else (ZeroDivisionError, UnboundLocalError,
RecursionError, …) or exceeds the step budget is *outside the property's quantifier*:
status 'undefined'.
"""
from __future__ import annotations

import ast
import sys


class Panic(Exception):
    def __init__(self, msg, signal=1):
        super().__init__(msg)
        self.msg, self.signal = msg, signal


class ExitProgram(Exception):
    def __init__(self, msg, signal):
        super().__init__(msg)
        self.msg, self.signal = msg, signal


class Budget(Exception):
    pass


class PyArray:
    """Reference model of guppy's array: fixed length, non-negative in-range indices only."""
    __slots__ = ("items",)

    def __init__(self, *xs):
        import types as _types
        if len(xs) == 1 and isinstance(xs[0], _types.GeneratorType):
            xs = tuple(xs[0])           # array(e for e in ...) comprehension form
        self.items = list(xs)

    def _idx(self, i):
        if isinstance(i, bool) or not isinstance(i, int):
            raise TypeError("array index must be int")
        if not 0 <= i < len(self.items):
            raise Panic("Array index out of bounds")
        return i

    def __getitem__(self, i):
        return self.items[self._idx(i)]

    def __setitem__(self, i, v):
        self.items[self._idx(i)] = v

    def __len__(self):
        return len(self.items)

    def __iter__(self):
        return iter(list(self.items))

    def copy(self):
        return PyArray(*self.items)

    def __eq__(self, o):
        return isinstance(o, PyArray) and o.items == self.items

    def __repr__(self):
        return f"array{tuple(self.items)}"


class PyQubit:
    """Classical stand-in: tracks X flips only."""
    __slots__ = ("bit", "alive", "quantum")

    def __init__(self):
        self.bit = 0
        self.alive = True
        self.quantum = False


class _Strip(ast.NodeTransformer):
    """Remove Guppy decorators and all annotations; turn @guppy.struct classes into records."""

    def _is_guppy_deco(self, d):
        s = ast.unparse(d)
        return s.startswith("guppy") or s.startswith("no_type_check")

    def visit_FunctionDef(self, node):
        self.generic_visit(node)
        node.decorator_list = [d for d in node.decorator_list if not self._is_guppy_deco(d)]
        node.returns = None
        node.type_params = []
        for a in node.args.args + node.args.kwonlyargs + node.args.posonlyargs:
            a.annotation = None
        return node

    def visit_AnnAssign(self, node):
        self.generic_visit(node)
        if node.value is None:
            return ast.Pass()
        return ast.copy_location(ast.Assign([node.target], node.value), node)

    def visit_ClassDef(self, node):
        if any("struct" in ast.unparse(d) for d in node.decorator_list):
            fields = [s.target.id for s in node.body if isinstance(s, ast.AnnAssign)]
            methods = [self.visit(s) for s in node.body if isinstance(s, ast.FunctionDef)]
            init = ast.parse(
                "def __init__(self, " + ", ".join(fields) + "):\n" +
                ("\n".join(f"    self.{f} = {f}" for f in fields) or "    pass")).body[0]
            eq = ast.parse(
                "def __eq__(self, o):\n    return type(o) is type(self) and " +
                (" and ".join(f"self.{f} == o.{f}" for f in fields) or "True")).body[0]
            node.decorator_list = []
            node.type_params = []
            node.bases = []
            node.body = [init, eq, *methods]
            return node
        self.generic_visit(node)
        return node


class Oracle:
    def __init__(self, step_budget: int = 20000):
        self.trace: list = []
        self.steps = 0
        self.step_budget = step_budget

    # ---- builtins
    def _result(self, tag, v):
        if isinstance(v, PyArray):
            v = list(v.items)
        self.trace.append(("result", tag, v))

    def _panic(self, msg, *args):
        self.trace.append(("panic", 1, msg))
        raise Panic(msg)

    def _exit(self, msg, signal, *args):
        self.trace.append(("exit", signal, msg))
        raise ExitProgram(msg, signal)

    def namespace(self) -> dict:
        def nat(x):
            v = int(x)
            if v < 0:
                raise ValueError("nat of negative value")
            return v

        def qubit():
            return PyQubit()

        def xgate(q):
            q.bit ^= 1

        def noop1(q):
            pass

        def quantum1(q):
            q.quantum = True

        def cx(a, b):
            if a.quantum or b.quantum:
                b.quantum = True
            b.bit ^= a.bit

        def measure(q):
            if q.quantum:
                raise ValueError("oracle: measurement of a non-classical qubit")
            q.alive = False
            return bool(q.bit)

        def discard(q):
            q.alive = False

        def reset(q):
            q.bit = 0
            q.quantum = False

        def owned(x):
            return x

        return {
            "result": self._result, "panic": self._panic, "exit": self._exit,
            "array": PyArray, "nat": nat, "qubit": qubit, "x": xgate, "z": noop1, "s": noop1, "t": noop1,
            "h": quantum1, "y": xgate, "cx": cx, "measure": measure, "discard": discard, "reset": reset,
            "owned": owned, "comptime": lambda v: v, "barrier": lambda *a: None,
            "__name__": "oracle_module",
        }

    # ---- running
    def _tracer(self, frame, event, arg):
        if event == "line":
            self.steps += 1
            if self.steps > self.step_budget:
                raise Budget()
        return self._tracer

    def run(self, src, fn: str, args: list):
        """src: source text or a code object from prepare().
        Returns (status, value, trace); status in ok | panic | exit | undefined."""
        code = prepare(src) if isinstance(src, str) else src
        ns = self.namespace()
        old = sys.gettrace()
        try:
            exec(code, ns)  # noqa: S102 (generated text only)
            sys.settrace(self._tracer)
            try:
                v = ns[fn](*args)
            finally:
                sys.settrace(old)
            return "ok", v, self.trace
        except Panic as e:
            if not self.trace or self.trace[-1][0] != "panic":
                self.trace.append(("panic", e.signal, e.msg))
            return "panic", None, self.trace
        except ExitProgram:
            return "exit", None, self.trace
        except Budget:
            return "undefined", "budget", self.trace
        except (ZeroDivisionError, UnboundLocalError, NameError, OverflowError, RecursionError, ValueError,
                TypeError, IndexError, AttributeError) as e:
            return "undefined", f"{type(e).__name__}: {e}", self.trace


def prepare(src: str):
    """Strip Guppy decorations from the module source and compile it once."""
    tree = _Strip().visit(ast.parse(src))
    ast.fix_missing_locations(tree)
    tree.body = [s for s in tree.body if not (
        isinstance(s, (ast.Import, ast.ImportFrom)) and "guppylang" in ast.unparse(s))]
    return compile(tree, "<oracle>", "exec")


def run(src, fn: str, args: list, step_budget: int = 20000):
    return Oracle(step_budget).run(src, fn, args)
