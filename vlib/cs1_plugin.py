"""CS-1: pytest plugin that re-runs /repo's own integration tests against /repo's sources
with the Selene emulator seam redirected to hugrvm.

Upstream expectations of the form run_int_fn(f, expected, args=…) were produced on real
Selene; every one of them that hugrvm can execute must match.  Usage:

  PYTHONPATH=/verif/compat:/verif:/repo/guppylang/src:/repo/guppylang-internals/src \
    /venv/bin/python -m pytest -p vlib.cs1_plugin -p no:cacheprovider -q /repo/tests/integration
"""
from __future__ import annotations

import vlib  # noqa: F401  (compat shim)
import hugr.cli
import selene_hugr_qis_compiler

from vlib import hugrvm

selene_hugr_qis_compiler.check_hugr = lambda b: hugr.cli.validate(b)

STATS = {"runs": 0, "paths": 0, "unsupported": 0, "panic_paths": 0}


class Unsupported(Exception):
    pass


class AnyOf:
    """Value of a result tag that differs between measurement paths."""

    def __init__(self, vals):
        self.vals = vals

    def __eq__(self, o):
        return any(v == o for v in self.vals)

    def __ne__(self, o):
        return not self.__eq__(o)

    def __repr__(self):
        return f"AnyOf({self.vals})"


class FakeEmulator:
    def __init__(self, defn, n_qubits):
        self.defn = defn

    def __getattr__(self, name):
        if name.startswith("with_") or name.endswith("_sim"):
            return lambda *a, **k: self
        raise AttributeError(name)

    def run(self):
        pkg = self.defn.compile()
        h = pkg.modules[0]
        S = hugrvm.Static.of(h)
        from hugr import ops
        entry = h.entrypoint.idx
        op = S.ops[entry]
        if not isinstance(op, ops.FuncDefn):
            raise Unsupported("entrypoint is not a FuncDefn")
        runs, capped = hugrvm.explore(h, entry, [], max_runs=64)
        STATS["runs"] += 1
        STATS["paths"] += len(runs)
        bad = [r for r in runs if r.status in ("unsupported", "invariant", "budget")]
        if bad:
            STATS["unsupported"] += 1
            raise Unsupported(f"{bad[0].status}: {bad[0].detail}")
        ok = [r for r in runs if r.status == "ok"]
        STATS["panic_paths"] += len(runs) - len(ok)
        if not ok:
            raise RuntimeError(f"hugrvm: all paths panic: {runs[0].panic}")
        tags: dict[str, list] = {}
        order = []
        for r in ok:
            for t, v in r.results():
                if t not in tags:
                    tags[t] = []
                    order.append(t)
                if not any(v == x for x in tags[t]):
                    tags[t].append(v)
        shot = [(t, tags[t][0] if len(tags[t]) == 1 else AnyOf(tags[t])) for t in order]
        return [shot]


def pytest_configure(config):
    from guppylang.defs import GuppyFunctionDefinition
    GuppyFunctionDefinition.emulator = lambda self, n_qubits=0, builder=None: FakeEmulator(self, n_qubits)


def pytest_terminal_summary(terminalreporter):
    terminalreporter.write_line(f"CS1-STATS {STATS}")
