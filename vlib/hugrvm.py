"""hugrvm — a reference interpreter / explorer for the in-memory HUGR that guppylang emits.

Executes the `hugr.Hugr` object produced by the real compiler (no serialisation round
trip).  Two sources of nondeterminism are explicit *choice points* driven by a Chooser so
that an outer DFS can enumerate every execution:

* measurement outcomes (both outcomes with non-zero probability);
* the order in which *effectful* sibling nodes of a dataflow region execute, whenever the
  value + order edges leave more than one legal choice (only in `explore_sched` mode;
  otherwise a canonical topological order is used).

Semantics of the standard extension ops follow the op descriptions shipped in the `hugr`
wheel (64-bit two's complement; `idivmod_s` has a signed dividend and an UNSIGNED divisor;
`ishr` is a logical shift), and are bound to the real Selene emulator by the conformance
suites in vlib/conformance.py.
"""
from __future__ import annotations

import math
import struct
from typing import Any, Callable

import numpy as np
from hugr import ops, tys, val

M64 = (1 << 64) - 1
SIGN = 1 << 63


def s64(v: int) -> int:
    v &= M64
    return v - (1 << 64) if v & SIGN else v


def u64(v: int) -> int:
    return v & M64


# ----------------------------------------------------------------------------- values
class Sum:
    __slots__ = ("tag", "vals")

    def __init__(self, tag: int, vals: tuple = ()):
        self.tag = tag
        self.vals = tuple(vals)

    def __eq__(self, o):
        return isinstance(o, Sum) and o.tag == self.tag and o.vals == self.vals

    def __hash__(self):
        return hash((self.tag, self.vals))

    def __repr__(self):
        if not self.vals:
            return f"#{self.tag}"
        return f"#{self.tag}{self.vals!r}"


S_FALSE = Sum(0)
S_TRUE = Sum(1)
UNIT = Sum(0)


def sbool(b: bool) -> Sum:
    return S_TRUE if b else S_FALSE


class QRef:
    """A linear reference to qubit `qid`; `gen` detects stale (already consumed) refs."""
    __slots__ = ("qid", "gen")

    def __init__(self, qid, gen):
        self.qid, self.gen = qid, gen

    def __repr__(self):
        return f"q{self.qid}"


class _Borrowed:
    def __repr__(self):
        return "<borrowed>"


BORROWED = _Borrowed()


class Arr:
    """array / borrow_array value.  Linear: ops consume the object (dead=True) and
    return a fresh one sharing the slot list."""
    __slots__ = ("slots", "dead")

    def __init__(self, slots):
        self.slots = slots
        self.dead = False

    def __repr__(self):
        return f"Arr{self.slots!r}"


class StaticArr:
    __slots__ = ("items",)

    def __init__(self, items):
        self.items = tuple(items)

    def __repr__(self):
        return f"StaticArr{self.items!r}"


class ErrVal:
    __slots__ = ("signal", "msg")

    def __init__(self, signal, msg):
        self.signal, self.msg = signal, msg

    def __repr__(self):
        return f"Err({self.signal},{self.msg!r})"


class FnVal:
    __slots__ = ("node", "targs")

    def __init__(self, node, targs):
        self.node, self.targs = node, targs

    def __repr__(self):
        return f"Fn@{self.node}"


class Partial:
    __slots__ = ("fn", "captured")

    def __init__(self, fn, captured):
        self.fn, self.captured = fn, tuple(captured)


class Modified:
    """Function value produced by tket.modifier ops."""
    __slots__ = ("fn", "kind", "n_ctrl", "power")

    def __init__(self, fn, kind, n_ctrl=0, power=None):
        self.fn, self.kind, self.n_ctrl, self.power = fn, kind, n_ctrl, power


class Future:
    __slots__ = ("val", "dead")

    def __init__(self, v):
        self.val = v
        self.dead = False


class ListVal:
    __slots__ = ("items",)

    def __init__(self, items):
        self.items = list(items)


# ------------------------------------------------------------------------- exceptions
class GuppyPanic(Exception):
    def __init__(self, signal, msg):
        super().__init__(f"panic({signal}): {msg}")
        self.signal, self.msg = signal, msg


class GuppyExit(Exception):
    def __init__(self, signal, msg):
        super().__init__(f"exit({signal}): {msg}")
        self.signal, self.msg = signal, msg


class VMUnsupported(Exception):
    """The interpreter does not implement something — never a property verdict."""


class VMBudget(Exception):
    """Step / depth budget exhausted (possible non-termination)."""


class VMInvariant(Exception):
    """Runtime monitor: linear value misuse, borrowed slot read, malformed dataflow."""


# ---------------------------------------------------------------------------- chooser
class Chooser:
    """Replays `prefix`, then takes option 0; records (n_options, chosen, kind)."""

    def __init__(self, prefix=()):
        self.prefix = list(prefix)
        self.trace: list[tuple[int, int, str]] = []

    def choose(self, n: int, kind: str) -> int:
        i = len(self.trace)
        if i < len(self.prefix):
            c = self.prefix[i]
            if c >= n:
                raise VMInvariant(f"replay divergence at choice {i}: {c} >= {n} ({kind})")
        else:
            c = 0
        self.trace.append((n, c, kind))
        return c


# ---------------------------------------------------------------------- quantum state
class QSim:
    """Dense state-vector simulator over dynamically allocated qubits."""

    def __init__(self, chooser: Chooser, events: list, max_qubits: int = 10):
        self.state = np.ones((), dtype=complex)
        self.axes: list[int] = []          # qid per tensor axis
        self.gen: dict[int, int] = {}      # live qubits -> current generation
        self.next_id = 0
        self.chooser = chooser
        self.events = events
        self.max_qubits = max_qubits
        self.weight = 1.0

    # -- linear bookkeeping
    def _use(self, q: QRef) -> int:
        if not isinstance(q, QRef):
            raise VMInvariant(f"expected qubit, got {q!r}")
        g = self.gen.get(q.qid)
        if g is None:
            raise VMInvariant(f"use of freed qubit {q}")
        if g != q.gen:
            raise VMInvariant(f"stale qubit reference {q} (linear value used twice)")
        return q.qid

    def _bump(self, qid) -> QRef:
        self.gen[qid] += 1
        return QRef(qid, self.gen[qid])

    def alloc(self) -> QRef:
        if len(self.axes) >= self.max_qubits:
            raise VMBudget("too many live qubits")
        qid = self.next_id
        self.next_id += 1
        z = np.zeros(2, dtype=complex)
        z[0] = 1
        self.state = np.tensordot(self.state, z, axes=0)
        self.axes.append(qid)
        self.gen[qid] = 0
        self.events.append(("alloc", qid))
        return QRef(qid, 0)

    def apply(self, mat: np.ndarray, qs: list[QRef]) -> list[QRef]:
        ids = [self._use(q) for q in qs]
        if len(set(ids)) != len(ids):
            raise VMInvariant("gate applied to the same qubit twice")
        k = len(ids)
        ax = [self.axes.index(i) for i in ids]
        m = mat.reshape((2,) * (2 * k))
        st = np.tensordot(m, self.state, axes=(list(range(k, 2 * k)), ax))
        # tensordot puts the k new axes first; move them back
        st = np.moveaxis(st, list(range(k)), ax)
        self.state = st
        self.events.append(("gate", tuple(ids)))
        return [self._bump(i) for i in ids]

    def _p1(self, qid) -> float:
        ax = self.axes.index(qid)
        st = np.moveaxis(self.state, ax, 0)
        return float(np.sum(np.abs(st[1]) ** 2))

    def _project(self, qid, outcome: int, p: float) -> None:
        ax = self.axes.index(qid)
        st = np.moveaxis(self.state, ax, 0).copy()
        st[1 - outcome] = 0
        st = st / math.sqrt(p)
        self.state = np.moveaxis(st, 0, ax)

    def measure(self, q: QRef, silent: bool = False) -> tuple[QRef, int]:
        qid = self._use(q)
        p1 = self._p1(qid)
        eps = 1e-9
        if p1 < eps:
            out = 0
        elif p1 > 1 - eps:
            out = 1
        else:
            out = self.chooser.choose(2, "measure")
            self.weight *= p1 if out else (1 - p1)
        self._project(qid, out, p1 if out else 1 - p1)
        if not silent:
            self.events.append(("measure", qid, out))
        return self._bump(qid), out

    def reset(self, q: QRef) -> QRef:
        q2, out = self.measure(q, silent=True)
        if out:
            (q2,) = self.apply(GATES["X"], [q2])
        return q2

    def free(self, q: QRef) -> None:
        qid = self._use(q)
        # tracing a qubit out of a pure state = measuring it silently
        q2, _ = self.measure(q, silent=True)
        ax = self.axes.index(qid)
        st = np.moveaxis(self.state, ax, 0)
        p0 = float(np.sum(np.abs(st[0]) ** 2))
        self.state = st[0] if p0 > 0.5 else st[1]
        self.axes.pop(ax)
        del self.gen[qid]
        self.events.append(("free", qid))

    def vector(self, order: list[int] | None = None) -> np.ndarray:
        """State vector with the given qubit ids as most-significant-first order."""
        order = order if order is not None else list(self.axes)
        rest = [a for a in self.axes if a not in order]
        perm = [self.axes.index(i) for i in order + rest]
        st = np.transpose(self.state, perm) if perm else self.state
        return st.reshape(-1)


def _rz(a):
    return np.array([[np.exp(-1j * math.pi * a / 2), 0], [0, np.exp(1j * math.pi * a / 2)]])


def _rx(a):
    c, s = math.cos(math.pi * a / 2), math.sin(math.pi * a / 2)
    return np.array([[c, -1j * s], [-1j * s, c]])


def _ry(a):
    c, s = math.cos(math.pi * a / 2), math.sin(math.pi * a / 2)
    return np.array([[c, -s], [s, c]], dtype=complex)


def _ctrl(u):
    n = u.shape[0]
    m = np.eye(2 * n, dtype=complex)
    m[n:, n:] = u
    return m


_X = np.array([[0, 1], [1, 0]], dtype=complex)
_Y = np.array([[0, -1j], [1j, 0]], dtype=complex)
_Z = np.array([[1, 0], [0, -1]], dtype=complex)
_H = np.array([[1, 1], [1, -1]], dtype=complex) / math.sqrt(2)
_S = np.array([[1, 0], [0, 1j]], dtype=complex)
_T = np.array([[1, 0], [0, np.exp(1j * math.pi / 4)]], dtype=complex)
_V = np.array([[1 + 1j, 1 - 1j], [1 - 1j, 1 + 1j]], dtype=complex) / 2
GATES = {
    "X": _X, "Y": _Y, "Z": _Z, "H": _H, "S": _S, "Sdg": _S.conj().T, "T": _T, "Tdg": _T.conj().T,
    "V": _V, "Vdg": _V.conj().T,
    "CX": _ctrl(_X), "CY": _ctrl(_Y), "CZ": _ctrl(_Z), "Toffoli": _ctrl(_ctrl(_X)),
}


def _zzphase(a):
    e0, e1 = np.exp(-1j * math.pi * a / 2), np.exp(1j * math.pi * a / 2)
    return np.diag([e0, e1, e1, e0])


def _phasedx(a, b):
    return _rz(b) @ _rx(a) @ _rz(-b)


# ----------------------------------------------------------------- static hugr facts
EFFECT_OPS = {
    "prelude.panic", "prelude.exit", "prelude.print",
    "tket.quantum.QAlloc", "tket.quantum.TryQAlloc", "tket.quantum.Measure",
    "tket.quantum.MeasureFree", "tket.quantum.QFree", "tket.quantum.Reset",
    "tket.qsystem.TryQAlloc", "tket.qsystem.Measure", "tket.qsystem.MeasureReset",
    "tket.qsystem.LazyMeasure", "tket.qsystem.LazyMeasureReset", "tket.qsystem.LazyMeasureLeaked",
    "tket.qsystem.QFree", "tket.qsystem.Reset", "tket.futures.Read",
    "tket.debug.StateResult",
}


def ext_name(op) -> str | None:
    if isinstance(op, ops.AsExtOp):
        try:
            return op.op_def().qualified_name()
        except Exception:  # noqa: BLE001
            return op.ext_op._op_def.qualified_name()
    if isinstance(op, ops.Custom):
        return f"{op.extension}.{op.op_name}"
    return None


class Region:
    __slots__ = ("inp", "out", "work", "deps", "order", "out_srcs", "eff", "users")


class Static:
    """Per-Hugr cached structure: value sources of every in-port, region schedules,
    effect classification."""

    _cache: dict[int, "Static"] = {}

    @classmethod
    def of(cls, h) -> "Static":
        s = cls._cache.get(id(h))
        if s is None or s.h is not h:
            s = cls(h)
            cls._cache.clear()          # keep at most one (hugrs are big)
            cls._cache[id(h)] = s
        return s

    def __init__(self, h):
        self.h = h
        self.ops: dict[int, Any] = {}
        self.parent: dict[int, int | None] = {}
        self.children: dict[int, list[int]] = {}
        self.nodes: dict[int, Any] = {}
        for n in h:
            d = h[n]
            self.nodes[n.idx] = n
            self.ops[n.idx] = d.op
            self.parent[n.idx] = d.parent.idx if d.parent is not None else None
            self.children[n.idx] = [c.idx for c in h.children(n)]
        self.name: dict[int, str | None] = {i: ext_name(o) for i, o in self.ops.items()}
        # in-port sources
        self.vsrc: dict[int, list] = {}      # node -> [(src_idx, src_port) | None] per value in-port
        self.ssrc: dict[int, int | None] = {}  # node -> static source node (Const / FuncDefn)
        self.order_pred: dict[int, list[int]] = {}
        self.nout: dict[int, int] = {}
        for i, n in self.nodes.items():
            op = self.ops[i]
            srcs = []
            stat = None
            for p in range(h.num_in_ports(n)):
                ip = n.inp(p)
                lk = list(h.linked_ports(ip))
                try:
                    kind = h.port_kind(ip)
                except Exception:  # noqa: BLE001
                    kind = None
                if isinstance(kind, (tys.ConstKind, tys.FunctionKind)):
                    stat = lk[0].node.idx if lk else None
                    continue
                if isinstance(kind, tys.CFKind):
                    continue
                if isinstance(kind, tys.OrderKind):
                    continue
                if lk:
                    srcs.append((lk[0].node.idx, lk[0].offset))
                else:
                    srcs.append(None)
            self.vsrc[i] = srcs
            self.ssrc[i] = stat
            self.order_pred[i] = [p.node.idx for p in h.linked_ports(n.inp(-1))]
            self.nout[i] = h.num_out_ports(n)
        self.funcs: dict[str, int] = {}
        root = h.module_root.idx
        for c in self.children[root]:
            op = self.ops[c]
            if isinstance(op, (ops.FuncDefn, ops.FuncDecl)):
                self.funcs.setdefault(op.f_name, c)
        self._eff: dict[int, bool] = {}
        self._compute_effects()
        self._regions: dict[int, Region] = {}
        self._cf_succ: dict[int, list[int]] = {}

    # ---- effects
    def _compute_effects(self):
        ops_ = self.ops
        fn_eff = {i: False for i, o in ops_.items() if isinstance(o, ops.FuncDefn)}
        for i, o in ops_.items():
            if isinstance(o, ops.FuncDecl):
                fn_eff[i] = True
        changed = True

        def node_eff(i) -> bool:
            o = ops_[i]
            nm = self.name[i]
            if nm is not None:
                if nm in EFFECT_OPS or nm.startswith("tket.result.") or nm.startswith("tket.qsystem.random") \
                        or nm.startswith("tket.qsystem.utils") or nm.startswith("tket.wasm") or nm.startswith("tket.gpu"):
                    return True
                return False
            if isinstance(o, ops.Call):
                t = self.ssrc[i]
                return fn_eff.get(t, True)
            if isinstance(o, ops.CallIndirect):
                return True
            if isinstance(o, (ops.FuncDefn, ops.FuncDecl, ops.Const)):
                return False
            return any(node_eff(c) for c in self.children[i])

        while changed:
            changed = False
            for f in fn_eff:
                if not fn_eff[f] and any(node_eff(c) for c in self.children[f]):
                    fn_eff[f] = True
                    changed = True
        self._eff = {i: node_eff(i) for i in ops_}
        self.fn_eff = fn_eff

    # ---- regions
    def region(self, parent: int) -> Region:
        r = self._regions.get(parent)
        if r is not None:
            return r
        r = Region()
        kids = self.children[parent]
        r.inp = next(k for k in kids if isinstance(self.ops[k], ops.Input))
        r.out = next(k for k in kids if isinstance(self.ops[k], ops.Output))
        r.work = [k for k in kids if not isinstance(
            self.ops[k], (ops.Input, ops.Output, ops.Const, ops.FuncDefn, ops.FuncDecl))]
        kidset = set(r.work)
        deps: dict[int, set] = {k: set() for k in r.work}

        def add_value_deps(top, node):
            for src in self.vsrc[node]:
                if src is None:
                    continue
                s = src[0]
                if s in kidset and s != top:
                    deps[top].add(s)
            for c in self.children[node]:
                add_value_deps(top, c)

        for k in r.work:
            add_value_deps(k, k)
            for p in self.order_pred[k]:
                if p in kidset:
                    deps[k].add(p)
        r.deps = deps
        # canonical topological order: Kahn with children-order priority
        pos = {k: i for i, k in enumerate(r.work)}
        indeg = {k: len(deps[k]) for k in r.work}
        users: dict[int, list[int]] = {k: [] for k in r.work}
        for k, ds in deps.items():
            for d in ds:
                users[d].append(k)
        import heapq
        heap = [pos[k] for k in r.work if indeg[k] == 0]
        heapq.heapify(heap)
        order = []
        while heap:
            k = r.work[heapq.heappop(heap)]
            order.append(k)
            for u in users[k]:
                indeg[u] -= 1
                if indeg[u] == 0:
                    heapq.heappush(heap, pos[u])
        if len(order) != len(r.work):
            raise VMInvariant(f"cyclic dataflow region under node {parent}")
        r.order = order
        r.users = users
        r.out_srcs = self.vsrc[r.out]
        r.eff = {k: self._eff[k] for k in r.work}
        self._regions[parent] = r
        return r

    def cf_successors(self, block: int) -> list[int]:
        s = self._cf_succ.get(block)
        if s is None:
            n = self.nodes[block]
            s = []
            for p in range(self.h.num_out_ports(n)):
                lk = list(self.h.linked_ports(n.out(p)))
                s.append(lk[0].node.idx if lk else None)
            self._cf_succ[block] = s
        return s


# --------------------------------------------------------------------------- machine
class Frame:
    __slots__ = ("targs",)

    def __init__(self, targs):
        self.targs = targs  # list of (TypeArg, Frame|None) closures


class Machine:
    def __init__(self, hugr, chooser: Chooser | None = None, explore_sched: bool = False,
                 step_budget: int = 2_000_000, max_depth: int = 150, max_qubits: int = 10):
        self.h = hugr
        self.S = Static.of(hugr)
        self.chooser = chooser or Chooser()
        self.explore_sched = explore_sched
        self.events: list = []
        self.q = QSim(self.chooser, self.events, max_qubits)
        self.steps = 0
        self.step_budget = step_budget
        self.depth = 0
        self.max_depth = max_depth
        self.externs: dict = {}

    # ---- type-arg helpers
    def nat(self, arg, frame: Frame) -> int:
        for _ in range(64):
            if isinstance(arg, tuple):
                arg, frame = arg
                continue
            if isinstance(arg, tys.BoundedNatArg):
                return arg.n
            if isinstance(arg, tys.VariableArg):
                arg = frame.targs[arg.idx]
                continue
            break
        raise VMUnsupported(f"cannot resolve nat type argument {arg!r}")

    # ---- entry points
    def func(self, name: str) -> int:
        if name in self.S.funcs:
            return self.S.funcs[name]
        cands = [i for n, i in self.S.funcs.items() if n.split(".")[-1] == name]
        if len(cands) == 1:
            return cands[0]
        raise KeyError(name)

    def call(self, fn: int | str, args: list, targs: list | None = None) -> list:
        node = self.func(fn) if isinstance(fn, str) else fn
        return self.call_defn(node, list(args), [(a, None) for a in (targs or [])])

    def call_defn(self, node: int, args: list, targs: list) -> list:
        op = self.S.ops[node]
        if isinstance(op, ops.FuncDecl):
            h = self.externs.get(op.f_name) or self.externs.get(op.f_name.split(".")[-1])
            if h is None:
                raise VMUnsupported(f"call to declared-only function {op.f_name}")
            self.events.append(("extern", op.f_name))
            return list(h(*args))
        self.depth += 1
        if self.depth > self.max_depth:
            raise VMBudget("call depth")
        try:
            return self.run_region(node, args, {}, Frame(targs))
        finally:
            self.depth -= 1

    def call_value(self, f, args: list) -> list:
        if isinstance(f, FnVal):
            return self.call_defn(f.node, args, f.targs)
        if isinstance(f, Partial):
            return self.call_value(f.fn, list(f.captured) + args)
        if isinstance(f, Modified):
            from vlib import hugrvm_modifier
            return hugrvm_modifier.call_modified(self, f, args)
        raise VMUnsupported(f"call of {f!r}")

    # ---- regions
    def run_region(self, parent: int, inputs: list, env: dict, frame: Frame) -> list:
        r = self.S.region(parent)
        inp = r.inp
        for i, v in enumerate(inputs):
            env[(inp, i)] = v
        if not self.explore_sched:
            for k in r.order:
                self.exec_node(k, env, frame)
        else:
            self._run_scheduled(r, env, frame)
        out = []
        for src in r.out_srcs:
            if src is None:
                raise VMInvariant(f"unconnected output port in region {parent}")
            out.append(env[src])
        return out

    def _run_scheduled(self, r: Region, env, frame):
        indeg = {k: len(r.deps[k]) for k in r.work}
        pos = {k: i for i, k in enumerate(r.work)}
        ready = sorted((k for k in r.work if indeg[k] == 0), key=pos.get)
        done = 0
        while ready:
            pure = [k for k in ready if not r.eff[k]]
            if pure:
                k = pure[0]
            else:
                if len(ready) > 1:
                    k = ready[self.chooser.choose(len(ready), "sched")]
                else:
                    k = ready[0]
            ready.remove(k)
            self.exec_node(k, env, frame)
            done += 1
            for u in r.users[k]:
                indeg[u] -= 1
                if indeg[u] == 0:
                    ready.append(u)
            ready.sort(key=pos.get)
        if done != len(r.work):
            raise VMInvariant("region did not complete")

    # ---- nodes
    def exec_node(self, k: int, env: dict, frame: Frame) -> None:
        self.steps += 1
        if self.steps > self.step_budget:
            raise VMBudget("steps")
        S = self.S
        op = S.ops[k]
        ins = []
        for src in S.vsrc[k]:
            if src is None:
                raise VMInvariant(f"unconnected input of node {k} ({op})")
            try:
                ins.append(env[src])
            except KeyError:
                raise VMInvariant(f"value {src} read before it was produced (node {k})") from None
        nm = S.name[k]
        if isinstance(op, ops.MakeTuple):
            outs = [Sum(0, ins)]
        elif isinstance(op, ops.UnpackTuple):
            outs = list(ins[0].vals)
        elif isinstance(op, ops.Tag):
            outs = [Sum(op.tag, ins)]
        elif isinstance(op, ops.Noop):
            outs = ins
        elif nm is not None:
            h = HANDLERS.get(nm)
            if h is None:
                raise VMUnsupported(f"op {nm}")
            outs = h(self, op, ins, frame, k)
        elif isinstance(op, ops.LoadConst):
            outs = [self.const_value(S.ops[S.ssrc[k]].val)]
        elif isinstance(op, ops.Call):
            targs = [(a, frame) for a in op.type_args]
            outs = self.call_defn(S.ssrc[k], ins, targs)
        elif isinstance(op, ops.LoadFunc):
            outs = [FnVal(S.ssrc[k], [(a, frame) for a in op.type_args])]
        elif isinstance(op, ops.CallIndirect):
            outs = self.call_value(ins[0], ins[1:])
        elif isinstance(op, ops.DFG):
            outs = self.run_region(k, ins, env, frame)
        elif isinstance(op, ops.Conditional):
            s = ins[0]
            case = S.children[k][s.tag]
            outs = self.run_region(case, list(s.vals) + ins[1:], env, frame)
        elif isinstance(op, ops.TailLoop):
            cur = ins
            while True:
                res = self.run_region(k, cur, env, frame)
                s, rest = res[0], res[1:]
                if s.tag == 0:
                    cur = list(s.vals) + rest
                    self.steps += 1
                    if self.steps > self.step_budget:
                        raise VMBudget("steps")
                else:
                    outs = list(s.vals) + rest
                    break
        elif isinstance(op, ops.CFG):
            outs = self.run_cfg(k, ins, env, frame)
        else:
            raise VMUnsupported(f"node kind {type(op).__name__}")
        # (hugr-py may under-report the port count of a container whose outputs were set after the
        #  node was created; surplus values are harmless, missing ones are not)
        if len(outs) < S.nout[k]:
            raise VMInvariant(f"node {k} ({nm or type(op).__name__}) produced {len(outs)} values, has {S.nout[k]} ports")
        for i, v in enumerate(outs):
            env[(k, i)] = v

    def run_cfg(self, k: int, ins: list, env: dict, frame: Frame) -> list:
        S = self.S
        kids = S.children[k]
        block = kids[0]
        cur = ins
        while True:
            bop = S.ops[block]
            if isinstance(bop, ops.ExitBlock):
                return cur
            self.steps += 1
            if self.steps > self.step_budget:
                raise VMBudget("steps")
            res = self.run_region(block, cur, env, frame)
            s, rest = res[0], res[1:]
            succ = S.cf_successors(block)
            if s.tag >= len(succ) or succ[s.tag] is None:
                raise VMInvariant(f"block {block} branches to missing successor {s.tag}")
            block = succ[s.tag]
            cur = list(s.vals) + rest

    # ---- constants
    def const_value(self, v) -> Any:
        cn = type(v).__name__
        if isinstance(v, val.Sum):
            return Sum(v.tag, tuple(self.const_value(x) for x in v.vals))
        if cn == "IntVal":
            return u64(v.v)
        if cn == "UnsignedIntVal":
            return u64(v.v)
        if cn == "FloatVal":
            return float(v.v)
        if cn == "StringVal":
            return v.v
        if cn == "ErrorVal":
            return ErrVal(v.signal, v.message)
        if cn == "OpaqueBoolVal":
            return bool(v.v)
        if cn in ("ArrayVal", "BorrowArrayVal"):
            return Arr([self.const_value(x) for x in v.v])
        if cn == "StaticArrayVal":
            return StaticArr([self.const_value(x) for x in v.v.v] if hasattr(v.v, "v") else
                             [self.const_value(x) for x in v.v])
        if cn == "ListVal":
            return ListVal([self.const_value(x) for x in v.v])
        if cn == "ConstRotation" or cn == "RotationVal":
            return float(getattr(v, "half_turns", getattr(v, "v", 0.0)))
        if isinstance(v, val.Extension):
            return self._ext_const(v)
        if isinstance(v, val.Function):
            raise VMUnsupported("function constant")
        raise VMUnsupported(f"constant {cn}")

    def _ext_const(self, v):
        name, payload = v.name, v.val
        if name == "ConstInt":
            return u64(payload["value"])
        if name == "ConstF64":
            return float(payload["value"])
        if name == "ConstString":
            return payload
        if name == "ConstUsize":
            return int(payload)
        if name == "ConstBool":
            return bool(payload)
        if name == "ConstError":
            return ErrVal(payload["signal"], payload["message"])
        if name == "ConstRotation":
            return float(payload["half_turns"])
        raise VMUnsupported(f"extension constant {name}")


# --------------------------------------------------------------------------- handlers
HANDLERS: dict[str, Callable] = {}


def handler(*names):
    def deco(f):
        for n in names:
            HANDLERS[n] = f
        return f
    return deco


def _binop(name, f):
    HANDLERS[name] = lambda m, op, ins, fr, k: [f(ins[0], ins[1])]


def _unop(name, f):
    HANDLERS[name] = lambda m, op, ins, fr, k: [f(ins[0])]


def _div_by_zero():
    raise GuppyPanic(1, "Division by zero")


def _idivmod_u(n, d):
    if d == 0:
        _div_by_zero()
    return n // d, n % d


def _idivmod_s(n, d):
    # signed dividend n, UNSIGNED divisor d: q*d + r == n, 0 <= r < d; q signed
    if d == 0:
        _div_by_zero()
    q, r = divmod(s64(n), d)
    return u64(q), u64(r)


def _ipow(b, e):
    return pow(b, e, 1 << 64)


def _shl(a, k):
    return u64(a << k) if k < 64 else 0


def _shr(a, k):
    return (a >> k) if k < 64 else 0


I = "arithmetic.int."
_binop(I + "iadd", lambda a, b: u64(a + b))
_binop(I + "isub", lambda a, b: u64(a - b))
_binop(I + "imul", lambda a, b: u64(a * b))
_unop(I + "ineg", lambda a: u64(-a))
_unop(I + "iabs", lambda a: u64(abs(s64(a))))
_unop(I + "inot", lambda a: u64(~a))
_binop(I + "iand", lambda a, b: a & b)
_binop(I + "ior", lambda a, b: a | b)
_binop(I + "ixor", lambda a, b: a ^ b)
_binop(I + "ishl", _shl)
_binop(I + "ishr", _shr)
_binop(I + "ipow", _ipow)
_binop(I + "idiv_u", lambda a, b: _idivmod_u(a, b)[0])
_binop(I + "imod_u", lambda a, b: _idivmod_u(a, b)[1])
_binop(I + "idiv_s", lambda a, b: _idivmod_s(a, b)[0])
_binop(I + "imod_s", lambda a, b: _idivmod_s(a, b)[1])
HANDLERS[I + "idivmod_u"] = lambda m, op, ins, fr, k: list(_idivmod_u(ins[0], ins[1]))
HANDLERS[I + "idivmod_s"] = lambda m, op, ins, fr, k: list(_idivmod_s(ins[0], ins[1]))
_binop(I + "ieq", lambda a, b: sbool(a == b))
_binop(I + "ine", lambda a, b: sbool(a != b))
_binop(I + "ilt_u", lambda a, b: sbool(a < b))
_binop(I + "ile_u", lambda a, b: sbool(a <= b))
_binop(I + "igt_u", lambda a, b: sbool(a > b))
_binop(I + "ige_u", lambda a, b: sbool(a >= b))
_binop(I + "ilt_s", lambda a, b: sbool(s64(a) < s64(b)))
_binop(I + "ile_s", lambda a, b: sbool(s64(a) <= s64(b)))
_binop(I + "igt_s", lambda a, b: sbool(s64(a) > s64(b)))
_binop(I + "ige_s", lambda a, b: sbool(s64(a) >= s64(b)))
_binop(I + "imax_u", max)
_binop(I + "imin_u", min)
_binop(I + "imax_s", lambda a, b: a if s64(a) >= s64(b) else b)
_binop(I + "imin_s", lambda a, b: a if s64(a) <= s64(b) else b)


@handler(I + "is_to_u")
def _is_to_u(m, op, ins, fr, k):
    if s64(ins[0]) < 0:
        raise GuppyPanic(1, "is_to_u called on negative value")
    return [ins[0]]


@handler(I + "iu_to_s")
def _iu_to_s(m, op, ins, fr, k):
    if ins[0] >= SIGN:
        raise GuppyPanic(1, "iu_to_s called on large value")
    return [ins[0]]


F = "arithmetic.float."


def _fdiv(a, b):
    if b == 0:
        if a == 0 or a != a:
            return math.nan
        return math.copysign(math.inf, a) * math.copysign(1.0, b)
    return a / b


def _fpow(a, b):
    try:
        r = math.pow(a, b)
    except OverflowError:
        r = math.inf
    except ValueError:
        r = math.nan
    return r


def _fmul(a, b):
    return a * b


_binop(F + "fadd", lambda a, b: a + b)
_binop(F + "fsub", lambda a, b: a - b)
_binop(F + "fmul", _fmul)
_binop(F + "fdiv", _fdiv)
_binop(F + "fpow", _fpow)
_binop(F + "fmax", max)
_binop(F + "fmin", min)
_unop(F + "fneg", lambda a: -a)
_unop(F + "fabs", abs)
_unop(F + "ffloor", lambda a: float(math.floor(a)) if math.isfinite(a) else a)
_unop(F + "fceil", lambda a: float(math.ceil(a)) if math.isfinite(a) else a)
_unop(F + "fround", lambda a: float(round(a)) if math.isfinite(a) else a)
_unop(F + "froundeven", lambda a: float(round(a)) if math.isfinite(a) else a)
_binop(F + "feq", lambda a, b: sbool(a == b))
_binop(F + "fne", lambda a, b: sbool(a != b))
_binop(F + "flt", lambda a, b: sbool(a < b))
_binop(F + "fle", lambda a, b: sbool(a <= b))
_binop(F + "fgt", lambda a, b: sbool(a > b))
_binop(F + "fge", lambda a, b: sbool(a >= b))

C = "arithmetic.conversions."
_unop(C + "convert_s", lambda a: float(s64(a)))
_unop(C + "convert_u", lambda a: float(a))
_unop(C + "itousize", lambda a: a)
_unop(C + "ifromusize", lambda a: u64(a))
_unop(C + "itobool", lambda a: sbool(bool(a & 1)))
_unop(C + "ifrombool", lambda a: a.tag)
_unop(C + "bytecast_int64_to_float64", lambda a: struct.unpack("<d", struct.pack("<Q", a))[0])
_unop(C + "bytecast_float64_to_int64", lambda a: struct.unpack("<Q", struct.pack("<d", a))[0])

_TRUNC_ERR = ErrVal(2, "Float value too big to convert to int of given width (64)")


@handler(C + "trunc_s")
def _trunc_s(m, op, ins, fr, k):
    a = ins[0]
    if not math.isfinite(a):
        return [Sum(0, (_TRUNC_ERR,))]
    t = math.trunc(a)
    if not (-(1 << 63) <= t < (1 << 63)):
        return [Sum(0, (_TRUNC_ERR,))]
    return [Sum(1, (u64(t),))]


@handler(C + "trunc_u")
def _trunc_u(m, op, ins, fr, k):
    a = ins[0]
    if not math.isfinite(a):
        return [Sum(0, (_TRUNC_ERR,))]
    t = math.trunc(a)
    if not (0 <= t < (1 << 64)):
        return [Sum(0, (_TRUNC_ERR,))]
    return [Sum(1, (t,))]


L = "logic."
_binop(L + "And", lambda a, b: sbool(a.tag and b.tag))
_binop(L + "Or", lambda a, b: sbool(a.tag or b.tag))
_binop(L + "Xor", lambda a, b: sbool(a.tag != b.tag))
_binop(L + "Eq", lambda a, b: sbool(a.tag == b.tag))
_unop(L + "Not", lambda a: sbool(not a.tag))

B = "tket.bool."
_unop(B + "read", lambda a: sbool(a))
_unop(B + "make_opaque", lambda a: bool(a.tag))
_unop(B + "not", lambda a: not a)
_binop(B + "and", lambda a, b: a and b)
_binop(B + "or", lambda a, b: a or b)
_binop(B + "xor", lambda a, b: a != b)
_binop(B + "eq", lambda a, b: a == b)


# ---- prelude
@handler("prelude.panic")
def _panic(m, op, ins, fr, k):
    e = ins[0]
    m.events.append(("panic", e.signal, e.msg))
    raise GuppyPanic(e.signal, e.msg)


@handler("prelude.exit")
def _exit(m, op, ins, fr, k):
    e = ins[0]
    m.events.append(("exit", e.signal, e.msg))
    raise GuppyExit(e.signal, e.msg)


@handler("prelude.MakeError")
def _make_error(m, op, ins, fr, k):
    return [ErrVal(s64(ins[0]) if ins[0] >= SIGN else ins[0], ins[1])]


@handler("prelude.load_nat")
def _load_nat(m, op, ins, fr, k):
    return [m.nat(op.ext_op.args[0], fr)]


@handler("prelude.Barrier", "tket.qsystem.RuntimeBarrier")
def _barrier(m, op, ins, fr, k):
    return list(ins)


@handler("prelude.print")
def _print(m, op, ins, fr, k):
    m.events.append(("print", ins[0]))
    return []


@handler("tket.guppy.drop")
def _drop(m, op, ins, fr, k):
    v = ins[0]
    _drop_value(m, v)
    return []


def _drop_value(m, v):
    if isinstance(v, Arr):
        if v.dead:
            raise VMInvariant("drop of consumed array")
        v.dead = True
        for s in v.slots:
            _drop_value(m, s)
    elif isinstance(v, QRef):
        raise VMInvariant("drop of a qubit")
    elif isinstance(v, Sum):
        for s in v.vals:
            _drop_value(m, s)


# ---- results
def _strarg(op, i=0):
    a = op.ext_op.args[i]
    return a.value if isinstance(a, tys.StringArg) else str(a)


def _plain(v):
    """Observable form of a classical value."""
    if isinstance(v, Sum):
        if not v.vals and v.tag in (0, 1):
            return bool(v.tag)
        return ("sum", v.tag, tuple(_plain(x) for x in v.vals))
    if isinstance(v, Arr):
        return [_plain(x) for x in v.slots]
    return v


@handler("tket.result.result_int")
def _r_int(m, op, ins, fr, k):
    m.events.append(("result", _strarg(op), s64(ins[0])))
    return []


@handler("tket.result.result_uint")
def _r_uint(m, op, ins, fr, k):
    m.events.append(("result", _strarg(op), u64(ins[0])))
    return []


@handler("tket.result.result_bool")
def _r_bool(m, op, ins, fr, k):
    m.events.append(("result", _strarg(op), bool(ins[0].tag)))
    return []


@handler("tket.result.result_f64")
def _r_f64(m, op, ins, fr, k):
    m.events.append(("result", _strarg(op), float(ins[0])))
    return []


def _arr_consume(a: Arr) -> list:
    if not isinstance(a, Arr):
        raise VMInvariant(f"expected array, got {a!r}")
    if a.dead:
        raise VMInvariant("array used after it was consumed (linear value used twice)")
    a.dead = True
    return a.slots


def _result_array(conv):
    def h(m, op, ins, fr, k):
        slots = _arr_consume(ins[0])
        if any(s is BORROWED for s in slots):
            raise VMInvariant("result of array with borrowed slot")
        m.events.append(("result", _strarg(op), [conv(x) for x in slots]))
        return []
    return h


HANDLERS["tket.result.result_array_int"] = _result_array(s64)
HANDLERS["tket.result.result_array_uint"] = _result_array(u64)
HANDLERS["tket.result.result_array_bool"] = _result_array(lambda s: bool(s.tag))
HANDLERS["tket.result.result_array_f64"] = _result_array(float)


# ---- arrays (collections.array and collections.borrow_arr share semantics here)
def _oob_panic():
    raise GuppyPanic(1, "Array index out of bounds")


def _arr_ops(prefix: str, borrowish: bool):
    P = prefix

    @handler(P + "new_array")
    def new_array(m, op, ins, fr, k):
        return [Arr(list(ins))]

    @handler(P + "get")
    def get(m, op, ins, fr, k):
        slots = _arr_consume(ins[0])
        i = ins[1]
        na = Arr(slots)
        if 0 <= i < len(slots):
            v = slots[i]
            if v is BORROWED:
                raise GuppyPanic(1, f"Array element is already borrowed (get at {i})")
            return [Sum(1, (v,)), na]
        return [Sum(0, ()), na]

    @handler(P + "set")
    def set_(m, op, ins, fr, k):
        slots = _arr_consume(ins[0])
        i, v = ins[1], ins[2]
        if 0 <= i < len(slots):
            old = slots[i]
            if old is BORROWED:
                raise GuppyPanic(1, f"Array element is already borrowed (set at {i})")
            slots[i] = v
            return [Sum(1, (old, Arr(slots)))]
        return [Sum(0, (v, Arr(slots)))]

    @handler(P + "swap")
    def swap(m, op, ins, fr, k):
        slots = _arr_consume(ins[0])
        i, j = ins[1], ins[2]
        if 0 <= i < len(slots) and 0 <= j < len(slots):
            if slots[i] is BORROWED or slots[j] is BORROWED:
                raise GuppyPanic(1, "Array element is already borrowed (swap)")
            slots[i], slots[j] = slots[j], slots[i]
            return [Sum(1, (Arr(slots),))]
        return [Sum(0, (Arr(slots),))]

    @handler(P + "pop_left")
    def pop_left(m, op, ins, fr, k):
        slots = _arr_consume(ins[0])
        if not slots:
            return [Sum(0, ())]
        v = slots[0]
        if v is BORROWED:
            raise GuppyPanic(1, "Array element is already borrowed (pop_left)")
        return [Sum(1, (v, Arr(slots[1:])))]

    @handler(P + "pop_right")
    def pop_right(m, op, ins, fr, k):
        slots = _arr_consume(ins[0])
        if not slots:
            return [Sum(0, ())]
        v = slots[-1]
        if v is BORROWED:
            raise GuppyPanic(1, "Array element is already borrowed (pop_right)")
        return [Sum(1, (v, Arr(slots[:-1])))]

    @handler(P + "discard_empty")
    def discard_empty(m, op, ins, fr, k):
        slots = _arr_consume(ins[0])
        if slots:
            raise VMInvariant("discard_empty of non-empty array")
        return []

    @handler(P + "discard")
    def discard(m, op, ins, fr, k):
        _arr_consume(ins[0])
        return []

    @handler(P + "clone")
    def clone(m, op, ins, fr, k):
        slots = _arr_consume(ins[0])
        if any(s is BORROWED for s in slots):
            raise GuppyPanic(1, "Array element is already borrowed (clone)")
        return [Arr(slots), Arr([_deep_copy(s) for s in slots])]

    @handler(P + "unpack")
    def unpack(m, op, ins, fr, k):
        slots = _arr_consume(ins[0])
        if any(s is BORROWED for s in slots):
            raise GuppyPanic(1, "Array element is already borrowed (unpack)")
        return list(slots)

    @handler(P + "repeat")
    def repeat(m, op, ins, fr, k):
        n = m.nat(op.ext_op.args[0], fr)
        out = []
        for _ in range(n):
            (v,) = m.call_value(ins[0], [])
            out.append(v)
        return [Arr(out)]

    @handler(P + "scan")
    def scan(m, op, ins, fr, k):
        slots = _arr_consume(ins[0])
        f, acc = ins[1], list(ins[2:])
        out = []
        for s in slots:
            if s is BORROWED:
                raise GuppyPanic(1, "Array element is already borrowed (scan)")
            res = m.call_value(f, [s] + acc)
            out.append(res[0])
            acc = res[1:]
        return [Arr(out)] + acc

    if borrowish:
        @handler(P + "borrow")
        def borrow(m, op, ins, fr, k):
            slots = _arr_consume(ins[0])
            i = ins[1]
            if not 0 <= i < len(slots):
                _oob_panic()
            v = slots[i]
            if v is BORROWED:
                raise GuppyPanic(1, f"Array element is already borrowed (borrow at {i})")
            slots[i] = BORROWED
            return [Arr(slots), v]

        @handler(P + "return")
        def return_(m, op, ins, fr, k):
            slots = _arr_consume(ins[0])
            i, v = ins[1], ins[2]
            if not 0 <= i < len(slots):
                _oob_panic()
            if slots[i] is not BORROWED:
                raise GuppyPanic(1, f"Array already contains an element at {i} (return)")
            slots[i] = v
            return [Arr(slots)]

        @handler(P + "is_borrowed")
        def is_borrowed(m, op, ins, fr, k):
            slots = _arr_consume(ins[0])
            i = ins[1]
            if not 0 <= i < len(slots):
                _oob_panic()
            return [Arr(slots), sbool(slots[i] is BORROWED)]

        @handler(P + "new_all_borrowed")
        def new_all_borrowed(m, op, ins, fr, k):
            n = m.nat(op.ext_op.args[0], fr)
            return [Arr([BORROWED] * n)]

        @handler(P + "discard_all_borrowed")
        def discard_all_borrowed(m, op, ins, fr, k):
            slots = _arr_consume(ins[0])
            if any(s is not BORROWED for s in slots):
                raise GuppyPanic(1, "discard_all_borrowed: array still holds elements")
            return []

        @handler(P + "to_array", P + "from_array")
        def conv(m, op, ins, fr, k):
            slots = _arr_consume(ins[0])
            if any(s is BORROWED for s in slots):
                raise GuppyPanic(1, "Array element is already borrowed (to_array)")
            return [Arr(slots)]


_arr_ops("collections.array.", False)
_arr_ops("collections.borrow_arr.", True)


def _deep_copy(v):
    if isinstance(v, Arr):
        return Arr([_deep_copy(s) for s in v.slots])
    if isinstance(v, Sum):
        return Sum(v.tag, tuple(_deep_copy(s) for s in v.vals))
    if isinstance(v, QRef):
        raise VMInvariant("copy of a qubit")
    return v


@handler("collections.static_array.get")
def _sa_get(m, op, ins, fr, k):
    a, i = ins
    if 0 <= i < len(a.items):
        return [Sum(1, (a.items[i],))]
    return [Sum(0, ())]


@handler("collections.static_array.len")
def _sa_len(m, op, ins, fr, k):
    return [len(ins[0].items)]


# ---- lists
@handler("collections.list.push")
def _l_push(m, op, ins, fr, k):
    l = ins[0]
    return [ListVal(l.items + [ins[1]])]


@handler("collections.list.pop")
def _l_pop(m, op, ins, fr, k):
    l = ins[0]
    if not l.items:
        return [ListVal([]), Sum(0, ())]
    return [ListVal(l.items[:-1]), Sum(1, (l.items[-1],))]


@handler("collections.list.length")
def _l_len(m, op, ins, fr, k):
    return [ins[0], len(ins[0].items)]


@handler("collections.list.get")
def _l_get(m, op, ins, fr, k):
    l, i = ins
    if 0 <= i < len(l.items):
        return [Sum(1, (l.items[i],))]
    return [Sum(0, ())]


# ---- quantum
def _gate1(name):
    mat = GATES[name]
    for ext in ("tket.quantum.",):
        HANDLERS[ext + name] = lambda m, op, ins, fr, k, mat=mat: m.q.apply(mat, ins)


for _g in GATES:
    _gate1(_g)


@handler("tket.quantum.Rz")
def _q_rz(m, op, ins, fr, k):
    return m.q.apply(_rz(ins[1]), [ins[0]])


@handler("tket.quantum.Rx")
def _q_rx(m, op, ins, fr, k):
    return m.q.apply(_rx(ins[1]), [ins[0]])


@handler("tket.quantum.Ry")
def _q_ry(m, op, ins, fr, k):
    return m.q.apply(_ry(ins[1]), [ins[0]])


@handler("tket.quantum.CRz")
def _q_crz(m, op, ins, fr, k):
    return m.q.apply(_ctrl(_rz(ins[2])), [ins[0], ins[1]])


# qsystem native gates take float64 angles in RADIANS
@handler("tket.qsystem.Rz")
def _qs_rz(m, op, ins, fr, k):
    return m.q.apply(_rz(ins[1] / math.pi), [ins[0]])


@handler("tket.qsystem.PhasedX")
def _qs_phasedx(m, op, ins, fr, k):
    return m.q.apply(_phasedx(ins[1] / math.pi, ins[2] / math.pi), [ins[0]])


@handler("tket.qsystem.ZZPhase")
def _qs_zzphase(m, op, ins, fr, k):
    return m.q.apply(_zzphase(ins[2] / math.pi), [ins[0], ins[1]])


@handler("tket.quantum.QAlloc")
def _qalloc(m, op, ins, fr, k):
    return [m.q.alloc()]


@handler("tket.quantum.TryQAlloc", "tket.qsystem.TryQAlloc")
def _tryqalloc(m, op, ins, fr, k):
    return [Sum(1, (m.q.alloc(),))]


@handler("tket.quantum.QFree", "tket.qsystem.QFree")
def _qfree(m, op, ins, fr, k):
    m.q.free(ins[0])
    return []


@handler("tket.quantum.Reset", "tket.qsystem.Reset")
def _qreset(m, op, ins, fr, k):
    return [m.q.reset(ins[0])]


@handler("tket.quantum.Measure")
def _qmeasure(m, op, ins, fr, k):
    q, out = m.q.measure(ins[0])
    return [q, sbool(out)]


@handler("tket.quantum.MeasureFree", "tket.qsystem.Measure")
def _qmeasurefree(m, op, ins, fr, k):
    # legacy (tket-exts 0.12) signature: Q -> tket.bool
    q, out = m.q.measure(ins[0])
    m.q.free(q)
    return [bool(out)]


@handler("tket.qsystem.MeasureReset")
def _qmeasurereset(m, op, ins, fr, k):
    q, out = m.q.measure(ins[0])
    if out:
        (q,) = m.q.apply(GATES["X"], [q])
    return [q, bool(out)]


@handler("tket.qsystem.LazyMeasure")
def _lazy_measure(m, op, ins, fr, k):
    q, out = m.q.measure(ins[0])
    m.q.free(q)
    return [Future(sbool(out))]


@handler("tket.qsystem.LazyMeasureReset")
def _lazy_measure_reset(m, op, ins, fr, k):
    q, out = m.q.measure(ins[0])
    if out:
        (q,) = m.q.apply(GATES["X"], [q])
    return [q, Future(sbool(out))]


@handler("tket.qsystem.LazyMeasureLeaked")
def _lazy_measure_leaked(m, op, ins, fr, k):
    q, out = m.q.measure(ins[0])
    m.q.free(q)
    return [Future(out)]


@handler("tket.futures.Read")
def _fut_read(m, op, ins, fr, k):
    f = ins[0]
    if f.dead:
        raise VMInvariant("future read twice")
    f.dead = True
    return [f.val]


@handler("tket.futures.Dup")
def _fut_dup(m, op, ins, fr, k):
    f = ins[0]
    if f.dead:
        raise VMInvariant("future used after consumption")
    f.dead = True
    return [Future(f.val), Future(f.val)]


@handler("tket.futures.Free")
def _fut_free(m, op, ins, fr, k):
    ins[0].dead = True
    return []


@handler("tket.rotation.from_halfturns_unchecked")
def _rot_unchecked(m, op, ins, fr, k):
    return [float(ins[0])]


@handler("tket.rotation.from_halfturns")
def _rot_checked(m, op, ins, fr, k):
    a = ins[0]
    if not math.isfinite(a):
        return [Sum(0, ())]
    return [Sum(1, (float(a),))]


@handler("tket.rotation.to_halfturns")
def _rot_to(m, op, ins, fr, k):
    return [float(ins[0])]


@handler("tket.rotation.radd")
def _rot_add(m, op, ins, fr, k):
    return [ins[0] + ins[1]]


@handler("tket.debug.StateResult")
def _state_result(m, op, ins, fr, k):
    slots = _arr_consume(ins[0])
    ids = [m.q._use(q) for q in slots]
    vec = m.q.vector(ids)
    # reduced description: full vector with the listed qubits most significant
    m.events.append(("state", _strarg(op), tuple(ids), vec.copy()))
    return [Arr(slots)]


@handler("guppylang.partial")
def _partial(m, op, ins, fr, k):
    return [Partial(ins[0], ins[1:])]


@handler("tket.modifier.ControlModifier")
def _mod_ctrl(m, op, ins, fr, k):
    n = m.nat(op.ext_op.args[0], fr)
    return [Modified(ins[0], "control", n_ctrl=n)]


@handler("tket.modifier.DaggerModifier")
def _mod_dagger(m, op, ins, fr, k):
    return [Modified(ins[0], "dagger")]


@handler("tket.modifier.PowerModifier")
def _mod_power(m, op, ins, fr, k):
    return [Modified(ins[0], "power", power=s64(ins[1]))]


# ---------------------------------------------------------------------------- running
class RunResult:
    __slots__ = ("status", "values", "events", "panic", "choices", "weight", "detail", "final_state")

    def __init__(self):
        self.status = "ok"      # ok | panic | exit | budget | unsupported | invariant
        self.values = None
        self.events = []
        self.panic = None
        self.choices = []
        self.weight = 1.0
        self.detail = ""
        self.final_state = None

    def results(self):
        return [(e[1], e[2]) for e in self.events if e[0] == "result"]

    def trace(self, kinds=("result", "panic", "exit")):
        return [e for e in self.events if e[0] in kinds]

    def __repr__(self):
        return f"RunResult({self.status}, values={self.values!r}, events={self.events!r})"


def run(hugr, fn: str | int, args: list, prefix=(), explore_sched=False, targs=None,
        step_budget=2_000_000, max_qubits=10, externs=None) -> RunResult:
    ch = Chooser(prefix)
    m = Machine(hugr, ch, explore_sched=explore_sched, step_budget=step_budget, max_qubits=max_qubits)
    if externs:
        m.externs.update(externs)
    r = RunResult()
    try:
        r.values = m.call(fn, args, targs)
    except GuppyPanic as e:
        r.status, r.panic = "panic", (e.signal, e.msg)
        if not m.events or m.events[-1][0] != "panic":
            m.events.append(("panic", e.signal, e.msg))
    except GuppyExit as e:
        r.status, r.panic = "exit", (e.signal, e.msg)
    except VMBudget as e:
        r.status, r.detail = "budget", str(e)
    except VMUnsupported as e:
        r.status, r.detail = "unsupported", str(e)
    except VMInvariant as e:
        r.status, r.detail = "invariant", str(e)
    except RecursionError:
        r.status, r.detail = "budget", "python recursion"
    r.events = m.events
    r.choices = ch.trace
    r.weight = m.q.weight
    r.final_state = m.q
    return r


def explore(hugr, fn, args, explore_sched=False, max_runs=2000, targs=None, **kw):
    """DFS over all choice sequences.  Yields RunResult per complete execution.
    Returns (results, capped)."""
    out = []
    stack = [()]
    capped = False
    while stack:
        prefix = stack.pop()
        r = run(hugr, fn, args, prefix=prefix, explore_sched=explore_sched, targs=targs, **kw)
        out.append(r)
        if len(out) >= max_runs:
            capped = bool(stack)
            break
        tr = r.choices
        for i in range(len(tr) - 1, len(prefix) - 1, -1):
            n, c, _ = tr[i]
            base = [t[1] for t in tr[:i]]
            for alt in range(n - 1, c, -1):
                stack.append(tuple(base + [alt]))
    return out, capped


# ------------------------------------------------------------------- value conversion
def to_vm(v, kind: str | None = None):
    """Python value -> vm value for guppy types: int/nat -> u64, bool -> opaque bool,
    float -> float, tuple -> Sum(0), list -> Arr."""
    if isinstance(v, bool):
        return v
    if isinstance(v, int):
        return u64(v)
    if isinstance(v, float):
        return v
    if isinstance(v, tuple):
        return Sum(0, tuple(to_vm(x) for x in v))
    if isinstance(v, list):
        return Arr([to_vm(x) for x in v])
    return v


def from_vm(v, ty: str = "int"):
    """vm value -> Python value given a guppy-ish type tag: int | nat | float | bool."""
    if ty == "int":
        return s64(v)
    if ty == "nat":
        return u64(v)
    if ty == "bool":
        return bool(v.tag) if isinstance(v, Sum) else bool(v)
    return v
