"""Verification framework for CQCL/guppylang (model-checking family).

Importing this package installs the dependency-compat shim (see DESIGN.md §0 and
Appendix A) so that /repo's unmodified sources import against the installed
hugr / tket-exts wheels.
"""
import vcompat  # noqa: F401  (side effect: dependency API shim)
