"""Verification framework for CQCL/guppylang (model-checking family).

Importing this package installs the dependency-compat shim (see DESIGN.md §0 and
Appendix A) so that /repo's unmodified sources import against the installed
hugr / tket-exts wheels.  VERIF_NO_SHIM=1 skips it (used only by the CS-2 conformance
helper, which runs the *installed* guppylang 1.0.4 and must not be patched).
"""
import os as _os

if _os.environ.get("VERIF_NO_SHIM") != "1":
    import vcompat  # noqa: F401  (side effect: dependency API shim)
