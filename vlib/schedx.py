"""schedx (DESIGN.md §2.3, E3) — explorer of analysis worklist schedules.

`ForwardAnalysis.run` / `BackwardAnalysis.run` (cfg/analysis.py) pop their worklist
from `queue = set(bbs)`; `BB` hashes by identity, so the pop order is a function of
heap addresses.  Hook H1 (guarded by CQCL_GUPPYLANG_VERIF=1) replaces that set by
`_VERIF_SCHED(queue, analysis)`; this module provides the substituted object
(`_Queue`: `__len__`, `pop`, `update`) and an explorer that decides every `pop()`.

Model
-----
* An *execution* is one call of a user thunk (e.g. `lambda: cfg.analyze(...)` or the
  whole check+compile pipeline).  During it the hook may fire several times; the i-th
  firing is *invocation* i (one `run()` call of one analysis).
* At each `pop()` the elements are ordered canonically by `bb.idx`; a *choice* is an
  index into that order, so choice sequences are meaningful and replayable.  The
  default schedule always takes choice 0.
* The reference strategy (`strategy="replay"`, the default) is **stateless**: it never
  snapshots the analysis, it re-runs the thunk from scratch, replays a recorded choice
  prefix and then takes choice 0 until the invocation terminates or a known state is
  hit (then the execution is aborted with a BaseException that unwinds through `run()`
  and the thunk).  DFS over choice sequences.
* `strategy="inplace"` performs the same DFS inside ONE execution per invocation by
  putting `vals_before` / `vals_after` / the worklist back to a saved state (see the
  comment above `_ip_restore` for the one extra assumption and its runtime guard).  It
  exists because a pipeline execution costs ~20 ms instead of ~30 us; C09 cross-checks
  on a complete bound that both strategies report identical states, transitions,
  pruned/complete counts, path counts, final results and witnesses.
* **State deduplication.**  At each `pop()` (and at the terminating `len(queue) == 0`)
  the explorer reads `vals_before`, `vals_after` (forward analyses only) and the queue
  from the caller's frame (`sys._getframe(1).f_locals`, the caller being `run`).  The
  rest of the loop is a function of exactly these locals (`bb`, `preds`, `val_after`
  are temporaries that are overwritten before being read), so a state reached twice
  needs to be expanded once.  The canonical form used for pruning is the *fine* one:

      (sorted queue idxs,
       ((bb.idx, fine(value)) for bb in vals_before, in dict order),
       same for vals_after or None)

  with fine(dict)  = items in insertion order, BB values replaced by their idx
                     (liveness: variable keys AND their order AND the evidence BB),
       fine(set)   = sorted elements (the iteration order of a set of *strings* is a
                     function of the strings' hashes, i.e. of PYTHONHASHSEED — C10
                     part 2 — and of the `%tmpN` counter, not of the worklist order;
                     the code base only tests membership on the assignment sets),
       fine(tuple) = component-wise.
  That includes everything that can influence the future of the loop *and* everything
  of the returned `vals_before` a client might compare (key order and evidence BB are
  what C10 is about).  `coarsen()` maps a fine value to the *coarse* form (sorted
  variable sets only) that C09's oracle comparison uses.
* **Several invocations per execution.**  `run()` is pure apart from its return value,
  so the only way an invocation influences the rest of the execution is its (fine)
  final result.  The explorer therefore explores invocation t completely (with the
  invocations before it *scripted* by a witness schedule), collects the distinct fine
  final results with one witness each, and then — `branch="fine"`, the default —
  recurses for **each** distinct final result into invocation t+1: that is exactly the
  product of the schedule spaces quotiented by "same returned value", i.e. it is
  complete for the outcome of the whole execution.  `branch="first"` continues with the
  first witness only; that is sound only when the caller can argue that the inputs of
  later invocations do not depend on earlier results (C09 uses it for `CFG.analyze`,
  whose `AssignmentAnalysis` is built from `stats`, `def_ass_before`,
  `maybe_ass_before` and `self.bbs` — none of which `LivenessAnalysis.run` writes —
  and cross-checks the claim against `branch="fine"` on its smaller bounds).
* **Deviation bounding** (`max_deviations=k`): only schedules with at most k choices
  != 0 *in the whole execution* are explored (the budget left is part of the search
  state: a state is re-expanded when it is reached again with a larger budget, and the
  witness kept for a final result is one with the fewest deviations).
  `max_deviations=None` explores every schedule.
* `memo=True` reuses the exploration of an invocation whose inputs
  (`analysis_fingerprint`: class, parameters, blocks, edges, flags, stat keys, initial
  values) and budget were explored before in this `explore()` call — the same function
  is analysed again in every branch of the product.  *Chain continuation*: when an
  invocation turns out to have a single final result reached by the default order, the
  same execution goes on to the next invocation instead of being aborted and re-run.
  Both are economies only; the explored tree is the same.
* Replays are validated: a scripted invocation must offer the recorded choices, end
  exactly where the witness ends and produce the recorded fine result, otherwise
  `ReplayDivergence` is raised (nondeterminism that is not routed through the hook).

Reported per invocation: states, transitions (state, choice) executed, executions,
complete schedules executed, number of distinct complete schedules represented by the
state graph (path count; None if the graph is cyclic = a non-terminating order
exists), distinct final results (fine and coarse).

API
---
  explore(thunk, *, max_deviations=None, dedup=True, branch="fine", strategy="replay",
          memo=False, explore_filter=None, explore_invocations=None, outcome_of=None,
          describe=None) -> ExploreResult(invocations=[InvocationReport], outcomes={...})
  run_with_schedule(thunk, script)            one run under fixed choices (replays)
  pipeline_outcome(src, fn)                   load + compile_function, comparable value
  explore_program_schedules(src, fn, max_deviations) -> {"outcomes": {outcome: script},
                                                         "result": ExploreResult}
Requires CQCL_GUPPYLANG_VERIF=1 (bin/check sets it); never touches /repo.
"""
from __future__ import annotations

import hashlib
import re
import sys
from dataclasses import dataclass, field
from typing import Any, Callable

# --------------------------------------------------------------------------- aborts


class _Abort(BaseException):
    """Unwinds an execution from inside `run()`.  BaseException so that no
    `except Exception` in the code under test can swallow it."""


class _Pruned(_Abort):
    pass


class _InplaceFallback(_Abort):
    """The analysis raised during an in-place exploration: redo it by replay."""


class _MemoHit(_Abort):
    def __init__(self, summary):
        self.summary = summary


class _Done(_Abort):
    pass


class ReplayDivergence(BaseException):
    """Re-running the thunk with identical choices behaved differently.
    (BaseException: the pipeline's `except Exception` must not classify it.)"""


class ExplorerError(BaseException):
    """Misuse or broken assumption of the explorer (a harness bug, never a finding)."""


# ------------------------------------------------------------------ canonical forms


# `%tmpN` variable names come from a process-global counter (cfg/builder.py tmp_vars), so
# the same program gets different N in every execution.  A thunk may set _TMP_BASE to the
# counter value at its start (see pipeline_outcome); names are then compared relative to it.
_TMP_BASE: int | None = None
_TMP_RE = re.compile(r"%tmp(\d+)")


def _norm_tmp(text: str) -> str:
    base = _TMP_BASE
    if base is None:
        return text
    return _TMP_RE.sub(lambda m: f"%tmp+{int(m.group(1)) - base}", text)


def _key(k: Any) -> str:
    r = k if type(k) is str else repr(k)
    return _norm_tmp(r) if "%tmp" in r else r


def _bbidx(b: Any) -> Any:
    i = getattr(b, "idx", None)
    return i if i is not None else repr(b)


def _keys(it) -> tuple:
    ks = tuple(it)
    try:
        j = "".join(ks)        # all str?  (checked at C speed)
    except TypeError:
        return tuple([_key(k) for k in ks])
    if "%tmp" in j:
        return tuple([_norm_tmp(k) for k in ks])
    return ks


def fine(v: Any) -> tuple:
    """Fine canonical form of a lattice value (see module docstring):
    dict -> ('D', keys in insertion order, evidence idxs in the same order),
    set  -> ('S', sorted elements), tuple -> ('T', components)."""
    t = type(v)
    if t is dict:
        try:
            ev = tuple([b.idx for b in v.values()])
        except AttributeError:
            ev = tuple([_bbidx(b) for b in v.values()])
        return ("D", _keys(v), ev)
    if t is set or t is frozenset:
        return ("S", tuple(sorted(_keys(v))))
    if t is tuple:
        return ("T", tuple([fine(x) for x in v]))
    if hasattr(v, "keys") and hasattr(v, "values"):
        return ("D", _keys(v.keys()), tuple([_bbidx(b) for b in v.values()]))
    return ("O", repr(v))


def coarsen(f: tuple) -> tuple:
    """Coarse form of a fine value: variable *sets* only (order, evidence dropped)."""
    tag = f[0]
    if tag == "D" or tag == "S":
        return ("S", tuple(sorted(f[1])))
    if tag == "T":
        return ("T", tuple([coarsen(x) for x in f[1]]))
    return f


def fine_vals(vals: dict) -> tuple:
    try:
        return tuple([(bb.idx, fine(v)) for bb, v in vals.items()])
    except AttributeError:
        return tuple([(_bbidx(bb), fine(v)) for bb, v in vals.items()])


def coarse_vals(fv: tuple) -> tuple:
    return tuple(sorted([(i, coarsen(v)) for i, v in fv]))


def analysis_fingerprint(analysis, vals_before) -> tuple | None:
    """Everything `run()` of the two known analyses reads: class, parameters, the blocks
    in `vals_before` order with their edges (by idx), reachable flag and stat keys (in
    order), and the initial lattice values.  Two invocations with equal fingerprints
    have the same state graph, so an exploration can be reused (`memo=True`).  Unknown
    analysis classes give None (never reused)."""
    cls = type(analysis)
    if cls.__module__ != "guppylang_internals.cfg.analysis" or cls.__name__ not in (
            "LivenessAnalysis", "AssignmentAnalysis"):
        return None
    stats = analysis.stats
    parts: list = [cls.__name__, bool(analysis.include_unreachable())]
    for attr in ("_initial", "ass_before_entry", "maybe_ass_before_entry", "all_vars"):
        if hasattr(analysis, attr):
            parts.append((attr, fine(getattr(analysis, attr))))
    blocks = []
    for bb, v in vals_before.items():
        st = stats[bb]
        blocks.append((bb.idx, bool(bb.reachable),
                       tuple([s.idx for s in bb.successors]),
                       tuple([s.idx for s in bb.predecessors]),
                       tuple([s.idx for s in bb.dummy_successors]),
                       tuple([s.idx for s in bb.dummy_predecessors]),
                       _keys(st.used), _keys(st.assigned), fine(v)))
    parts.append(tuple(blocks))
    # stats of blocks outside `vals_before` are never read
    return tuple(parts)


# ------------------------------------------------------------------- the worklist

_SCRIPT, _EXPLORE, _DEFAULT, _INPLACE = 0, 1, 2, 3


class _Queue:
    """Substituted worklist.  Set semantics; `pop()` is decided by the explorer."""

    __slots__ = ("items", "ctl", "analysis", "role", "pos", "choices", "inv")

    def __init__(self, items, ctl, analysis, role, inv):
        self.items = set(items)
        self.ctl = ctl
        self.analysis = analysis
        self.role = role
        self.pos = 0
        self.choices: list[int] = []
        self.inv = inv

    def __len__(self) -> int:
        if not self.items:
            # may raise (end of an explored schedule) or, in-place, refill the worklist
            self.ctl._terminal(self, sys._getframe(1))
        return len(self.items)

    def pop(self):
        return self.ctl._pop(self, sys._getframe(1))

    def update(self, it) -> None:
        self.items.update(it)

    def add(self, x) -> None:  # not used by the code under test today
        self.items.add(x)


# ----------------------------------------------------------------------- reports


@dataclass
class Final:
    fine: Any            # fine_vals(vals_before) or ("EXC", type, msg)
    witness: tuple       # complete choice sequence of this invocation
    devs: int            # deviations (choices != 0) in the witness
    count: int = 1       # executions that ended in this final result

    @property
    def coarse(self):
        return coarse_vals(self.fine) if self.fine and self.fine[0] != "EXC" else self.fine


@dataclass
class InvocationReport:
    index: int                       # invocation number within the execution
    script: tuple                    # witnesses of the invocations before it
    analysis: str = ""               # class name
    info: Any = None                 # describe(analysis) of the caller
    n_queue0: int = 0
    states: int = 0
    transitions: int = 0
    executions: int = 0
    complete: int = 0                # executions that reached the terminal state
    pruned: int = 0
    finals: list = field(default_factory=list)     # [Final], canonical order
    schedules_represented: int | None = None       # path count of the state graph
    cyclic: bool = False
    budget: int | None = None
    fingerprint: Any = None
    memo_of: Any = None                            # report this one was copied from
    continued: bool = False                        # explored in the execution of its parent

    @property
    def distinct_fine(self) -> int:
        return len(self.finals)

    @property
    def distinct_coarse(self) -> int:
        return len({f.coarse for f in self.finals})


@dataclass
class ExploreResult:
    invocations: list            # [InvocationReport] one per explored tree node
    outcomes: dict               # outcome -> script (tuple of witnesses) of a leaf
    leaves: int = 0
    thunk_runs: int = 0
    memo_hits: int = 0
    executions: int = 0
    states: int = 0
    transitions: int = 0
    complete_schedules: int = 0

    @property
    def distinct_outcomes(self) -> int:
        return len(self.outcomes)


# ---------------------------------------------------------------------- explorer


class _Exec:
    """Mutable state of one execution."""
    __slots__ = ("script", "target", "prefix", "n_inv", "active", "tq", "src",
                 "dev0", "report", "chain", "budget")


class Explorer:
    def __init__(self, thunk: Callable[[], Any], *, max_deviations: int | None = None,
                 dedup: bool = True, branch: str = "fine",
                 outcome_of: Callable[[Any], Any] | None = None,
                 describe: Callable[[Any], Any] | None = None,
                 explore_filter: Callable[[Any], bool] | None = None,
                 max_states: int = 500_000, max_pops: int = 20_000,
                 max_invocations: int = 10_000, explore_invocations: int | None = None,
                 memo: bool = False, strategy: str = "replay"):
        if branch not in ("fine", "first"):
            raise ExplorerError("branch must be 'fine' or 'first'")
        if strategy not in ("replay", "inplace"):
            raise ExplorerError("strategy must be 'replay' or 'inplace'")
        self.strategy = strategy
        self._node_strategy = strategy
        self.thunk = thunk
        self.k = max_deviations
        self.dedup = dedup
        self.branch = branch
        self.outcome_of = outcome_of or (lambda v: v)
        self.describe = describe
        self.explore_filter = explore_filter
        self.max_states = max_states
        self.max_pops = max_pops
        self.max_invocations = max_invocations
        # explore only the first N (filtered) invocations and do not run the rest of the
        # execution at all (for clients that only look at the invocation reports)
        self.explore_invocations = explore_invocations
        # reuse the exploration of an invocation whose inputs (analysis_fingerprint) and
        # deviation budget were explored before
        self.memo: dict | None = {} if memo else None
        self.memo_hits = 0
        self.thunk_runs = 0
        self._x: _Exec | None = None
        # per-invocation exploration state (valid while exploring one tree node)
        self._visited: dict = {}
        self._sids: dict = {}
        self._edges: dict = {}
        self._pending: list = []
        self._finals: dict = {}
        self._terminal_sids: set = set()
        # in-place exploration (strategy="inplace")
        self._ip_stack: list = []
        self._ip_devs = 0
        self._ip_forced: int | None = None

    # ---- hook --------------------------------------------------------------
    def _hook(self, queue, analysis):
        x = self._x
        if x is None:
            raise ExplorerError("hook fired outside an execution")
        if self.explore_filter is not None and not self.explore_filter(analysis):
            return _Queue(queue, self, analysis, _DEFAULT, -1)
        if x.active:
            raise ExplorerError("nested run() invocation while one is being explored")
        i = x.n_inv
        x.n_inv += 1
        if i > self.max_invocations:
            raise ExplorerError("too many invocations in one execution")
        if i < x.target:
            return _Queue(queue, self, analysis, _SCRIPT, i)
        if i == x.target:
            q = _Queue(queue, self, analysis,
                       _INPLACE if self._node_strategy == "inplace" else _EXPLORE, i)
            x.active = True
            x.tq = q
            r = x.report
            if r.executions == 1 or r.continued:
                r.continued = False
                r.analysis = type(analysis).__name__
                r.n_queue0 = len(q.items)
                if self.describe is not None:
                    r.info = self.describe(analysis)
                if self.memo is not None:
                    fp = analysis_fingerprint(analysis, sys._getframe(1).f_locals["vals_before"])
                    r.fingerprint = None if fp is None else (fp, self.k)
                    hit = self.memo.get(r.fingerprint) if fp is not None else None
                    if hit is not None:
                        self.memo_hits += 1
                        self._copy_memo(r, hit)
                        if self._may_continue(r):
                            # deterministic invocation explored before: script it and
                            # go on to the next invocation in this same execution
                            self._continue_chain(x, r)
                            x.active = False
                            q.role = _SCRIPT
                            return q
                        raise _MemoHit(hit)
            return q
        raise ExplorerError("execution continued past the target invocation")

    # ---- chain continuation ---------------------------------------------------
    # When the invocation just explored (or found in the memo) has exactly ONE fine
    # final result reachable without deviation, aborting and re-running the thunk with
    # that result scripted would reproduce what is already at hand, so the same
    # execution simply goes on and explores the next invocation.  Purely an economy:
    # the explored tree is the same.
    @staticmethod
    def _copy_memo(r: InvocationReport, hit: InvocationReport) -> None:
        r.analysis, r.n_queue0, r.info = hit.analysis, hit.n_queue0, hit.info
        r.finals, r.memo_of = hit.finals, hit
        r.cyclic, r.schedules_represented = hit.cyclic, hit.schedules_represented

    def _may_continue(self, r: InvocationReport) -> bool:
        if len(r.finals) != 1 or r.finals[0].fine[0] == "EXC" or r.finals[0].devs != 0:
            return False
        return self.explore_invocations is None or r.index + 1 < self.explore_invocations

    def _continue_chain(self, x: _Exec, r: InvocationReport) -> None:
        f = r.finals[0]
        x.chain.append(r)
        x.script = x.script + ((f.witness, f.fine),)
        x.target += 1
        nr = InvocationReport(index=x.target, script=tuple(w for w, _ in x.script),
                              budget=x.budget)
        nr.executions = 0          # shares the current execution
        nr.continued = True
        x.report = nr
        x.src = None
        self._reset_node()

    def _reset_node(self) -> None:
        self._visited, self._sids, self._edges = {}, {}, {}
        self._pending, self._finals, self._terminal_sids = [], {}, set()
        self._ip_stack, self._ip_devs, self._ip_forced = [], 0, None

    def _finish_report(self, r: InvocationReport) -> None:
        r.states = len(self._sids)
        r.finals = sorted(self._finals.values(), key=lambda f: repr(f.fine))
        if self.dedup and r.budget is None:
            r.cyclic, r.schedules_represented = self._count_paths()
        if self.memo is not None and r.fingerprint is not None:
            self.memo[r.fingerprint] = r

    # ---- pop / terminal ----------------------------------------------------
    @staticmethod
    def _state(q: _Queue, frame) -> tuple:
        loc = frame.f_locals
        try:
            vb = loc["vals_before"]
        except KeyError:
            raise ExplorerError(
                f"caller frame {frame.f_code.co_name} has no local 'vals_before'") from None
        va = loc.get("vals_after")
        return (tuple(sorted(_bbidx(b) for b in q.items)), fine_vals(vb),
                None if va is None else fine_vals(va))

    def _pop(self, q: _Queue, frame):
        if q.role == _INPLACE:
            return self._inplace_pop(q, frame)
        elems = sorted(q.items, key=_bbidx) if len(q.items) > 1 else list(q.items)
        if not elems:
            raise KeyError("pop from an empty worklist")
        role = q.role
        if role == _DEFAULT:
            c = 0
        elif role == _SCRIPT:
            w = self._x.script[q.inv][0]
            if q.pos >= len(w) or w[q.pos] >= len(elems):
                raise ReplayDivergence(
                    f"invocation {q.inv}: witness {w} not replayable at pop {q.pos} "
                    f"(queue size {len(elems)})")
            c = w[q.pos]
        else:
            c = self._explore_pop(q, frame, len(elems))
        q.pos += 1
        q.choices.append(c)
        b = elems[c]
        q.items.remove(b)
        return b

    def _explore_pop(self, q: _Queue, frame, n: int) -> int:
        x = self._x
        p = q.pos
        if p < len(x.prefix):
            c = x.prefix[p]
            if c >= n:
                raise ReplayDivergence(f"prefix {x.prefix} not replayable at pop {p}")
            return c
        if p > self.max_pops:
            raise ExplorerError(f"more than {self.max_pops} pops in one schedule")
        r = x.report
        dev = x.dev0             # after the prefix only choice 0 is taken
        left = None if self.k is None else self.k - dev
        if self.dedup:
            s = self._state(q, frame)
            sid = self._sids.get(s)
            if sid is None:
                sid = self._sids[s] = len(self._sids)
                if len(self._sids) > self.max_states:
                    raise ExplorerError(f"more than {self.max_states} states")
            if x.src is not None:
                self._edges.setdefault(x.src[0], {})[x.src[1]] = sid
            seen = self._visited.get(sid, "no")
            if seen != "no" and (left is None or seen >= left):
                r.pruned += 1
                raise _Pruned()
            self._visited[sid] = left
        else:
            sid = None
        # expand: alternatives 1..n-1 are scheduled, choice 0 is taken now
        if left is None or left > 0:
            base = tuple(q.choices)
            for c in range(n - 1, 0, -1):
                self._pending.append((base + (c,), dev + 1, (sid, c) if sid is not None else None))
        r.transitions += 1
        x.src = (sid, 0) if sid is not None else None
        return 0

    def _terminal(self, q: _Queue, frame) -> None:
        role = q.role
        if role == _DEFAULT:
            return
        if role == _INPLACE:
            return self._inplace_terminal(q, frame)
        x = self._x
        if role == _SCRIPT:
            w, fexp = x.script[q.inv]
            if q.pos != len(w):
                raise ReplayDivergence(
                    f"invocation {q.inv}: terminated after {q.pos} pops, witness has {len(w)}")
            got = fine_vals(frame.f_locals["vals_before"])
            if got != fexp:
                raise ReplayDivergence(
                    f"invocation {q.inv}: same schedule, different result")
            return
        if q.pos < len(x.prefix):
            raise ReplayDivergence(f"prefix {x.prefix} longer than the run ({q.pos} pops)")
        fv = fine_vals(frame.f_locals["vals_before"])
        if self.dedup:
            s = self._state(q, frame)
            sid = self._sids.get(s)
            if sid is None:
                sid = self._sids[s] = len(self._sids)
            self._terminal_sids.add(sid)
            if x.src is not None:
                self._edges.setdefault(x.src[0], {})[x.src[1]] = sid
        self._record_final(fv, tuple(q.choices))
        x.report.complete += 1
        x.active = False
        raise _Done()

    # ---- in-place strategy ----------------------------------------------------
    # One execution explores the whole invocation: instead of aborting at a known or
    # terminal state and re-running the thunk with a longer prefix, the explorer puts
    # the loop's state back to a saved one.  That state is exactly what the
    # deduplication already relies on: `vals_before`, `vals_after` (dicts held by the
    # frame of `run`, restored by assigning the saved value objects back to their keys)
    # and the worklist (our object).  Saved values are kept by reference, so this needs
    # one more assumption than replay: stored lattice values are never mutated in place
    # (true of cfg/analysis.py: join/apply_bb build new objects).  Every restore
    # re-derives the canonical state and compares it with the one recorded when the
    # snapshot was taken; a difference raises ExplorerError.  Same DFS order as replay,
    # hence identical states / transitions / finals / witnesses (C09 cross-checks that).
    def _ip_restore(self, q: _Queue, frame, snap, c: int) -> None:
        items, vb_items, va_items, s, path, devs, sid = snap
        loc = frame.f_locals
        vb = loc["vals_before"]
        for bb, v in vb_items:
            vb[bb] = v
        if va_items is not None:
            va = loc["vals_after"]
            for bb, v in va_items:
                va[bb] = v
        q.items = set(items)
        if s is not None and self._state(q, frame) != s:
            # a stored lattice value was mutated in place by the analysis: the in-place strategy cannot be
            # trusted for this invocation; explore it again by stateless replay (which re-runs the analysis
            # from scratch for every schedule) and let the oracle judge the results
            self.inplace_fallbacks = getattr(self, "inplace_fallbacks", 0) + 1
            raise _InplaceFallback()
        q.choices = list(path)
        self._ip_devs = devs + 1
        self._x.src = (sid, c) if sid is not None else None

    def _inplace_pop(self, q: _Queue, frame):
        x = self._x
        r = x.report
        if self._ip_forced is not None:          # state was restored by _inplace_terminal
            c = self._ip_forced
            self._ip_forced = None
        else:
            if len(q.choices) > self.max_pops:
                raise ExplorerError(f"more than {self.max_pops} pops in one schedule")
            left = None if self.k is None else self.k - self._ip_devs
            expand = True
            s = sid = None
            if self.dedup:
                s = self._state(q, frame)
                sid = self._sids.get(s)
                if sid is None:
                    sid = self._sids[s] = len(self._sids)
                    if len(self._sids) > self.max_states:
                        raise ExplorerError(f"more than {self.max_states} states")
                if x.src is not None:
                    self._edges.setdefault(x.src[0], {})[x.src[1]] = sid
                seen = self._visited.get(sid, "no")
                if seen != "no" and (left is None or seen >= left):
                    r.pruned += 1
                    expand = False
                else:
                    self._visited[sid] = left
            if expand:
                n = len(q.items)
                if n > 1 and (left is None or left > 0):
                    loc = frame.f_locals
                    va = loc.get("vals_after")
                    snap = (frozenset(q.items), list(loc["vals_before"].items()),
                            None if va is None else list(va.items()), s, tuple(q.choices),
                            self._ip_devs, sid)
                    for alt in range(n - 1, 0, -1):
                        self._ip_stack.append((snap, alt))
                c = 0
                x.src = (sid, 0) if sid is not None else None
            else:
                if not self._ip_stack:
                    x.active = False
                    raise _Done()
                snap, c = self._ip_stack.pop()
                self._ip_restore(q, frame, snap, c)
        r.transitions += 1
        elems = sorted(q.items, key=_bbidx) if len(q.items) > 1 else list(q.items)
        if c >= len(elems):
            raise ExplorerError("in-place choice out of range")
        b = elems[c]
        q.items.remove(b)
        q.choices.append(c)
        q.pos = len(q.choices)
        return b

    def _inplace_terminal(self, q: _Queue, frame) -> None:
        x = self._x
        fv = fine_vals(frame.f_locals["vals_before"])
        if self.dedup:
            s = self._state(q, frame)
            sid = self._sids.get(s)
            if sid is None:
                sid = self._sids[s] = len(self._sids)
            self._terminal_sids.add(sid)
            if x.src is not None:
                self._edges.setdefault(x.src[0], {})[x.src[1]] = sid
        self._record_final(fv, tuple(q.choices))
        x.report.complete += 1
        if not self._ip_stack:
            x.active = False
            r = x.report
            self._finish_report(r)
            if self._may_continue(r) and r.finals[0].fine == fv:
                self._continue_chain(x, r)     # worklist is empty: run() returns now
                return
            raise _Done()
        snap, c = self._ip_stack.pop()
        self._ip_restore(q, frame, snap, c)
        self._ip_forced = c                      # the next pop() takes it

    def _record_final(self, fv, witness: tuple) -> None:
        devs = sum(1 for c in witness if c)
        cur = self._finals.get(fv)
        if cur is None:
            self._finals[fv] = Final(fv, witness, devs)
        else:
            cur.count += 1
            if (devs, len(witness), witness) < (cur.devs, len(cur.witness), cur.witness):
                cur.witness, cur.devs = witness, devs

    # ---- one execution -----------------------------------------------------
    def _execute(self, script: tuple, target: int, prefix: tuple, dev0: int, src,
                 report: InvocationReport):
        """Returns ('aborted', None) | ('completed', value) | ('raised', exc)."""
        import guppylang_internals.cfg.analysis as A
        if not A._VERIF_ON:
            raise ExplorerError("CQCL_GUPPYLANG_VERIF=1 not set: the H1 hook is inert")
        x = _Exec()
        x.script, x.target, x.prefix = script, target, prefix
        x.n_inv, x.active, x.tq, x.src, x.dev0, x.report = 0, False, None, src, dev0, report
        x.chain, x.budget = [], self.k
        prev_x, prev_hook = self._x, A._VERIF_SCHED
        self._x = x
        A._VERIF_SCHED = self._hook
        report.executions += 1
        self.thunk_runs += 1
        try:
            try:
                v = self.thunk()
            except _Done:
                return "aborted", None
            except _Pruned:
                return "aborted", None
            except _MemoHit as h:
                return "memo", h.summary
            except (ReplayDivergence, ExplorerError):
                raise
            except Exception as e:  # noqa: BLE001 - classified below
                if x.active:
                    # the analysis itself raised under this schedule: a terminal
                    # result of the target invocation
                    if self._node_strategy == "inplace":
                        raise _InplaceFallback() from None
                    q = x.tq
                    self._record_final(("EXC", type(e).__name__, str(e)[:160]),
                                       tuple(q.choices))
                    report.complete += 1
                    return "aborted", None
                return "raised", e
            if x.active:
                raise ExplorerError("thunk returned while the target invocation was running")
            if x.n_inv > x.target:
                raise ExplorerError("execution continued past the target invocation")
            return "completed", v
        finally:
            self._last_x = x
            self._x = prev_x
            A._VERIF_SCHED = prev_hook

    # ---- one tree node: explore invocation `target` completely ------------------
    def _explore_invocation(self, script: tuple, budget: int | None):
        """Explores invocation number len(script) (and, by chain continuation, possibly
        the deterministic invocations after it).  Returns
        (chain, script', ('leaf', status, value))  if the execution ran to its end, or
        (chain, script', ('inv', report))          with the report of the last explored
        invocation, where chain = reports of the invocations continued past and script'
        = the script extended by their witnesses."""
        target = len(script)
        rep = InvocationReport(index=target, script=tuple(w for w, _ in script), budget=budget)
        self._reset_node()
        saved_k = self.k
        self.k = budget
        try:
            try:
                status, v = self._execute(script, target, (), 0, None, rep)
            except _InplaceFallback:
                self._node_strategy = "replay"
                try:
                    return self._explore_invocation(script, budget)
                finally:
                    self._node_strategy = self.strategy
            x = self._last_x
            chain, script2, rep = x.chain, x.script, x.report
            if status == "memo":
                return chain, script2, ("inv", rep)
            if status != "aborted":
                return chain, script2, ("leaf", status, v)
            if self._node_strategy == "inplace":
                if not rep.finals:             # aborted inside pop(): not finished yet
                    self._finish_report(rep)
                return chain, script2, ("inv", rep)
            while self._pending:
                prefix, dev, src = self._pending.pop()
                rep.transitions += 1     # the last choice of the prefix is a new transition
                status, v = self._execute(script2, rep.index, prefix, dev, src, rep)
                if status != "aborted" or self._last_x.chain:
                    raise ReplayDivergence(
                        f"invocation {rep.index} vanished on re-execution ({status})")
        finally:
            self.k = saved_k
        self._finish_report(rep)
        return chain, script2, ("inv", rep)

    def _count_paths(self):
        """(cyclic?, number of complete schedules in the state graph from state 0)."""
        edges = self._edges
        if not self._sids:
            return False, 0
        memo: dict = {}
        onstack: set = set()
        cyclic = False
        # iterative DFS (graphs can be deep)
        stack = [(0, iter(sorted(edges.get(0, {}).items())))]
        onstack.add(0)
        acc = {0: 0}
        while stack:
            node, it = stack[-1]
            adv = False
            for _, tgt in it:
                if tgt in memo:
                    acc[node] += memo[tgt]
                elif tgt in onstack:
                    cyclic = True
                else:
                    onstack.add(tgt)
                    acc[tgt] = 0
                    stack.append((tgt, iter(sorted(edges.get(tgt, {}).items()))))
                    adv = True
                    break
            if not adv:
                stack.pop()
                onstack.discard(node)
                total = acc[node] + (1 if node in self._terminal_sids else 0)
                memo[node] = total
                if stack:
                    acc[stack[-1][0]] += total
        return cyclic, (None if cyclic else memo.get(0, 0))

    # ---- the whole tree ---------------------------------------------------------
    def explore(self) -> ExploreResult:
        res = ExploreResult(invocations=[], outcomes={})
        work = [((), self.k)]

        def account(rep):
            res.invocations.append(rep)
            res.executions += rep.executions
            res.states += rep.states
            res.transitions += rep.transitions
            res.complete_schedules += rep.complete

        while work:
            script, budget = work.pop()
            chain, script, node = self._explore_invocation(script, budget)
            for r in chain:
                account(r)
            if node[0] == "leaf":
                _, status, v = node
                res.leaves += 1
                if not chain:
                    res.executions += 1
                out = (self.outcome_of(v) if status == "completed"
                       else ("RAISED", type(v).__name__, str(v)[:200]))
                res.outcomes.setdefault(out, tuple(w for w, _ in script))
                continue
            rep = node[1]
            account(rep)
            if self.explore_invocations is not None and rep.index + 1 >= self.explore_invocations:
                continue
            nxt = [f for f in rep.finals if f.fine[0] != "EXC"]
            if self.branch == "first" and nxt:
                nxt = [min(nxt, key=lambda f: (f.devs, len(f.witness), f.witness))]
            for f in rep.finals:
                if f.fine[0] == "EXC":
                    res.outcomes.setdefault(f.fine, tuple(w for w, _ in script) + (f.witness,))
            for f in reversed(nxt):
                work.append((script + ((f.witness, f.fine),),
                             None if budget is None else budget - f.devs))
        res.thunk_runs, res.memo_hits = self.thunk_runs, self.memo_hits
        return res


def explore(thunk, **kw) -> ExploreResult:
    """Explore every worklist schedule of every analysis invocation made by `thunk()`."""
    return Explorer(thunk, **kw).explore()


def run_with_schedule(thunk, script):
    """Run `thunk()` once with the given script = sequence of per-invocation choice
    sequences (missing / exhausted entries continue with choice 0).  For replays."""
    import guppylang_internals.cfg.analysis as A

    class _Fixed:
        def __init__(self):
            self.n = 0

        def hook(self, queue, analysis):
            i = self.n
            self.n += 1
            return _FixedQueue(queue, tuple(script[i]) if i < len(script) else ())

    class _FixedQueue:
        def __init__(self, items, w):
            self.items, self.w, self.pos = set(items), w, 0

        def __len__(self):
            return len(self.items)

        def pop(self):
            elems = sorted(self.items, key=_bbidx)
            c = self.w[self.pos] if self.pos < len(self.w) else 0
            self.pos += 1
            if c >= len(elems):
                raise ReplayDivergence(f"choice {c} not available (queue size {len(elems)})")
            self.items.remove(elems[c])
            return elems[c]

        def update(self, it):
            self.items.update(it)

    if not A._VERIF_ON:
        raise ExplorerError("CQCL_GUPPYLANG_VERIF=1 not set: the H1 hook is inert")
    prev = A._VERIF_SCHED
    A._VERIF_SCHED = _Fixed().hook
    try:
        return thunk()
    finally:
        A._VERIF_SCHED = prev


# ------------------------------------------------- whole-pipeline exploration (C10)

_PROG_NAME = "vsched_prog"


def pipeline_outcome(src: str, fn: str = "main", check_first: bool = False) -> tuple:
    """Load `src` under a FIXED synthetic module/file name (so that diagnostics and
    HUGR metadata cannot differ merely by gload's module counter), run the real
    pipeline and reduce the result to a comparable value:
    ('ok', sha256(package.to_bytes())) | ('error', stage, rendered text) |
    ('crash', stage, text).

    The pipeline is `defn.compile_function()`, i.e. `ENGINE.compile`, which itself runs
    the complete `ENGINE.check` (reset + parse + check) before lowering.  With
    check_first=True `defn.check()` is called before it as vlib.gload.outcome does; that
    only repeats every analysis invocation (and squares the explored product)."""
    global _TMP_BASE
    from vlib import gload
    from guppylang_internals.cfg.builder import tmp_vars
    from guppylang_internals.error import GuppyError
    full = gload.PRELUDE + src
    mod = None
    saved_base = _TMP_BASE
    _TMP_BASE = int(next(tmp_vars)[4:]) + 1      # consume one name: the counter's position
    try:
        stage = "define"
        try:
            mod = gload.load(full, name=_PROG_NAME)
            defn = mod.__dict__[fn]
            if check_first:
                stage = "check"
                defn.check()
            stage = "compile"
            pkg = defn.compile_function()
            return ("ok", hashlib.sha256(pkg.to_bytes()).hexdigest())
        except GuppyError as e:
            try:
                return ("error", stage, gload.render_error(e))
            except Exception as e2:  # noqa: BLE001
                return ("crash", "render", f"{type(e2).__name__}: {e2}")
        except RecursionError as e:
            return ("crash", stage, f"RecursionError: {e}")
        except Exception as e:  # noqa: BLE001
            return ("crash", stage, f"{type(e).__name__}: {e}")
    finally:
        _TMP_BASE = saved_base
        if mod is not None:
            gload.unload(mod)


def explore_program_schedules(src: str, fn: str = "main", max_deviations: int | None = 2,
                              **kw) -> dict:
    """Run the real pipeline on `src` under every worklist schedule with at most
    `max_deviations` departures from the default order (None = every schedule) and
    return {'outcomes': {outcome: witness script}, 'result': ExploreResult}.
    Several distinct outcomes = the compiler's output depends on the worklist order."""
    kw.setdefault("memo", True)
    kw.setdefault("strategy", "inplace")     # ~10-100x fewer pipeline runs than "replay"
    res = explore(lambda: pipeline_outcome(src, fn), max_deviations=max_deviations, **kw)
    return {"outcomes": res.outcomes, "result": res}
