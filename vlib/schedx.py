"""schedx (DESIGN.md §2.3, E3) — stateless explorer of analysis worklist schedules.

`ForwardAnalysis.run` / `BackwardAnalysis.run` (cfg/analysis.py) pop their worklist
from `queue = set(bbs)`; `BB` hashes by identity, so the pop order is a function of
heap addresses.  Hook H1 (guarded by CQCL_GUPPYLANG_VERIF=1) replaces that set by
`_VERIF_SCHED(queue, analysis)`; this module provides the substituted object
(`_Queue`: `__len__`, `pop`, `update`) and an explorer that decides every `pop()`.

Model
-----
* An *execution* is one call of a user thunk (e.g. `lambda: cfg.analyze(...)` or the
  whole check+compile pipeline).  During it the hook may fire several times; the i-th
  firing is *invocation* i (one `run()` call of one analysis).
* At each `pop()` the elements are ordered canonically by `bb.idx`; a *choice* is an
  index into that order, so choice sequences are meaningful and replayable.  The
  default schedule always takes choice 0.
* The explorer is **stateless**: it never snapshots the analysis, it re-runs the thunk
  from scratch, replays a recorded choice prefix and then takes choice 0 until the
  invocation terminates or a known state is hit (then the execution is aborted with a
  BaseException that unwinds through `run()` and the thunk).
* **State deduplication.**  At each `pop()` (and at the terminating `len(queue) == 0`)
  the explorer reads `vals_before`, `vals_after` (forward analyses only) and the queue
  from the caller's frame (`sys._getframe(1).f_locals`, the caller being `run`).  The
  rest of the loop is a function of exactly these locals (`bb`, `preds`, `val_after`
  are temporaries that are overwritten before being read), so a state reached twice
  needs to be expanded once.  The canonical form used for pruning is the *fine* one:

      (sorted queue idxs,
       ((bb.idx, fine(value)) for bb in vals_before, in dict order),
       same for vals_after or None)

  with fine(dict)  = items in insertion order, BB values replaced by their idx
                     (liveness: variable keys AND their order AND the evidence BB),
       fine(set)   = elements in the set's actual iteration order,
       fine(tuple) = component-wise.
  That includes everything that can influence the future of the loop *and* everything
  of the returned `vals_before` a client might compare (key order and evidence BB are
  what C10 is about).  `coarsen()` maps a fine value to the *coarse* form (sorted
  variable sets only) that C09's oracle comparison uses.
* **Several invocations per execution.**  `run()` is pure apart from its return value,
  so the only way an invocation influences the rest of the execution is its (fine)
  final result.  The explorer therefore explores invocation t completely (with the
  invocations before it *scripted* by a witness schedule), collects the distinct fine
  final results with one witness each, and then — `branch="fine"`, the default —
  recurses for **each** distinct final result into invocation t+1: that is exactly the
  product of the schedule spaces quotiented by "same returned value", i.e. it is
  complete for the outcome of the whole execution.  `branch="first"` continues with the
  first witness only; that is sound only when the caller can argue that the inputs of
  later invocations do not depend on earlier results (C09 uses it for `CFG.analyze`,
  whose `AssignmentAnalysis` is built from `stats`, `def_ass_before`,
  `maybe_ass_before` and `self.bbs` — none of which `LivenessAnalysis.run` writes —
  and cross-checks the claim against `branch="fine"` on its smaller bounds).
* **Deviation bounding** (`max_deviations=k`): only schedules with at most k choices
  != 0 *in the whole execution* are explored (the budget left is part of the search
  state: a state is re-expanded when it is reached again with a larger budget, and the
  witness kept for a final result is one with the fewest deviations).
  `max_deviations=None` explores every schedule.
* Replays are validated: a scripted invocation must offer the recorded choices, end
  exactly where the witness ends and produce the recorded fine result, otherwise
  `ReplayDivergence` is raised (nondeterminism that is not routed through the hook).

Reported per invocation: states, transitions (state, choice) executed, executions,
complete schedules executed, number of distinct complete schedules represented by the
state graph (path count; None if the graph is cyclic = a non-terminating order
exists), distinct final results (fine and coarse).
"""
from __future__ import annotations

import hashlib
import sys
from dataclasses import dataclass, field
from typing import Any, Callable

# --------------------------------------------------------------------------- aborts


class _Abort(BaseException):
    """Unwinds an execution from inside `run()`.  BaseException so that no
    `except Exception` in the code under test can swallow it."""


class _Pruned(_Abort):
    pass


class _Done(_Abort):
    pass


class ReplayDivergence(Exception):
    """Re-running the thunk with identical choices behaved differently."""


class ExplorerError(Exception):
    """Misuse or broken assumption of the explorer (a harness bug, never a finding)."""


# ------------------------------------------------------------------ canonical forms


def _key(k: Any) -> str:
    return k if type(k) is str else repr(k)


def _bbidx(b: Any) -> Any:
    i = getattr(b, "idx", None)
    return i if i is not None else repr(b)


def _keys(it) -> tuple:
    ks = tuple(it)
    try:
        "".join(ks)            # all str?  (checked at C speed)
        return ks
    except TypeError:
        return tuple(_key(k) for k in ks)


def fine(v: Any) -> tuple:
    """Fine canonical form of a lattice value (see module docstring):
    dict -> ('D', keys in insertion order, evidence idxs in the same order),
    set  -> ('S', elements in iteration order), tuple -> ('T', components)."""
    t = type(v)
    if t is dict:
        try:
            ev = tuple([b.idx for b in v.values()])
        except AttributeError:
            ev = tuple([_bbidx(b) for b in v.values()])
        return ("D", _keys(v), ev)
    if t is set or t is frozenset:
        return ("S", _keys(v))
    if t is tuple:
        return ("T", tuple([fine(x) for x in v]))
    if hasattr(v, "keys") and hasattr(v, "values"):
        return ("D", _keys(v.keys()), tuple([_bbidx(b) for b in v.values()]))
    return ("O", repr(v))


def coarsen(f: tuple) -> tuple:
    """Coarse form of a fine value: variable *sets* only (order, evidence dropped)."""
    tag = f[0]
    if tag == "D" or tag == "S":
        return ("S", tuple(sorted(f[1])))
    if tag == "T":
        return ("T", tuple([coarsen(x) for x in f[1]]))
    return f


def fine_vals(vals: dict) -> tuple:
    try:
        return tuple([(bb.idx, fine(v)) for bb, v in vals.items()])
    except AttributeError:
        return tuple([(_bbidx(bb), fine(v)) for bb, v in vals.items()])


def coarse_vals(fv: tuple) -> tuple:
    return tuple(sorted([(i, coarsen(v)) for i, v in fv]))


# ------------------------------------------------------------------- the worklist

_SCRIPT, _EXPLORE, _DEFAULT = 0, 1, 2


class _Queue:
    """Substituted worklist.  Set semantics; `pop()` is decided by the explorer."""

    __slots__ = ("items", "ctl", "analysis", "role", "pos", "choices", "inv")

    def __init__(self, items, ctl, analysis, role, inv):
        self.items = set(items)
        self.ctl = ctl
        self.analysis = analysis
        self.role = role
        self.pos = 0
        self.choices: list[int] = []
        self.inv = inv

    def __len__(self) -> int:
        n = len(self.items)
        if n == 0:
            self.ctl._terminal(self, sys._getframe(1))
        return n

    def pop(self):
        return self.ctl._pop(self, sys._getframe(1))

    def update(self, it) -> None:
        self.items.update(it)

    def add(self, x) -> None:  # not used by the code under test today
        self.items.add(x)


# ----------------------------------------------------------------------- reports


@dataclass
class Final:
    fine: Any            # fine_vals(vals_before) or ("EXC", type, msg)
    witness: tuple       # complete choice sequence of this invocation
    devs: int            # deviations (choices != 0) in the witness
    count: int = 1       # executions that ended in this final result

    @property
    def coarse(self):
        return coarse_vals(self.fine) if self.fine and self.fine[0] != "EXC" else self.fine


@dataclass
class InvocationReport:
    index: int                       # invocation number within the execution
    script: tuple                    # witnesses of the invocations before it
    analysis: str = ""               # class name
    info: Any = None                 # describe(analysis) of the caller
    n_queue0: int = 0
    states: int = 0
    transitions: int = 0
    executions: int = 0
    complete: int = 0                # executions that reached the terminal state
    pruned: int = 0
    finals: list = field(default_factory=list)     # [Final], canonical order
    schedules_represented: int | None = None       # path count of the state graph
    cyclic: bool = False
    budget: int | None = None

    @property
    def distinct_fine(self) -> int:
        return len(self.finals)

    @property
    def distinct_coarse(self) -> int:
        return len({f.coarse for f in self.finals})


@dataclass
class ExploreResult:
    invocations: list            # [InvocationReport] one per explored tree node
    outcomes: dict               # outcome -> script (tuple of witnesses) of a leaf
    leaves: int = 0
    executions: int = 0
    states: int = 0
    transitions: int = 0
    complete_schedules: int = 0

    @property
    def distinct_outcomes(self) -> int:
        return len(self.outcomes)


# ---------------------------------------------------------------------- explorer


class _Exec:
    """Mutable state of one execution."""
    __slots__ = ("script", "target", "prefix", "n_inv", "active", "tq", "src",
                 "dev0", "report")


class Explorer:
    def __init__(self, thunk: Callable[[], Any], *, max_deviations: int | None = None,
                 dedup: bool = True, branch: str = "fine",
                 outcome_of: Callable[[Any], Any] | None = None,
                 describe: Callable[[Any], Any] | None = None,
                 explore_filter: Callable[[Any], bool] | None = None,
                 max_states: int = 500_000, max_pops: int = 20_000,
                 max_invocations: int = 10_000, explore_invocations: int | None = None):
        if branch not in ("fine", "first"):
            raise ExplorerError("branch must be 'fine' or 'first'")
        self.thunk = thunk
        self.k = max_deviations
        self.dedup = dedup
        self.branch = branch
        self.outcome_of = outcome_of or (lambda v: v)
        self.describe = describe
        self.explore_filter = explore_filter
        self.max_states = max_states
        self.max_pops = max_pops
        self.max_invocations = max_invocations
        # explore only the first N (filtered) invocations and do not run the rest of the
        # execution at all (for clients that only look at the invocation reports)
        self.explore_invocations = explore_invocations
        self._x: _Exec | None = None
        # per-invocation exploration state (valid while exploring one tree node)
        self._visited: dict = {}
        self._sids: dict = {}
        self._edges: dict = {}
        self._pending: list = []
        self._finals: dict = {}
        self._terminal_sids: set = set()

    # ---- hook --------------------------------------------------------------
    def _hook(self, queue, analysis):
        x = self._x
        if x is None:
            raise ExplorerError("hook fired outside an execution")
        if self.explore_filter is not None and not self.explore_filter(analysis):
            return _Queue(queue, self, analysis, _DEFAULT, -1)
        if x.active:
            raise ExplorerError("nested run() invocation while one is being explored")
        i = x.n_inv
        x.n_inv += 1
        if i > self.max_invocations:
            raise ExplorerError("too many invocations in one execution")
        if i < x.target:
            return _Queue(queue, self, analysis, _SCRIPT, i)
        if i == x.target:
            q = _Queue(queue, self, analysis, _EXPLORE, i)
            x.active = True
            x.tq = q
            r = x.report
            if r.executions == 1:
                r.analysis = type(analysis).__name__
                r.n_queue0 = len(q.items)
                if self.describe is not None:
                    r.info = self.describe(analysis)
            return q
        raise ExplorerError("execution continued past the target invocation")

    # ---- pop / terminal ----------------------------------------------------
    @staticmethod
    def _state(q: _Queue, frame) -> tuple:
        loc = frame.f_locals
        try:
            vb = loc["vals_before"]
        except KeyError:
            raise ExplorerError(
                f"caller frame {frame.f_code.co_name} has no local 'vals_before'") from None
        va = loc.get("vals_after")
        return (tuple(sorted(_bbidx(b) for b in q.items)), fine_vals(vb),
                None if va is None else fine_vals(va))

    def _pop(self, q: _Queue, frame):
        elems = sorted(q.items, key=_bbidx) if len(q.items) > 1 else list(q.items)
        if not elems:
            raise KeyError("pop from an empty worklist")
        role = q.role
        if role == _DEFAULT:
            c = 0
        elif role == _SCRIPT:
            w = self._x.script[q.inv][0]
            if q.pos >= len(w) or w[q.pos] >= len(elems):
                raise ReplayDivergence(
                    f"invocation {q.inv}: witness {w} not replayable at pop {q.pos} "
                    f"(queue size {len(elems)})")
            c = w[q.pos]
        else:
            c = self._explore_pop(q, frame, len(elems))
        q.pos += 1
        q.choices.append(c)
        b = elems[c]
        q.items.remove(b)
        return b

    def _explore_pop(self, q: _Queue, frame, n: int) -> int:
        x = self._x
        p = q.pos
        if p < len(x.prefix):
            c = x.prefix[p]
            if c >= n:
                raise ReplayDivergence(f"prefix {x.prefix} not replayable at pop {p}")
            return c
        if p > self.max_pops:
            raise ExplorerError(f"more than {self.max_pops} pops in one schedule")
        r = x.report
        dev = x.dev0             # after the prefix only choice 0 is taken
        left = None if self.k is None else self.k - dev
        if self.dedup:
            s = self._state(q, frame)
            sid = self._sids.get(s)
            if sid is None:
                sid = self._sids[s] = len(self._sids)
                if len(self._sids) > self.max_states:
                    raise ExplorerError(f"more than {self.max_states} states")
            if x.src is not None:
                self._edges.setdefault(x.src[0], {})[x.src[1]] = sid
            seen = self._visited.get(sid, "no")
            if seen != "no" and (left is None or seen >= left):
                r.pruned += 1
                raise _Pruned()
            self._visited[sid] = left
        else:
            sid = None
        # expand: alternatives 1..n-1 are scheduled, choice 0 is taken now
        if left is None or left > 0:
            base = tuple(q.choices)
            for c in range(n - 1, 0, -1):
                self._pending.append((base + (c,), dev + 1, (sid, c) if sid is not None else None))
        r.transitions += 1
        x.src = (sid, 0) if sid is not None else None
        return 0

    def _terminal(self, q: _Queue, frame) -> None:
        role = q.role
        if role == _DEFAULT:
            return
        x = self._x
        if role == _SCRIPT:
            w, fexp = x.script[q.inv]
            if q.pos != len(w):
                raise ReplayDivergence(
                    f"invocation {q.inv}: terminated after {q.pos} pops, witness has {len(w)}")
            got = fine_vals(frame.f_locals["vals_before"])
            if got != fexp:
                raise ReplayDivergence(
                    f"invocation {q.inv}: same schedule, different result")
            return
        if q.pos < len(x.prefix):
            raise ReplayDivergence(f"prefix {x.prefix} longer than the run ({q.pos} pops)")
        fv = fine_vals(frame.f_locals["vals_before"])
        if self.dedup:
            s = self._state(q, frame)
            sid = self._sids.get(s)
            if sid is None:
                sid = self._sids[s] = len(self._sids)
            self._terminal_sids.add(sid)
            if x.src is not None:
                self._edges.setdefault(x.src[0], {})[x.src[1]] = sid
        self._record_final(fv, tuple(q.choices))
        x.active = False
        raise _Done()

    def _record_final(self, fv, witness: tuple) -> None:
        devs = sum(1 for c in witness if c)
        cur = self._finals.get(fv)
        if cur is None:
            self._finals[fv] = Final(fv, witness, devs)
        else:
            cur.count += 1
            if (devs, len(witness), witness) < (cur.devs, len(cur.witness), cur.witness):
                cur.witness, cur.devs = witness, devs

    # ---- one execution -----------------------------------------------------
    def _execute(self, script: tuple, target: int, prefix: tuple, dev0: int, src,
                 report: InvocationReport):
        """Returns ('aborted', None) | ('completed', value) | ('raised', exc)."""
        import guppylang_internals.cfg.analysis as A
        if not A._VERIF_ON:
            raise ExplorerError("CQCL_GUPPYLANG_VERIF=1 not set: the H1 hook is inert")
        x = _Exec()
        x.script, x.target, x.prefix = script, target, prefix
        x.n_inv, x.active, x.tq, x.src, x.dev0, x.report = 0, False, None, src, dev0, report
        prev_x, prev_hook = self._x, A._VERIF_SCHED
        self._x = x
        A._VERIF_SCHED = self._hook
        report.executions += 1
        try:
            try:
                v = self.thunk()
            except _Done:
                report.complete += 1
                return "aborted", None
            except _Pruned:
                return "aborted", None
            except (ReplayDivergence, ExplorerError):
                raise
            except Exception as e:  # noqa: BLE001 - classified below
                if x.active:
                    # the analysis itself raised under this schedule: a terminal
                    # result of the target invocation
                    q = x.tq
                    self._record_final(("EXC", type(e).__name__, str(e)[:160]),
                                       tuple(q.choices))
                    report.complete += 1
                    return "aborted", None
                return "raised", e
            if x.active:
                raise ExplorerError("thunk returned while the target invocation was running")
            if x.n_inv > target:
                raise ExplorerError("execution continued past the target invocation")
            return "completed", v
        finally:
            self._x = prev_x
            A._VERIF_SCHED = prev_hook

    # ---- one tree node: explore invocation `target` completely ------------------
    def _explore_invocation(self, script: tuple, budget: int | None):
        """Returns ('leaf', status, value) if the execution has no invocation number
        len(script), else ('inv', InvocationReport)."""
        target = len(script)
        rep = InvocationReport(index=target, script=tuple(w for w, _ in script), budget=budget)
        self._visited, self._sids, self._edges = {}, {}, {}
        self._pending, self._finals, self._terminal_sids = [], {}, set()
        saved_k = self.k
        self.k = budget
        try:
            status, v = self._execute(script, target, (), 0, None, rep)
            if status != "aborted":
                return ("leaf", status, v)
            while self._pending:
                prefix, dev, src = self._pending.pop()
                rep.transitions += 1     # the last choice of the prefix is a new transition
                status, v = self._execute(script, target, prefix, dev, src, rep)
                if status != "aborted":
                    raise ReplayDivergence(
                        f"invocation {target} vanished on re-execution ({status})")
        finally:
            self.k = saved_k
        rep.states = len(self._sids)
        rep.finals = sorted(self._finals.values(), key=lambda f: repr(f.fine))
        if self.dedup and budget is None:
            rep.cyclic, rep.schedules_represented = self._count_paths()
        return ("inv", rep)

    def _count_paths(self):
        """(cyclic?, number of complete schedules in the state graph from state 0)."""
        edges = self._edges
        if not self._sids:
            return False, 0
        memo: dict = {}
        onstack: set = set()
        cyclic = False
        # iterative DFS (graphs can be deep)
        stack = [(0, iter(sorted(edges.get(0, {}).items())))]
        onstack.add(0)
        acc = {0: 0}
        while stack:
            node, it = stack[-1]
            adv = False
            for _, tgt in it:
                if tgt in memo:
                    acc[node] += memo[tgt]
                elif tgt in onstack:
                    cyclic = True
                else:
                    onstack.add(tgt)
                    acc[tgt] = 0
                    stack.append((tgt, iter(sorted(edges.get(tgt, {}).items()))))
                    adv = True
                    break
            if not adv:
                stack.pop()
                onstack.discard(node)
                total = acc[node] + (1 if node in self._terminal_sids else 0)
                memo[node] = total
                if stack:
                    acc[stack[-1][0]] += total
        return cyclic, (None if cyclic else memo.get(0, 0))

    # ---- the whole tree ---------------------------------------------------------
    def explore(self) -> ExploreResult:
        res = ExploreResult(invocations=[], outcomes={})
        work = [((), self.k)]
        while work:
            script, budget = work.pop()
            node = self._explore_invocation(script, budget)
            if node[0] == "leaf":
                _, status, v = node
                res.leaves += 1
                res.executions += 1
                out = (self.outcome_of(v) if status == "completed"
                       else ("RAISED", type(v).__name__, str(v)[:200]))
                res.outcomes.setdefault(out, tuple(w for w, _ in script))
                continue
            rep = node[1]
            res.invocations.append(rep)
            res.executions += rep.executions
            res.states += rep.states
            res.transitions += rep.transitions
            res.complete_schedules += rep.complete
            if self.explore_invocations is not None and rep.index + 1 >= self.explore_invocations:
                continue
            nxt = [f for f in rep.finals if f.fine[0] != "EXC"]
            if self.branch == "first" and nxt:
                nxt = [min(nxt, key=lambda f: (f.devs, len(f.witness), f.witness))]
            for f in rep.finals:
                if f.fine[0] == "EXC":
                    res.outcomes.setdefault(f.fine, tuple(w for w, _ in script) + (f.witness,))
            for f in reversed(nxt):
                work.append((script + ((f.witness, f.fine),),
                             None if budget is None else budget - f.devs))
        return res


def explore(thunk, **kw) -> ExploreResult:
    """Explore every worklist schedule of every analysis invocation made by `thunk()`."""
    return Explorer(thunk, **kw).explore()


def run_with_schedule(thunk, script):
    """Run `thunk()` once with the given script = sequence of per-invocation choice
    sequences (missing / exhausted entries continue with choice 0).  For replays."""
    import guppylang_internals.cfg.analysis as A

    class _Fixed:
        def __init__(self):
            self.n = 0

        def hook(self, queue, analysis):
            i = self.n
            self.n += 1
            return _FixedQueue(queue, tuple(script[i]) if i < len(script) else ())

    class _FixedQueue:
        def __init__(self, items, w):
            self.items, self.w, self.pos = set(items), w, 0

        def __len__(self):
            return len(self.items)

        def pop(self):
            elems = sorted(self.items, key=_bbidx)
            c = self.w[self.pos] if self.pos < len(self.w) else 0
            self.pos += 1
            if c >= len(elems):
                raise ReplayDivergence(f"choice {c} not available (queue size {len(elems)})")
            self.items.remove(elems[c])
            return elems[c]

        def update(self, it):
            self.items.update(it)

    if not A._VERIF_ON:
        raise ExplorerError("CQCL_GUPPYLANG_VERIF=1 not set: the H1 hook is inert")
    prev = A._VERIF_SCHED
    A._VERIF_SCHED = _Fixed().hook
    try:
        return thunk()
    finally:
        A._VERIF_SCHED = prev


# ------------------------------------------------- whole-pipeline exploration (C10)

_PROG_NAME = "vsched_prog"


def pipeline_outcome(src: str, fn: str = "main") -> tuple:
    """Load `src` under a FIXED synthetic module/file name (so that diagnostics and
    HUGR metadata cannot differ merely by gload's module counter), run check +
    compile_function, and reduce the result to a comparable value:
    ('ok', sha256(package.to_bytes())) | ('error', rendered text) | ('crash', text)."""
    from vlib import gload
    from guppylang_internals.error import GuppyError
    full = gload.PRELUDE + src
    mod = None
    try:
        try:
            mod = gload.load(full, name=_PROG_NAME)
        except GuppyError as e:
            return ("error", "define", gload.render_error(e))
        except Exception as e:  # noqa: BLE001
            return ("crash", "define", f"{type(e).__name__}: {e}")
        o = gload.outcome(mod.__dict__[fn])
        if o.kind == "ok":
            return ("ok", hashlib.sha256(o.package.to_bytes()).hexdigest())
        if o.kind == "error":
            return ("error", o.stage, o.rendered)
        return ("crash", o.stage, o.exc)
    finally:
        if mod is not None:
            gload.unload(mod)


def explore_program_schedules(src: str, fn: str = "main", max_deviations: int | None = 2,
                              **kw) -> dict:
    """Run the real pipeline on `src` under every worklist schedule with at most
    `max_deviations` departures from the default order (None = every schedule) and
    return {'outcomes': {outcome: witness script}, 'result': ExploreResult}.
    Several distinct outcomes = the compiler's output depends on the worklist order."""
    res = explore(lambda: pipeline_outcome(src, fn), max_deviations=max_deviations, **kw)
    return {"outcomes": res.outcomes, "result": res}
