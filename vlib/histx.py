"""histx (E4) — history explorer on the real, process-global compiler objects.

A *history* is a list of operations applied to live global objects (ENGINE, DEF_STORE,
module dicts, counters, context variables ...).  Such objects do not deep-copy, so the
explorer copies the whole interpreter instead: it walks the tree of histories
depth-first and ``os.fork``s one child process per branch.  Every extension ``h + [op]``
therefore runs in a genuine copy of the interpreter state reached by its prefix ``h``
(one interpreter session per history), and siblings cannot disturb each other.

    explore(roots, n_ops, depth, init, step) -> Result

* ``roots``: list of JSON-able root descriptors.  For each root a process is forked from
  the *caller's* image and ``init(root)`` is run in it (e.g. load a generated module).
* operations are the integers ``0 .. n_ops-1``; ``step(root, hist, op)`` applies
  operation ``op`` after history ``hist`` (tuple of ints) IN THE CURRENT PROCESS and
  returns a JSON-able observation.  ``step`` must catch everything the system under test
  may raise; an exception escaping ``step``/``init`` is a harness error and aborts the
  whole exploration with ``HistxError`` (never converted into an observation).
* every node of the tree (= non-empty history of length <= depth) is recorded exactly
  once: ``Result.records`` is the list of ``(root_index, hist, obs)`` in deterministic
  (root, lexicographic-DFS) order.

Parallelism is bounded and static: the tree is cut at level ``split`` (default 1) into
units ``(root, prefix)``; at most ``workers`` unit processes run at a time.  A unit
process is forked from the caller's image, runs ``init`` and the prefix operations
in-process (those prefix nodes are *recorded* only by the first unit that shares them,
but *executed* by all; ``Result.executed`` counts real executions) and explores the
subtree below its prefix sequentially, one fork per branch.

Cost (measured on the verification VM, guppylang image of ~120 MB): ~65 ms per node (an
empty forked child is ~12-18 ms; the rest are copy-on-write page faults of the child's
work), and the total throughput does NOT grow with the number of concurrent forking
processes (15 nodes/s with 1, 12 with 2, 9.5 with >= 4 -- page-table work is serialised
by the hypervisor), so callers should pass ``workers=1`` there and budget ~13 nodes/s.

No zombies: every forked pid is ``waitpid``-ed, on error paths the remaining children
are killed and reaped.  Children leave with ``os._exit`` and never return into the
caller's stack; they talk to their parent over a pipe (JSON, read to EOF).
"""
from __future__ import annotations

import itertools
import json
import os
import select
import signal
import sys
import traceback
from dataclasses import dataclass, field
from typing import Any, Callable, Sequence

_ERRKEY = "__histx_error__"

# fds of the current process that a forked child must not keep
_CHILD_CLOSE: set[int] = set()


class HistxError(RuntimeError):
    """The harness (init/step/transport) failed; not a property violation."""


@dataclass
class Result:
    records: list = field(default_factory=list)   # (root_index, hist tuple, obs)
    executed: int = 0                             # step() executions incl. prefix re-runs
    units: int = 0
    forks: int = 0


# ------------------------------------------------------------------ plumbing
def _write_all(fd: int, data: bytes) -> None:
    view = memoryview(data)
    while view:
        n = os.write(fd, view)
        view = view[n:]


def _read_all(fd: int) -> bytes:
    chunks = []
    while True:
        b = os.read(fd, 1 << 16)
        if not b:
            return b"".join(chunks)
        chunks.append(b)


def _reap(pid: int) -> int:
    while True:
        try:
            _, status = os.waitpid(pid, 0)
            return status
        except InterruptedError:
            continue
        except ChildProcessError:
            return 0


def _spawn(fn: Callable[[], Any]) -> tuple[int, int]:
    """Fork; the child runs fn(), sends json(result) (or an error marker) through a
    pipe and _exits.  Returns (pid, read_fd) in the parent."""
    r, w = os.pipe()
    sys.stdout.flush()
    pid = os.fork()
    if pid == 0:
        code = 0
        try:
            os.close(r)
            for fd in list(_CHILD_CLOSE):
                try:
                    os.close(fd)
                except OSError:
                    pass
            _CHILD_CLOSE.clear()
            _CHILD_CLOSE.add(w)       # grand-children must not hold our report pipe
            try:
                payload = json.dumps(fn(), separators=(",", ":"))
            except BaseException:  # noqa: BLE001 - report, never unwind into caller
                payload = json.dumps({_ERRKEY: traceback.format_exc()})
                code = 3
            _write_all(w, payload.encode())
        except BaseException:  # noqa: BLE001
            code = 4
        finally:
            os._exit(code)
    os.close(w)
    _CHILD_CLOSE.add(r)
    return pid, r


def _finish(pid: int, r: int, data: bytes, what: str) -> Any:
    _CHILD_CLOSE.discard(r)
    os.close(r)
    status = _reap(pid)
    if not data:
        raise HistxError(f"{what}: child {pid} sent nothing (wait status {status})")
    try:
        res = json.loads(data)
    except ValueError as e:
        raise HistxError(f"{what}: undecodable child output ({e}); status {status}") from None
    if isinstance(res, dict) and _ERRKEY in res:
        raise HistxError(f"{what}: harness error in child:\n{res[_ERRKEY]}")
    if status != 0:
        raise HistxError(f"{what}: child wait status {status}")
    return res


def run_forked(fn: Callable[[], Any], what: str = "run_forked") -> Any:
    """Run fn() in a forked copy of this process; return its (JSON round-tripped) result."""
    pid, r = _spawn(fn)
    try:
        data = _read_all(r)
    except BaseException:
        _kill(pid)
        _CHILD_CLOSE.discard(r)
        os.close(r)
        _reap(pid)
        raise
    return _finish(pid, r, data, what)


def _kill(pid: int) -> None:
    try:
        os.kill(pid, signal.SIGKILL)
    except OSError:
        pass


def pmap_forked(fns: Sequence[Callable[[], Any]], workers: int, what: str = "pmap_forked") -> list:
    """Run each thunk in its own process forked from this image, at most `workers`
    at a time; ordered results.  On any failure all children are killed and reaped."""
    results: list = [None] * len(fns)
    live: dict[int, tuple[int, int, list]] = {}     # read fd -> (index, pid, chunks)
    nxt = 0
    try:
        while nxt < len(fns) or live:
            while nxt < len(fns) and len(live) < max(1, workers):
                pid, r = _spawn(fns[nxt])
                live[r] = (nxt, pid, [])
                nxt += 1
            ready, _, _ = select.select(list(live), [], [])
            for r in ready:
                b = os.read(r, 1 << 16)
                if b:
                    live[r][2].append(b)
                    continue
                idx, pid, chunks = live.pop(r)
                results[idx] = _finish(pid, r, b"".join(chunks), f"{what}[{idx}]")
    except BaseException:
        for r, (_, pid, _) in live.items():
            _kill(pid)
        for r, (_, pid, _) in live.items():
            _CHILD_CLOSE.discard(r)
            try:
                os.close(r)
            except OSError:
                pass
            _reap(pid)
        raise
    return results


# ------------------------------------------------------------------ explorer
def _dfs(root, hist: tuple, left: int, n_ops: int, step) -> tuple[list, int, int]:
    """Explore all extensions of `hist` (state of this process) to `left` more steps.
    Returns (records [(hist, obs)], executed, forks)."""
    if left <= 0:
        return [], 0, 0
    recs: list = []
    executed = forks = 0
    for op in range(n_ops):
        def child(op=op):
            h = hist + (op,)
            obs = step(root, hist, op)
            sub, ex, fk = _dfs(root, h, left - 1, n_ops, step)
            return [[[list(h), obs]] + sub, ex + 1, fk]
        sub, ex, fk = run_forked(child, f"history {list(hist) + [op]}")
        recs.extend(sub)
        executed += ex
        forks += fk + 1
    return recs, executed, forks


def _unit(root, prefix: tuple, depth: int, n_ops: int, init, step):
    init(root)
    recs: list = []
    executed = 0
    for k, op in enumerate(prefix):
        obs = step(root, prefix[:k], op)
        executed += 1
        if all(i == 0 for i in prefix[k + 1:]):      # first unit sharing this node records it
            recs.append([list(prefix[:k + 1]), obs])
    sub, ex, fk = _dfs(root, prefix, depth - len(prefix), n_ops, step)
    return [recs + sub, executed + ex, fk]


def explore(roots: Sequence[Any], n_ops: int, depth: int,
            init: Callable[[Any], None], step: Callable[[Any, tuple, int], Any],
            workers: int = 16, split: int = 1) -> Result:
    res = Result()
    if depth <= 0 or n_ops <= 0 or not roots:
        return res
    cut = max(1, min(split, depth))
    units = [(ri, p) for ri in range(len(roots))
             for p in itertools.product(range(n_ops), repeat=cut)]
    thunks = [(lambda ri=ri, p=p: _unit(roots[ri], p, depth, n_ops, init, step))
              for ri, p in units]
    outs = pmap_forked(thunks, workers, "unit")
    for (ri, _p), (recs, ex, fk) in zip(units, outs):
        for h, obs in recs:
            res.records.append((ri, tuple(h), obs))
        res.executed += ex
        res.forks += fk + 1
    res.units = len(units)
    # records: DFS order inside a unit lists a node before its subtree; re-sort so the
    # global order is (root, history) lexicographic and independent of `split`
    res.records.sort(key=lambda r: (r[0], r[1]))
    expected = len(roots) * sum(n_ops ** k for k in range(1, depth + 1))
    if len(res.records) != expected or len({(r[0], r[1]) for r in res.records}) != expected:
        raise HistxError(f"explorer recorded {len(res.records)} nodes, expected {expected}")
    return res
