"""bin/check entry point: run one property's driver, write evidence, report."""
from __future__ import annotations

import argparse
import importlib
import json
import os
import sys
import time
import traceback

from vlib import runner


def main(argv=None) -> int:
    ap = argparse.ArgumentParser()
    ap.add_argument("prop")
    ap.add_argument("--tier", default=os.environ.get("VERIF_TIER", "quick"),
                    choices=["quick", "thorough"])
    ap.add_argument("--replay", default=None)
    ap.add_argument("--workers", type=int, default=int(os.environ.get("VERIF_WORKERS", "16")))
    args = ap.parse_args(argv)
    try:
        seed = int(os.environ.get("VERIF_SEED", "0"))
    except ValueError:
        seed = 0

    runner.silence_fd1()
    pid = args.prop.upper()
    # sanity: we must be running /repo's sources, not site-packages
    import guppylang
    import guppylang_internals
    repo = os.environ.get("VERIF_REPO", "/repo")
    for m in (guppylang, guppylang_internals):
        if not os.path.realpath(m.__file__).startswith(os.path.realpath(repo) + os.sep):
            print(f"HARNESS-ERROR: {m.__name__} imported from {m.__file__}, not from {repo}")
            return 2

    mod = importlib.import_module(f"checks.{pid.lower()}")
    ctx = runner.Ctx(pid, args.tier, seed, args.workers, level=mod.LEVEL)
    if args.replay:
        with open(args.replay) as f:
            data = json.load(f)
        res = mod.replay(ctx, data["item"])
        print(json.dumps(res, indent=1, default=str))
        bad = bool(res.get("violation"))
        if bad:
            print(f"VIOLATION property={pid} replay={args.replay}")
        return 1 if bad else 0

    t0 = time.time()
    try:
        coverage = mod.run(ctx)
    except Exception:
        traceback.print_exc(file=sys.stdout)
        print(f"HARNESS-ERROR: driver for {pid} crashed")
        return 2
    return ctx.finish(coverage, time.time() - t0)


if __name__ == "__main__":
    sys.stdout.flush()
    rc = main()
    sys.stdout.flush()
    if os.environ.get("COVERAGE_CORE"):      # tools/covcheck.sh: let coverage write its data file
        sys.exit(rc)
    os._exit(rc)
