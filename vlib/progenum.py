"""progenum — bounded-exhaustive enumeration of small STRUCTURED programs.

The programs are the harness's own trees (plain tuples, picklable, hashable), not
Python `ast` and not anything from guppylang:

    body  ::= (stmt, ...)
    stmt  ::= ("a", Atom)                  simple statement supplied by the client
                                           (Atom.kind == "return" makes it a jump)
            | ("if", body, orelse)         orelse == () means "no else clause"
            | ("while", body)
            | ("for", body)                `for _ in range(n):`
            | ("break",) | ("continue",)   only generated inside loops

Conditions are not part of the tree: every compound statement gets the index of its
pre-order position and `render` asks a callback for the text (default: the opaque
bool parameter `c<k>`, resp. `range(n)` for `for`), so that every structural path is
feasible as far as a checker is concerned.  A client that wants literal conditions
passes its own callback.

* enumerate_bodies(atoms, max_stmts, max_depth, ...)  complete, simplest first
* render(body, indent)                               source text
* explore_paths(body, init_state, step)              reference exploration of the
  product (program point x abstract state) to closure; loops are iterated until no
  new state appears at the loop head.  This is deliberately a direct structural
  recursion over the tree above and shares nothing with guppylang's CFG builder.
"""
from __future__ import annotations

from dataclasses import dataclass
from typing import Any, Callable, Iterable, Iterator

__all__ = [
    "Atom", "enumerate_bodies", "count_stmts", "depth_of", "falls_through",
    "has_dead_code", "n_conds", "render", "render_map", "points", "explore_paths",
    "Exploration", "to_json", "from_json", "show", "brute_force_paths",
    "path_count_bound",
]


@dataclass(frozen=True)
class Atom:
    """A simple (non-compound) statement.  `text` may span several lines (e.g. a
    nested function definition); `meta` is opaque client data (hashable) that the
    client's reference model interprets."""
    name: str
    text: str
    meta: Any = None
    kind: str = "plain"          # "plain" | "return"

    @property
    def is_return(self) -> bool:
        return self.kind == "return"


BREAK = ("break",)
CONTINUE = ("continue",)


# --------------------------------------------------------------------------- measures
def count_stmts(body) -> int:
    n = 0
    for st in body:
        n += 1
        if st[0] == "if":
            n += count_stmts(st[1]) + count_stmts(st[2])
        elif st[0] in ("while", "for"):
            n += count_stmts(st[1])
    return n


def depth_of(body) -> int:
    d = 0
    for st in body:
        if st[0] == "if":
            d = max(d, 1 + max(depth_of(st[1]), depth_of(st[2])))
        elif st[0] in ("while", "for"):
            d = max(d, 1 + depth_of(st[1]))
    return d


def _stmt_falls(st) -> bool:
    k = st[0]
    if k == "a":
        return not st[1].is_return
    if k in ("break", "continue"):
        return False
    if k == "if":
        if not st[2]:
            return True
        return falls_through(st[1]) or falls_through(st[2])
    return True  # loops with an opaque condition can always be skipped / left


def falls_through(body) -> bool:
    """Can control reach the end of this block (conditions opaque)?"""
    return all(_stmt_falls(st) for st in body)


def has_dead_code(body) -> bool:
    """Is there a statement that structurally follows a statement which never
    falls through (return / break / continue / if-else where both arms jump)?"""
    for i, st in enumerate(body):
        if st[0] == "if":
            if has_dead_code(st[1]) or has_dead_code(st[2]):
                return True
        elif st[0] in ("while", "for"):
            if has_dead_code(st[1]):
                return True
        if not _stmt_falls(st) and i + 1 < len(body):
            return True
    return False


def n_conds(body) -> int:
    """Number of compound statements (= number of condition slots)."""
    n = 0
    for st in body:
        if st[0] == "if":
            n += 1 + n_conds(st[1]) + n_conds(st[2])
        elif st[0] in ("while", "for"):
            n += 1 + n_conds(st[1])
    return n


# ------------------------------------------------------------------------ enumeration
def enumerate_bodies(atoms: Iterable[Atom], max_stmts: int, max_depth: int, *,
                     loops: tuple = ("while",), allow_else: bool = True,
                     allow_dead_code: bool = False, min_stmts: int = 1,
                     loop_jumps: tuple = ("break", "continue"),
                     stmt_filter: Callable | None = None) -> Iterator[tuple]:
    """All function bodies with min_stmts <= #statements <= max_stmts and nesting
    depth <= max_depth, ordered by size (then by a fixed structural order).

    Every statement counts 1 (compound statements count 1 plus their bodies).
    `break` / `continue` appear only inside a loop body.  Unless `allow_dead_code`,
    nothing follows a statement that cannot fall through.  `stmt_filter(stmt)` may
    veto individual compound statements (after construction)."""
    atoms = tuple(atoms)
    plain1 = tuple(("a", a) for a in atoms)
    jumps = tuple((j,) for j in loop_jumps)
    memo_s: dict = {}
    memo_b: dict = {}

    def stmts(n: int, depth: int, in_loop: bool) -> tuple:
        key = (n, depth, in_loop)
        if key in memo_s:
            return memo_s[key]
        out = []
        if n == 1:
            out.extend(plain1)
            if in_loop:
                out.extend(jumps)
        elif depth > 0:
            for b in blocks(n - 1, depth - 1, in_loop):
                out.append(("if", b, ()))
            if allow_else:
                for a in range(1, n - 1):
                    for b1 in blocks(a, depth - 1, in_loop):
                        for b2 in blocks(n - 1 - a, depth - 1, in_loop):
                            out.append(("if", b1, b2))
            for lk in loops:
                for b in blocks(n - 1, depth - 1, True):
                    out.append((lk, b))
            if stmt_filter is not None:
                out = [s for s in out if stmt_filter(s)]
        memo_s[key] = tuple(out)
        return memo_s[key]

    def blocks(n: int, depth: int, in_loop: bool) -> tuple:
        """Non-empty blocks of total size exactly n."""
        key = (n, depth, in_loop)
        if key in memo_b:
            return memo_b[key]
        out = []
        for k in range(1, n + 1):
            firsts = stmts(k, depth, in_loop)
            if k == n:
                out.extend((s,) for s in firsts)
                continue
            rest = blocks(n - k, depth, in_loop)
            for s in firsts:
                if not allow_dead_code and not _stmt_falls(s):
                    continue
                for r in rest:
                    out.append((s,) + r)
        memo_b[key] = tuple(out)
        return memo_b[key]

    for n in range(max(1, min_stmts), max_stmts + 1):
        yield from blocks(n, max_depth, False)


# --------------------------------------------------------------------------- rendering
def _default_cond(k: int, kind: str) -> str:
    return "range(n)" if kind == "for" else f"c{k}"


def render_map(body, indent: int = 1, cond: Callable[[int, str], str] = _default_cond,
               unit: str = "    "):
    """Returns (text, linemap) where linemap maps each program point (see `points`)
    to the (first, last) 0-based line numbers of that statement in `text`."""
    lines: list[str] = []
    lmap: dict = {}
    counter = [0]

    def block(b, ind, path):
        for i, st in enumerate(b):
            p = path + (i,)
            first = len(lines)
            pad = unit * ind
            k = st[0]
            if k == "a":
                for ln in st[1].text.split("\n"):
                    lines.append(pad + ln)
            elif k in ("break", "continue"):
                lines.append(pad + k)
            elif k == "if":
                c = counter[0]
                counter[0] += 1
                lines.append(f"{pad}if {cond(c, 'if')}:")
                block(st[1], ind + 1, p + ("b",))
                if st[2]:
                    lines.append(f"{pad}else:")
                    block(st[2], ind + 1, p + ("e",))
            elif k == "while":
                c = counter[0]
                counter[0] += 1
                lines.append(f"{pad}while {cond(c, 'while')}:")
                block(st[1], ind + 1, p + ("b",))
            elif k == "for":
                c = counter[0]
                counter[0] += 1
                lines.append(f"{pad}for _ in {cond(c, 'for')}:")
                block(st[1], ind + 1, p + ("b",))
            else:  # pragma: no cover
                raise ValueError(f"unknown statement {st!r}")
            lmap[p] = (first, len(lines) - 1)

    block(body, indent, ())
    return "\n".join(lines) + "\n", lmap


def render(body, indent: int = 1, cond: Callable[[int, str], str] = _default_cond) -> str:
    return render_map(body, indent, cond)[0]


def show(body) -> str:
    """Compact one-line form for messages / keys."""
    parts = []
    for st in body:
        k = st[0]
        if k == "a":
            parts.append(st[1].name)
        elif k in ("break", "continue"):
            parts.append(k)
        elif k == "if":
            s = "if{" + show(st[1]) + "}"
            if st[2]:
                s += "else{" + show(st[2]) + "}"
            parts.append(s)
        else:
            parts.append(k + "{" + show(st[1]) + "}")
    return "; ".join(parts)


def points(body, path=()) -> Iterator[tuple]:
    """All program points: one per statement, named by its path in the tree:
    (i,) top level statement i; (i, 'b', j) statement j of the body of statement i;
    'e' for else-bodies."""
    for i, st in enumerate(body):
        p = path + (i,)
        yield p
        if st[0] == "if":
            yield from points(st[1], p + ("b",))
            yield from points(st[2], p + ("e",))
        elif st[0] in ("while", "for"):
            yield from points(st[1], p + ("b",))


def stmt_at(body, point):
    cur = body
    st = None
    for el in point:
        if el == "b":
            cur = st[1]
        elif el == "e":
            cur = st[2]
        else:
            st = cur[el]
    return st


# ------------------------------------------------------------------------ JSON helpers
def to_json(body) -> list:
    out = []
    for st in body:
        k = st[0]
        if k == "a":
            out.append(["a", st[1].name])
        elif k == "if":
            out.append(["if", to_json(st[1]), to_json(st[2])])
        elif k in ("while", "for"):
            out.append([k, to_json(st[1])])
        else:
            out.append([k])
    return out


def from_json(obj, atoms: Iterable[Atom]) -> tuple:
    by = {a.name: a for a in atoms}

    def go(o):
        out = []
        for st in o:
            k = st[0]
            if k == "a":
                out.append(("a", by[st[1]]))
            elif k == "if":
                out.append(("if", go(st[1]), go(st[2])))
            elif k in ("while", "for"):
                out.append((k, go(st[1])))
            else:
                out.append((k,))
        return tuple(out)

    return go(obj)


# ------------------------------------------------------------- reference path explorer
class Exploration:
    """Result of explore_paths.

    before[point]  set of abstract states with which the statement at `point` can be
                   reached (empty set: statement unreachable)
    exits          set of (how, state): how == "return" (state AFTER the return
                   atom's step) or "end" (fell off the end of the function body)
    n_states       number of distinct (program point x state) pairs, exits included
    n_transitions  number of distinct (point, state) -> successor edges
    """
    __slots__ = ("before", "exits", "n_states", "n_transitions", "rounds")

    def __init__(self):
        self.before: dict = {}
        self.exits: set = set()
        self.n_states = 0
        self.n_transitions = 0
        self.rounds = 0

    def unreachable_points(self) -> list:
        return [p for p, s in self.before.items() if not s]


class _LoopCtx:
    __slots__ = ("breaks", "conts")

    def __init__(self):
        self.breaks: set = set()
        self.conts: set = set()


def explore_paths(body, init_state, step: Callable, dead_code: str = "skip") -> Exploration:
    """Explore every structural path of `body` (conditions ignored: both arms of an
    `if` and zero-or-more iterations of every loop are possible), starting in
    `init_state`.

    `dead_code="skip"` (default): statements after a return/break/continue are not
    reached.  `dead_code="continue"`: the pessimistic reading in which such code is
    entered with the states that reached the jump (as if the jump could be fallen
    through) - for clients that want a verdict about unreachable code as well.

    `step(state, atom, point)` -> iterable of successor states (an empty iterable
    stops the path there).  States must be hashable.  The exploration is the least
    fixpoint of reachability over (program point x state); termination needs a
    finite state space."""
    ex = Exploration()
    for p in points(body):
        ex.before[p] = set()
    succ_cache: dict = {}
    trans = [0]

    def do_atom(atom, p, states) -> set:
        out = set()
        for s in states:
            key = (p, s)
            nxt = succ_cache.get(key)
            if nxt is None:
                nxt = tuple(step(s, atom, p))
                succ_cache[key] = nxt
                trans[0] += len(nxt)
            out.update(nxt)
        return out

    def block(b, path, states: set, loop: _LoopCtx | None) -> set:
        cur = states
        for i, st in enumerate(b):
            if not cur:
                break
            entering = cur
            p = path + (i,)
            seen = ex.before[p]
            fresh_n = len(cur - seen)
            seen |= cur
            k = st[0]
            if k == "a":
                nxt = do_atom(st[1], p, cur)
                if st[1].is_return:
                    for s in nxt:
                        ex.exits.add(("return", s))
                    cur = set()
                else:
                    cur = nxt
            elif k == "break":
                trans[0] += fresh_n
                loop.breaks |= cur
                cur = set()
            elif k == "continue":
                trans[0] += fresh_n
                loop.conts |= cur
                cur = set()
            elif k == "if":
                trans[0] += 2 * fresh_n
                o1 = block(st[1], p + ("b",), set(cur), loop)
                o2 = block(st[2], p + ("e",), set(cur), loop) if st[2] else set(cur)
                cur = o1 | o2
            else:  # while / for: zero or more iterations
                head: set = set()
                new = set(cur)
                leave: set = set()
                while True:
                    fresh = new - head
                    if not fresh:
                        break
                    ex.rounds += 1
                    trans[0] += 2 * len(fresh)     # enter body / leave loop
                    head |= fresh
                    inner = _LoopCtx()
                    out = block(st[1], p + ("b",), set(fresh), inner)
                    leave |= inner.breaks
                    new = out | inner.conts
                cur = head | leave
            if not cur and dead_code == "continue" and i + 1 < len(b):
                # pessimistic reading: fall through the jump
                if k == "a":
                    cur = set(nxt)
                elif k == "if":
                    cur = set(entering)
                else:
                    cur = set(entering)
        return cur

    end = block(body, (), {init_state}, None)
    for s in end:
        ex.exits.add(("end", s))
    ex.n_states = sum(len(v) for v in ex.before.values()) + len(ex.exits)
    ex.n_transitions = trans[0]
    return ex


def path_count_bound(body, max_iter: int = 4) -> int:
    """Upper bound on the number of paths `brute_force_paths` walks (for a
    deterministic `step`); lets a client decide whether the cross-check is cheap."""
    n = 1
    for st in body:
        k = st[0]
        if k == "if":
            n *= path_count_bound(st[1], max_iter) + (path_count_bound(st[2], max_iter) if st[2] else 1)
        elif k in ("while", "for"):
            b = path_count_bound(st[1], max_iter)
            n *= sum(b ** i for i in range(max_iter + 1))
        if n > 10 ** 9:
            return n
    return n


def brute_force_paths(body, init_state, step: Callable, max_iter: int = 4):
    """Independent cross-check for `explore_paths`: enumerates every execution
    path one by one (each loop executed 0..max_iter times, every `if` both ways)
    with no fixpoint, no memoisation and no state merging.  Returns (before, exits)
    in the same format as `Exploration`.  Exponential: only for tiny programs.

    Always  brute.before[p] <= explore.before[p]  and  brute.exits <= explore.exits;
    equality holds once max_iter is at least the number of iterations a loop needs
    to show all its states."""
    before = {p: set() for p in points(body)}
    exits: set = set()

    def run(block, path, i, state):
        """yields (outcome, state): outcome in fall/break/continue/return"""
        if i == len(block):
            yield ("fall", state)
            return
        st = block[i]
        p = path + (i,)
        before[p].add(state)
        k = st[0]
        if k == "a":
            for s2 in step(state, st[1], p):
                if st[1].is_return:
                    yield ("return", s2)
                else:
                    yield from run(block, path, i + 1, s2)
        elif k in ("break", "continue"):
            yield (k, state)
        elif k == "if":
            arms = [(st[1], p + ("b",))]
            if st[2]:
                arms.append((st[2], p + ("e",)))
            else:
                yield from run(block, path, i + 1, state)
            for arm, ap in arms:
                for o, s2 in run(arm, ap, 0, state):
                    if o == "fall":
                        yield from run(block, path, i + 1, s2)
                    else:
                        yield (o, s2)
        else:
            def iterate(s, n):
                yield from run(block, path, i + 1, s)          # condition false
                if n >= max_iter:
                    return
                for o, s2 in run(st[1], p + ("b",), 0, s):      # one more iteration
                    if o in ("fall", "continue"):
                        yield from iterate(s2, n + 1)
                    elif o == "break":
                        yield from run(block, path, i + 1, s2)
                    else:
                        yield (o, s2)
            yield from iterate(state, 0)

    for o, s in run(body, (), 0, init_state):
        exits.add(("return" if o == "return" else "end", s))
    return before, exits
