"""Loading generated Guppy source text and running the real pipeline on it.

* load(src)            -> module object (source registered in linecache under a
                          synthetic file name; nothing written to disk)
* outcome(defn, ...)   -> Outcome: 'ok' | 'error' (GuppyError, with title + rendered
                          diagnostic + spans) | 'crash' (anything else escaping)
* validate(pkg)        -> None or an error string from the real hugr-core validator
"""
from __future__ import annotations

import linecache
import os
import sys
import traceback
import types
from dataclasses import dataclass, field
from typing import Any

_COUNTER = [0]

PRELUDE = """\
from guppylang import guppy, qubit, array, comptime
from guppylang.std.builtins import result, owned, panic, exit, nat, barrier
from guppylang.std.quantum import h, x, y, z, s, t, cx, cz, measure, discard, reset
"""


def load(src: str, name: str | None = None) -> types.ModuleType:
    _COUNTER[0] += 1
    name = name or f"vprog{_COUNTER[0]}"
    fn = f"<verif:{name}>"
    linecache.cache[fn] = (len(src), None, src.splitlines(True), fn)
    mod = types.ModuleType(name)
    mod.__file__ = fn
    sys.modules[name] = mod
    try:
        exec(compile(src, fn, "exec"), mod.__dict__)
    except BaseException:
        sys.modules.pop(name, None)
        raise
    return mod


def unload(mod: types.ModuleType) -> None:
    sys.modules.pop(mod.__name__, None)
    linecache.cache.pop(getattr(mod, "__file__", ""), None)


@dataclass
class Outcome:
    kind: str                      # ok | error | crash
    title: str = ""                # GuppyError title (kind == error)
    rendered: str = ""             # rendered diagnostic
    spans: list = field(default_factory=list)   # [(file, l0, c0, l1, c1)]
    exc: str = ""                  # crash: exception type + message
    tb: str = ""
    package: Any = None
    stage: str = ""                # check | compile | render

    @property
    def ok(self) -> bool:
        return self.kind == "ok"

    def brief(self) -> str:
        if self.kind == "ok":
            return "ok"
        if self.kind == "error":
            return f"error[{self.title}]"
        return f"crash[{self.exc[:120]}]"


def _diag_spans(diag) -> list:
    from guppylang_internals.span import to_span
    out = []
    for d in [diag, *getattr(diag, "children", [])]:
        sp = getattr(d, "span", None)
        if sp is not None:
            s = to_span(sp)
            out.append((s.file, s.start.line, s.start.column, s.end.line, s.end.column))
    return out


def render_error(err) -> str:
    from guppylang_internals.diagnostic import DiagnosticsRenderer
    from guppylang_internals.engine import DEF_STORE
    r = DiagnosticsRenderer(DEF_STORE.sources)
    r.render_diagnostic(err.error)
    return "\n".join(r.buffer)


def outcome(defn, compile: bool = True, entry: bool = False) -> Outcome:
    """Run check (and compile) on a GuppyDefinition, classify the result."""
    from guppylang_internals.error import GuppyError
    stage = "check"
    try:
        defn.check()
        pkg = None
        if compile:
            stage = "compile"
            pkg = defn.compile() if entry else defn.compile_function()
        return Outcome("ok", package=pkg, stage=stage)
    except GuppyError as e:
        try:
            rendered = render_error(e)
            spans = _diag_spans(e.error)
        except Exception as e2:  # noqa: BLE001
            return Outcome("crash", exc=f"render failed: {type(e2).__name__}: {e2}",
                           tb=traceback.format_exc(), stage="render")
        return Outcome("error", title=getattr(e.error, "rendered_title", None) or e.error.title,
                       rendered=rendered, spans=spans, stage=stage)
    except RecursionError as e:
        return Outcome("crash", exc=f"RecursionError: {e}", tb="", stage=stage)
    except Exception as e:  # noqa: BLE001
        return Outcome("crash", exc=f"{type(e).__name__}: {e}", tb=traceback.format_exc(), stage=stage)


def run_src(src: str, fn: str = "main", compile: bool = True, entry: bool = False,
            with_prelude: bool = True, name: str | None = None):
    """Load source (optionally prefixed with PRELUDE) and run the pipeline on `fn`.
    Returns (Outcome, module).  Errors raised while *defining* (decorator time) are
    classified the same way."""
    from guppylang_internals.error import GuppyError
    full = (PRELUDE + src) if with_prelude else src
    try:
        mod = load(full, name)
    except GuppyError as e:
        try:
            return Outcome("error", title=e.error.title, rendered=render_error(e),
                           spans=_diag_spans(e.error), stage="define"), None
        except Exception as e2:  # noqa: BLE001
            return Outcome("crash", exc=f"render failed: {type(e2).__name__}: {e2}",
                           tb=traceback.format_exc(), stage="render"), None
    except SyntaxError as e:
        return Outcome("crash", exc=f"SyntaxError(generator bug): {e}", stage="define"), None
    except Exception as e:  # noqa: BLE001
        return Outcome("crash", exc=f"{type(e).__name__}: {e}", tb=traceback.format_exc(),
                       stage="define"), None
    return outcome(mod.__dict__[fn], compile=compile, entry=entry), mod


def prelude_lines() -> int:
    return PRELUDE.count("\n")


def validate(pkg) -> str | None:
    """Real hugr-core validator on the serialised package.  None = valid."""
    import hugr.cli
    try:
        data = pkg.to_bytes()
    except Exception as e:  # noqa: BLE001
        return f"serialisation failed: {type(e).__name__}: {e}"
    return validate_bytes(data)


_DEVNULL = None


def validate_bytes(data: bytes) -> str | None:
    """The validator chats 'HUGR valid!' on fd 2; silence it for the duration of the call."""
    import hugr.cli
    global _DEVNULL
    if _DEVNULL is None:
        _DEVNULL = os.open(os.devnull, os.O_WRONLY)
    sys.stderr.flush()
    saved = os.dup(2)
    os.dup2(_DEVNULL, 2)
    try:
        hugr.cli.validate(data)
        return None
    except Exception as e:  # noqa: BLE001
        return f"{type(e).__name__}: {e}"
    finally:
        os.dup2(saved, 2)
        os.close(saved)
