"""CS-2: bind hugrvm's classical op semantics to the REAL Selene emulator, independently of
/repo: the INSTALLED guppylang 1.0.4 (site-packages) compiles small programs that apply
every integer / float / conversion operator to boundary operands; the same HUGR is (a) run on
real Selene and (b) interpreted by hugrvm; the result streams must agree.

Run WITHOUT /repo and WITHOUT the compat shim:
   VERIF_NO_SHIM=1 PYTHONPATH=/verif /venv/bin/python -m vlib.cs2
"""
from __future__ import annotations

import itertools
import math
import sys

P63 = 1 << 63
INTS = [0, 1, -1, 2, -3, 7, -7, 63, (1 << 62), -(1 << 62), P63 - 1, -P63]
NATS = [0, 1, 2, 3, 63, 64, 1 << 32, P63 - 1, P63, (1 << 64) - 1]
FLOATS = [0.0, 0.5, -1.5, 2.5, -2.5, 7.0, 1e18, -9.223372036854775e18]

INT_BIN = ["+", "-", "*", "//", "%", "&", "|", "^", "==", "!=", "<", "<=", ">", ">="]
NAT_BIN = ["+", "-", "*", "//", "%", "&", "|", "^", "<", ">=", "<<", ">>"]
FLOAT_BIN = ["+", "-", "*", "/", "//", "<", "==", ">="]


def build_programs():
    """-> list of (name, source).  Operands are passed through an identity call on a runtime
    array element so that nothing is a syntactic constant expression."""
    progs = []
    hdr = ("from guppylang import guppy\nfrom guppylang.std.builtins import result, array, nat\n"
           "from guppylang.std.builtins import panic\n\n")

    def lit(v, ty):
        if ty == "float":
            return repr(float(v))
        if ty == "nat":
            return f"nat({v})" if v < P63 else f"(nat({v >> 1}) * nat(2) + nat({v & 1}))"
        if v == -P63:
            return f"(-{P63 - 1} - 1)"
        return f"({v})"

    for ty, vals, ops in (("int", INTS, INT_BIN), ("nat", NATS, NAT_BIN), ("float", FLOATS, FLOAT_BIN)):
        for op in ops:
            lines = []
            k = 0
            for a, b in itertools.product(vals, vals):
                if op in ("//", "%") and b == 0:
                    continue
                if op in ("//", "%", "/") and ty == "float" and b == 0.0:
                    continue
                if op in ("<<", ">>") and not (0 <= b < 64):
                    continue
                lines.append(f'    result("r{k}", f({lit(a, ty)}, {lit(b, ty)}))')
                k += 1
            src = (hdr + f"@guppy\ndef f(a: {ty}, b: {ty}) -> {'bool' if op in ('==', '!=', '<', '<=', '>', '>=') else ty}:\n"
                   f"    return a {op} b\n\n@guppy\ndef main() -> None:\n" + "\n".join(lines) + "\n")
            progs.append((f"{ty}:{op}", src))
    # shifts / pow on ints, unary ops, conversions
    conv = []
    k = 0
    for a in INTS:
        conv.append(f'    result("neg{k}", neg(({a}) if True else 0))' if a != -P63 else f'    result("neg{k}", neg(-{P63 - 1} - 1))')
        conv.append(f'    result("inv{k}", inv({lit(a, "int")}))')
        conv.append(f'    result("abs{k}", ab({lit(a, "int")}))')
        conv.append(f'    result("i2f{k}", i2f({lit(a, "int")}))')
        k += 1
    for a in NATS:
        conv.append(f'    result("n2f{k}", n2f({lit(a, "nat")}))')
        if a < P63:   # 1.0.4 checks nat -> int conversions (panics above 2^63 - 1)
            conv.append(f'    result("n2i{k}", n2i({lit(a, "nat")}))')
        k += 1
    for a in FLOATS + [0.49, -0.51, 1e10]:
        conv.append(f'    result("f2i{k}", f2i({float(a)!r}))')
        k += 1
    for a, b in itertools.product([0, 1, -1, 2, -3, 7], [0, 1, 2, 3, 63]):
        conv.append(f'    result("shl{k}", shl({lit(a, "int")}, {b}))')
        conv.append(f'    result("shr{k}", shr({lit(a, "int")}, {b}))')
        conv.append(f'    result("pow{k}", pw({lit(a, "int")}, {b}))')
        k += 1
    src = (hdr + "@guppy\ndef neg(a: int) -> int:\n    return -a\n\n@guppy\ndef inv(a: int) -> int:\n    return ~a\n\n"
           "@guppy\ndef ab(a: int) -> int:\n    return abs(a)\n\n@guppy\ndef i2f(a: int) -> float:\n    return float(a)\n\n"
           "@guppy\ndef n2f(a: nat) -> float:\n    return float(a)\n\n@guppy\ndef n2i(a: nat) -> int:\n    return int(a)\n\n"
           "@guppy\ndef f2i(a: float) -> int:\n    return int(a)\n\n"
           "@guppy\ndef shl(a: int, b: int) -> int:\n    return a << b\n\n@guppy\ndef shr(a: int, b: int) -> int:\n    return a >> b\n\n"
           "@guppy\ndef pw(a: int, b: int) -> int:\n    return a ** b\n\n"
           "@guppy\ndef main() -> None:\n" + "\n".join(conv) + "\n")
    progs.append(("unary+conversions+shifts", src))
    return progs


def load(src, name):
    import linecache
    import types
    fn = f"<cs2:{name}>"
    linecache.cache[fn] = (len(src), None, src.splitlines(True), fn)
    mod = types.ModuleType("cs2_" + "".join(c if c.isalnum() else "_" for c in name))
    mod.__file__ = fn
    sys.modules[mod.__name__] = mod
    exec(compile(src, fn, "exec"), mod.__dict__)
    return mod


def same(a, b):
    if isinstance(a, float) or isinstance(b, float):
        a, b = float(a), float(b)
        return (a != a and b != b) or a == b
    return a == b


def run_one(item):
    name, src = item
    from vlib import hugrvm
    try:
        return _run_one(name, src, hugrvm)
    except BaseException as e:  # noqa: BLE001  (pyo3 panics derive from BaseException)
        return name, 0, [f"could not run: {type(e).__name__}: {str(e)[:300]}"]


def _run_one(name, src, hugrvm):
    mod = load(src, name)
    pkg = mod.main.compile()
    res = mod.main.emulator(n_qubits=1).coinflip_sim().with_seed(1).run()
    selene = [(k, v) for k, v in res.results[0].entries]
    h = pkg.modules[0]
    r = hugrvm.run(h, h.entrypoint.idx, [])
    if r.status != "ok":
        return name, len(selene), [f"hugrvm {r.status} {r.detail} {r.panic}"]
    mine = r.results()
    bad = []
    if len(mine) != len(selene):
        bad.append(f"{len(mine)} results vs selene {len(selene)}")
    for (t1, v1), (t2, v2) in zip(mine, selene):
        if t1 != t2 or not same(v1, v2):
            bad.append(f"{t1}: hugrvm {v1!r} vs selene {t2}={v2!r}")
    return name, len(selene), bad[:6]


def main():
    progs = build_programs()
    import multiprocessing as mp
    with mp.get_context("fork").Pool(8) as pool:
        out = pool.map(run_one, progs, chunksize=1)
    total = sum(n for _, n, _ in out)
    bad = [(n, b) for n, _, b in out if b]
    for n, b in bad:
        print("CS2 MISMATCH", n, b)
    print(f"CS2 {'ok' if not bad else 'FAILED'}: {len(progs)} programs, {total} results compared between real Selene and hugrvm")
    return 1 if bad else 0


if __name__ == "__main__":
    sys.exit(main())
