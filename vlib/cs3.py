"""CS-3: bind hugrvm's gate matrices, angle conventions and qubit ordering to the REAL Selene
emulator.  /repo's compiler emits bool-free programs (gates + state_result) that Selene's
Quest simulator can run; after every gate a state_result is taken, and the sequence of
state vectors must agree with hugrvm's (up to global phase).

  python -m vlib.cs3        -> prints CS3 ok / mismatches; exit 0/1
"""
from __future__ import annotations

import sys

import numpy as np

import vlib  # noqa: F401
from vlib import gload, hugrvm

GATES = [
    "h(a)", "x(b)", "y(c)", "z(a)", "s(b)", "sdg(c)", "t(a)", "tdg(b)", "v(c)", "vdg(a)",
    "cx(a, b)", "cx(c, a)", "cy(b, c)", "cy(a, c)", "cz(a, b)", "cz(c, b)", "ch(a, b)", "ch(c, a)",
    "toffoli(a, b, c)", "toffoli(c, a, b)", "toffoli(b, c, a)",
    "rz(a, angle(0.25))", "rx(b, angle(1.5))", "ry(c, angle(-0.7))", "crz(a, b, angle(1 / 3))", "crz(c, a, angle(2.5))",
    "rz(b, angle(4.25))", "rx(c, pi / 4)", "ry(a, -pi / 3 + angle(0.1))",
    "qrz(a, angle(0.3))", "phased_x(b, angle(0.4), angle(1.2))", "zz_phase(a, c, angle(0.7))", "zz_max(b, a)",
    "phased_x(c, angle(-1.5), angle(0.25))", "zz_phase(c, b, angle(-1.25))",
]


def source(gates):
    body = ["a = qubit()", "b = qubit()", "c = qubit()",
            "h(a)", "t(a)", "rx(b, angle(0.3))", "h(c)", "s(c)", "ry(c, angle(0.2))", 'state_result("s0", a, b, c)']
    for i, g in enumerate(gates):
        body.append(g)
        body.append(f'state_result("s{i + 1}", a, b, c)')
    body += ["discard(a)", "discard(b)", "discard(c)"]
    return ('''
from guppylang.std.angles import angle, pi
from guppylang.std.debug import state_result
from guppylang.std.quantum import rz, rx, ry, crz, cy, ch, toffoli, sdg, tdg, v, vdg
from guppylang.std.qsystem import phased_x, zz_phase, zz_max
from guppylang.std.qsystem import rz as qrz

@guppy
def main() -> None:
''' + "\n".join("    " + l for l in body) + "\n")


def same_up_to_phase(u, v, tol=1e-6):
    u, v = np.asarray(u, dtype=complex), np.asarray(v, dtype=complex)
    if u.shape != v.shape:
        return False
    k = int(np.argmax(np.abs(u)))
    if abs(v[k]) < 1e-9:
        return False
    ph = u[k] / v[k]
    return abs(abs(ph) - 1) < 1e-6 and np.allclose(u, ph * v, atol=tol)


def run():
    o, mod = gload.run_src(source(GATES))
    if not o.ok:
        print("CS3: program rejected:", o.brief(), o.rendered)
        return 2
    # hugrvm side
    r = hugrvm.run(o.package.modules[0], "main", [])
    if r.status != "ok":
        print("CS3: hugrvm", r.status, r.detail, r.panic)
        return 2
    mine = {e[1]: e[3] for e in r.events if e[0] == "state"}
    # Selene side (entry point compile + build + run; needs the legacy shim only at compile time)
    res = mod.main.emulator(n_qubits=3).statevector_sim().with_seed(1).run()
    theirs = {}
    for d in res.partial_state_dicts():
        for k, v in d.items():
            theirs[k] = np.asarray(v.as_single_state())
    bad = 0
    for i in range(len(GATES) + 1):
        tag = f"s{i}"
        if tag not in theirs:
            print("CS3: Selene produced no state for", tag)
            bad += 1
            continue
        if not same_up_to_phase(mine[tag], theirs[tag]):
            bad += 1
            print(f"CS3 MISMATCH after {GATES[i - 1] if i else 'preparation'}:\n  hugrvm {np.round(mine[tag], 4)}\n  selene {np.round(theirs[tag], 4)}")
    print(f"CS3 {'ok' if not bad else 'FAILED'}: {len(GATES) + 1} states compared on real Selene, {bad} mismatches")
    return 1 if bad else 0


if __name__ == "__main__":
    sys.exit(run())
