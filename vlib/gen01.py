"""gen01 — bounded-exhaustive generator of well-formed-by-construction Guppy functions.

Used by checks/c01.py (every program) and checks/c02.py (small programs as mutation
bases).  NO random choice anywhere: every family enumerates *all* statement lists of
its grammar up to a bound (number of statements, nesting depth), simplest first.

How programs are built
----------------------
A *family* fixes a function signature, a set of typed variables and a list of
*statement templates*.  A template is declarative: the text of the statement, the
variable states it requires and the states it produces.  Variable states are

    L  live / defined              D  dead: undefined, moved or consumed
    H  struct value whose linear field has been moved out ("hole")

The enumerator threads an abstract environment (one state per variable) through
statement lists and the compound statements `if / if-else / if-elif-else / while c /
while True / for i in range(n)`, joining environments at merge points with Guppy's
rules (copyable: defined only if defined on all paths; affine: usable only if live on
all paths, dropped otherwise; linear: must agree on all paths, else the candidate is
pruned; loop back-edges and `continue` must restore the loop-entry state of every
non-copyable variable; `break` environments are joined into the loop exit; `return`
requires every owned linear variable consumed and every borrowed one intact).  So the
programs are accepted by Guppy's checker by construction most of the time; the rest is
counted by the drivers as `rejected_by_checker`.

Families (see FAMILIES): cf (classical control flow), lin (owned qubits), linb
(borrowed qubit, diverging loops = unreachable exit), mix (qubit + array + int),
struct / structb (struct places, partial moves), arr / arrq / arrs (arrays, arrays of
qubits, struct with array field), gen (calls of generic helpers at several
instantiations), polyl / polyc / polyn (generic bodies: linear T, copyable T, nat /
comptime parameters; compiled directly = polymorphic, or through a caller =
(partially) monomorphised), nest (nested functions, capturing closures), plus two
explicit product families: expr (statement kinds x placement contexts) and drops
(unused affine values of each shape x position).

Size measure of a program: (statements excluding the fixed epilogue, nesting depth,
number of distinct variables mentioned).
"""
from __future__ import annotations

import re
from dataclasses import dataclass, field

HEADER = "from guppylang.std.lang import Copy, Drop\n" \
         "from guppylang.std.quantum import measure_array, discard_array\n"

COPYABLE = {"int", "bool", "float", "tup", "fn", "nat", "Tc"}
AFFINE = {"arr", "A"}                     # droppable, not copyable
LINEAR = {"qubit", "T", "S", "qarr"}      # neither copyable nor droppable


# --------------------------------------------------------------------------- model
@dataclass(frozen=True)
class Var:
    name: str
    ty: str
    init: str = "D"          # L | D
    borrowed: bool = False   # borrowed parameter: must be whole (L) at every exit


@dataclass(frozen=True)
class Atom:
    text: str
    req: tuple = ()          # ((var, allowed-states-string), ...)
    eff: tuple = ()          # ((var, new-state), ...)
    kind: str = "plain"      # plain | return | break | continue
    tag: str = ""
    exp: bool = False        # needs experimental features


def A(text, req=None, eff=None, kind="plain", tag="", exp=False):
    return Atom(text, tuple(sorted((req or {}).items())), tuple(sorted((eff or {}).items())),
                kind, tag, exp)


@dataclass
class Family:
    name: str
    sig: str                                  # "def main(...) -> T:" line(s), incl. decorator
    vars: list
    atoms: list
    epilogue: object                          # fn(envdict) -> list[str] | None
    header: str = ""                          # helper definitions placed before main
    footer: str = ""                          # e.g. caller functions placed after main
    entry: str = "main"
    conds: tuple = ("a", "b", "a", "b")
    compounds: tuple = ("if", "ifelse", "while", "for")
    n_max: int = 3
    depth_max: int = 2
    exp: bool = False
    range_arg: str = "2"
    for_k_max: int = 99                       # `for` statements only up to this size (cost: ~60 ms each)
    tags: tuple = ()

    def __post_init__(self):
        self.idx = {v.name: i for i, v in enumerate(self.vars)}
        self.init = tuple(v.init for v in self.vars)
        self.noncopy = [i for i, v in enumerate(self.vars) if v.ty not in COPYABLE]


@dataclass(frozen=True)
class Res:
    lines: tuple            # source lines (relative indentation by leading spaces)
    out: object             # env tuple or None (no fall-through)
    brk: tuple = ()
    cont: tuple = ()
    tags: frozenset = frozenset()
    exp: bool = False


@dataclass(frozen=True)
class Prog:
    family: str
    src: str
    entry: str
    exp: bool
    size: tuple
    tags: tuple

    @property
    def key(self):
        return (self.size, self.family)


BAD = object()


def _ok(F, atom, env):
    for v, allowed in atom.req:
        if env[F.idx[v]] not in allowed:
            return False
    return True


def _apply(F, atom, env):
    if not atom.eff:
        return env
    e = list(env)
    for v, st in atom.eff:
        e[F.idx[v]] = st
    return tuple(e)


def _exit_ok(F, env):
    for i, v in enumerate(F.vars):
        st = env[i]
        if v.borrowed:
            if st != "L":
                return False
        elif v.ty in LINEAR:
            if st == "L":
                return False
            if st == "H" and v.ty != "S":
                return False
    return True


def _join(F, envs):
    """Join of fall-through environments at a merge point; BAD if Guppy would reject."""
    envs = [e for e in envs if e is not None]
    if not envs:
        return None
    first = envs[0]
    if all(e == first for e in envs[1:]):
        return first
    out = []
    for i, v in enumerate(F.vars):
        sts = {e[i] for e in envs}
        if len(sts) == 1:
            out.append(first[i])
        elif v.ty in COPYABLE:
            out.append("D")
        elif v.ty in AFFINE and not v.borrowed:
            out.append("D")
        else:
            return BAD
    return tuple(out)


def _lin_eq(F, e1, e2):
    return all(e1[i] == e2[i] for i in F.noncopy)


def _indent(lines):
    return tuple("    " + ln for ln in lines)


def _mk(head, *bodies):
    """head: list of (header-line, body-Res)."""
    lines = []
    for h, b in zip(head, bodies):
        lines.append(h)
        lines.extend(_indent(b.lines))
    return tuple(lines)


def _stmts(F, env, k, depth, inloop, lvl):
    """All single statements of size exactly k from environment env."""
    if k == 1:
        for t in F.atoms:
            if t.kind in ("break", "continue") and not inloop:
                continue
            if not _ok(F, t, env):
                continue
            env2 = _apply(F, t, env)
            tg = frozenset((t.tag,)) if t.tag else frozenset()
            lines = tuple(t.text.split("\n"))
            if t.kind == "return":
                if _exit_ok(F, env2):
                    yield Res(lines, None, (), (), tg | {"return"}, t.exp)
            elif t.kind == "break":
                yield Res(lines, None, (env,), (), tg | {"break"}, t.exp)
            elif t.kind == "continue":
                yield Res(lines, None, (), (env,), tg | {"continue"}, t.exp)
            else:
                yield Res(lines, env2, (), (), tg, t.exp)
        return
    if depth <= 0 or k < 2:
        return
    c = F.conds[lvl % len(F.conds)]
    c2 = F.conds[(lvl + 1) % len(F.conds)]
    sub = dict(depth=depth - 1, lvl=lvl + 1)
    if "if" in F.compounds:
        for B in _blocks(F, env, k - 1, inloop=inloop, **sub):
            out = _join(F, [env, B.out])
            if out is BAD:
                continue
            yield Res(_mk([f"if {c}:"], B), out, B.brk, B.cont, B.tags | {"if"}, B.exp)
    if "ifelse" in F.compounds:
        for nb in range(1, k - 1):
            for B in _blocks(F, env, nb, inloop=inloop, **sub):
                for E in _blocks(F, env, k - 1 - nb, inloop=inloop, **sub):
                    out = _join(F, [B.out, E.out])
                    if out is BAD:
                        continue
                    yield Res(_mk([f"if {c}:", "else:"], B, E), out, B.brk + E.brk,
                              B.cont + E.cont, B.tags | E.tags | {"ifelse"}, B.exp or E.exp)
    if "elif" in F.compounds and k >= 4:
        for nb in range(1, k - 2):
            for nm in range(1, k - 1 - nb):
                ne = k - 1 - nb - nm
                for B in _blocks(F, env, nb, inloop=inloop, **sub):
                    for M in _blocks(F, env, nm, inloop=inloop, **sub):
                        for E in _blocks(F, env, ne, inloop=inloop, **sub):
                            out = _join(F, [B.out, M.out, E.out])
                            if out is BAD:
                                continue
                            yield Res(_mk([f"if {c}:", f"elif {c2}:", "else:"], B, M, E), out,
                                      B.brk + M.brk + E.brk, B.cont + M.cont + E.cont,
                                      B.tags | M.tags | E.tags | {"elif"},
                                      B.exp or M.exp or E.exp)
    for kind in ("while", "whiletrue", "for"):
        if kind not in F.compounds:
            continue
        benv = env
        if kind == "for":
            if "i" not in F.idx or k > F.for_k_max:
                continue
            e = list(env)
            e[F.idx["i"]] = "L"
            benv = tuple(e)
        for B in _blocks(F, benv, k - 1, inloop=True, **sub):
            if B.out is not None and not _lin_eq(F, B.out, env):
                continue
            if any(not _lin_eq(F, e, env) for e in B.cont):
                continue
            if kind == "whiletrue":
                out = _join(F, list(B.brk))
                head = "while True:"
            else:
                out = _join(F, [env, *B.brk])
                head = f"while {c}:" if kind == "while" else f"for i in range({F.range_arg}):"
            if out is BAD:
                continue
            yield Res(_mk([head], B), out, (), (), B.tags | {kind}, B.exp)


def _blocks(F, env, n, depth, inloop, lvl):
    """All statement lists with exactly n statements from env."""
    if n == 0:
        yield Res((), env)
        return
    for k in range(1, n + 1):
        for s in _stmts(F, env, k, depth, inloop, lvl):
            if k == n:
                yield s
            elif s.out is not None:
                for r in _blocks(F, s.out, n - k, depth, inloop, lvl):
                    yield Res(s.lines + r.lines, r.out, s.brk + r.brk, s.cont + r.cont,
                              s.tags | r.tags, s.exp or r.exp)
            # statements after a jump (dead code) are covered by the `expr` family only


_IDENT = re.compile(r"[A-Za-z_][A-Za-z_0-9]*")


def _size(F, n, lines):
    depth = max([(len(ln) - len(ln.lstrip(" "))) // 4 for ln in lines] or [0])
    names = set()
    for ln in lines:
        names.update(w for w in _IDENT.findall(ln) if w in F.idx)
    return (n, depth, len(names))


def enumerate_family(F, n_max=None, depth_max=None):
    n_max = F.n_max if n_max is None else n_max
    depth_max = F.depth_max if depth_max is None else depth_max
    out = []
    for n in range(0, n_max + 1):
        for R in _blocks(F, F.init, n, depth_max, False, 0):
            if R.brk or R.cont:
                continue
            lines = list(R.lines)
            if R.out is not None:
                ep = F.epilogue(dict(zip(F.idx, R.out)))
                if ep is None:
                    continue
                lines += ep
            elif not lines:
                continue
            size = _size(F, n, lines)
            if size[1] > depth_max:
                continue
            body = "\n".join("    " + ln for ln in lines)
            src = HEADER + F.header + F.sig + "\n" + body + "\n" + F.footer
            tags = tuple(sorted(R.tags | set(F.tags) | ({"diverges"} if R.out is None and "return" not in R.tags else set())))
            out.append(Prog(F.name, src, F.entry, F.exp or R.exp, size, tags))
    return out


# ------------------------------------------------------------------------ families
def _fk(thorough):
    """`for` loops cost ~60 ms each to compile (range iterator): the quick tier only
    enumerates `for` statements with a one-statement body (all of them)."""
    return 99 if thorough else 2


def _ret(expr):
    return lambda env: [f"return {expr}"]


def fam_cf(thorough):
    atoms = [
        A("x += y", {"x": "L", "y": "L"}),
        A("z = x", {"x": "L"}, {"z": "L"}),
        A("y = z", {"z": "L"}, {"y": "L"}),
        A("x = 0", None, {"x": "L"}),
        A("t = (x, y)", {"x": "L", "y": "L"}, {"t": "L"}, tag="tuple"),
        A("x, y = t", {"t": "L"}, {"x": "L", "y": "L"}, tag="unpack"),
        A("return x", {"x": "L"}, kind="return"),
        A("break", kind="break"),
        A("continue", kind="continue"),
    ]
    comp = ("if", "ifelse", "while", "for")
    if thorough:
        atoms += [
            A("x, y = y, x", {"x": "L", "y": "L"}, tag="unpack"),
            A("x = y if a else 0", {"y": "L"}, {"x": "L"}, tag="ifexp"),
            A("x = (z := y) + 1", {"y": "L"}, {"x": "L", "z": "L"}, tag="walrus"),
            A("w = 1.5", None, {"w": "L"}),
            A("x = i", {"i": "L"}, {"x": "L"}),
            A("return y", {"y": "L"}, kind="return"),
        ]
        comp = ("if", "ifelse", "elif", "while", "whiletrue", "for")
    return Family(
        "cf", "@guppy\ndef main(a: bool, b: bool, x: int, y: int) -> int:",
        [Var("a", "bool", "L"), Var("b", "bool", "L"), Var("x", "int", "L"), Var("y", "int", "L"),
         Var("z", "int"), Var("t", "tup"), Var("w", "float"), Var("i", "int")],
        atoms, _ret("x"), compounds=comp, n_max=4 if thorough else 3,
        depth_max=3 if thorough else 2, for_k_max=_fk(thorough))


def _lin_epilogue(env):
    out = []
    if env.get("r") == "L":
        out.append("discard(r)")
    if env["q"] != "L":
        out.append("q = qubit()")
    out.append("return q")
    return out


def fam_lin(thorough):
    atoms = [
        A("h(q)", {"q": "L"}, tag="borrow"),
        A("discard(q)", {"q": "L"}, {"q": "D"}, tag="consume"),
        A("q = qubit()", {"q": "D"}, {"q": "L"}, tag="alloc"),
        A("m = measure(q)", {"q": "L"}, {"q": "D", "m": "L"}, tag="measure"),
        A("r = q", {"q": "L", "r": "D"}, {"q": "D", "r": "L"}, tag="move"),
        A("q = r", {"r": "L", "q": "D"}, {"r": "D", "q": "L"}, tag="move"),
        A("cx(q, r)", {"q": "L", "r": "L"}, tag="borrow"),
        A("return q", {"q": "L"}, {"q": "D"}, kind="return"),
        A("break", kind="break"),
        A("continue", kind="continue"),
    ]
    comp = ("if", "ifelse", "while", "whiletrue", "for")
    if thorough:
        atoms += [
            A("r = qubit()", {"r": "D"}, {"r": "L"}, tag="alloc"),
            A("discard(r)", {"r": "L"}, {"r": "D"}, tag="consume"),
            A("q, r = r, q", {"q": "L", "r": "L"}, tag="unpack"),
            A("q = op(q)", {"q": "L"}, tag="owned-call"),
            A("return r", {"r": "L"}, {"r": "D"}, kind="return"),
        ]
        comp = ("if", "ifelse", "elif", "while", "whiletrue", "for")
    return Family(
        "lin", "@guppy\ndef main(a: bool, b: bool, q: qubit @owned) -> qubit:",
        [Var("a", "bool", "L"), Var("b", "bool", "L"), Var("q", "qubit", "L"), Var("r", "qubit"),
         Var("m", "bool"), Var("i", "int")],
        atoms, _lin_epilogue,
        header="@guppy.declare\ndef op(q: qubit @owned) -> qubit: ...\n\n",
        compounds=comp, n_max=4, depth_max=3 if thorough else 2,
        for_k_max=_fk(thorough), tags=("linear",))


def fam_linb(thorough):
    """Borrowed qubit; `while True:` without break = exit unreachable with borrowed arg."""
    atoms = [
        A("h(q)", {"q": "L"}, tag="borrow"),
        A("r = qubit()", {"r": "D"}, {"r": "L"}, tag="alloc"),
        A("discard(r)", {"r": "L"}, {"r": "D"}, tag="consume"),
        A("cx(q, r)", {"q": "L", "r": "L"}, tag="borrow"),
        A("x += 1", {"x": "L"}),
        A("return x", {"x": "L"}, kind="return"),
        A("break", kind="break"),
        A("continue", kind="continue"),
    ]

    def ep(env):
        return (["discard(r)"] if env["r"] == "L" else []) + ["return x"]
    return Family(
        "linb", "@guppy\ndef main(a: bool, b: bool, q: qubit, x: int) -> int:",
        [Var("a", "bool", "L"), Var("b", "bool", "L"), Var("q", "qubit", "L", borrowed=True),
         Var("r", "qubit"), Var("x", "int", "L"), Var("i", "int")],
        atoms, ep, compounds=("if", "ifelse", "whiletrue") + (("while", "for") if thorough else ()),
        n_max=4 if thorough else 3, depth_max=3 if thorough else 2, tags=("linear", "borrowed"))


def fam_mix(thorough):
    atoms = [
        A("h(q)", {"q": "L"}, tag="borrow"),
        A("discard(q)", {"q": "L"}, {"q": "D"}, tag="consume"),
        A("q = qubit()", {"q": "D"}, {"q": "L"}, tag="alloc"),
        A("xs = array(x, 2)", {"x": "L"}, {"xs": "L"}, tag="array"),
        A("x = xs[0]", {"xs": "L"}, {"x": "L"}, tag="array"),
        A("x += 1", {"x": "L"}),
        A("return q", {"q": "L"}, {"q": "D"}, kind="return"),
        A("break", kind="break"),
    ]
    if thorough:
        atoms += [A("ys = xs", {"xs": "L"}, {"xs": "D", "ys": "L"}, tag="move"),
                  A("z = x", {"x": "L"}, {"z": "L"}),
                  A("x = z", {"z": "L"}, {"x": "L"}),
                  A("continue", kind="continue")]

    def ep(env):
        return (["q = qubit()"] if env["q"] != "L" else []) + ["return q"]
    return Family(
        "mix", "@guppy\ndef main(a: bool, b: bool, q: qubit @owned, x: int) -> qubit:",
        [Var("a", "bool", "L"), Var("b", "bool", "L"), Var("q", "qubit", "L"), Var("x", "int", "L"),
         Var("xs", "arr"), Var("ys", "arr"), Var("z", "int"), Var("i", "int")],
        atoms, ep, compounds=("if", "ifelse", "while") + (("for", "whiletrue") if thorough else ()),
        n_max=4 if thorough else 3, depth_max=2, tags=("linear", "array"))


STRUCT_HDR = "@guppy.struct\nclass S:\n    n: int\n    q: qubit\n\n"


def fam_struct(thorough):
    atoms = [
        A("h(s.q)", {"s": "L"}, tag="field-borrow"),
        A("discard(s.q)", {"s": "L"}, {"s": "H"}, tag="partial-move"),
        A("s.q = qubit()", {"s": "H"}, {"s": "L"}, tag="field-assign"),
        A("q = s.q", {"s": "L", "q": "D"}, {"s": "H", "q": "L"}, tag="partial-move"),
        A("s.q = q", {"s": "H", "q": "L"}, {"s": "L", "q": "D"}, tag="field-assign"),
        A("x = s.n", {"s": "LH"}, {"x": "L"}, tag="field-read"),
        A("s = S(x, qubit())", {"s": "DH", "x": "L"}, {"s": "L"}, tag="struct-new"),
        A("return s", {"s": "L"}, {"s": "D"}, kind="return"),
        A("break", kind="break"),
        A("continue", kind="continue"),
    ]
    if thorough:
        atoms += [
            A("t = s", {"s": "L", "t": "D"}, {"s": "D", "t": "L"}, tag="move"),
            A("s = t", {"t": "L", "s": "DH"}, {"t": "D", "s": "L"}, tag="move"),
            A("s = S(s.n, s.q)", {"s": "L"}, tag="struct-new"),
            A("x += 1", {"x": "L"}),
        ]

    def ep(env):
        out = []
        if env["q"] == "L":
            out.append("discard(q)")
        if env.get("t") == "L":
            out.append("discard(t.q)")
        if env["s"] == "H":
            out.append("s.q = qubit()")
        elif env["s"] == "D":
            out.append("s = S(0, qubit())")
        return out + ["return s"]
    return Family(
        "struct", "@guppy\ndef main(a: bool, b: bool, s: S @owned, x: int) -> S:",
        [Var("a", "bool", "L"), Var("b", "bool", "L"), Var("s", "S", "L"), Var("x", "int", "L"),
         Var("q", "qubit"), Var("t", "S"), Var("i", "int")],
        atoms, ep, header=STRUCT_HDR,
        compounds=("if", "ifelse", "while", "for") + (("whiletrue",) if thorough else ()),
        n_max=4, depth_max=3 if thorough else 2, for_k_max=_fk(thorough),
        tags=("struct", "linear"))


STRUCT2_HDR = STRUCT_HDR + '''@guppy.struct
class O:
    inner: S
    k: int

@guppy
def eat_o(o: O @owned) -> None:
    discard(o.inner.q)

@guppy
def eat_s(s: S @owned) -> None:
    discard(s.q)

@guppy
def touch_o(o: O) -> None:
    h(o.inner.q)

'''


def fam_struct2(thorough):
    """struct nested two levels deep with a qubit leaf: whole / mid-level / leaf moves and
    leaf / mid-level reassignments in every order (H = the qubit leaf is moved out)."""
    atoms = [
        A("eat_o(o)", {"o": "L"}, {"o": "H"}, tag="whole-move"),
        A("eat_s(o.inner)", {"o": "L"}, {"o": "H"}, tag="mid-move"),
        A("discard(o.inner.q)", {"o": "L"}, {"o": "H"}, tag="leaf-move"),
        A("o.inner.q = qubit()", {"o": "H"}, {"o": "L"}, tag="deep-field-assign"),
        A("o.inner = S(x, qubit())", {"o": "H", "x": "L"}, {"o": "L"}, tag="mid-field-assign"),
        A("h(o.inner.q)", {"o": "L"}, tag="field-borrow"),
        A("touch_o(o)", {"o": "L"}, tag="whole-borrow"),
        A("x = o.inner.n + o.k", {"o": "LH"}, {"x": "L"}, tag="field-read"),
        A("return o", {"o": "L"}, {"o": "D"}, kind="return"),
        A("break", kind="break"),
    ]
    if thorough:
        atoms += [A("continue", kind="continue"),
                  A("o = O(S(x, qubit()), x)", {"o": "H", "x": "L"}, {"o": "L"}, tag="struct-new")]

    def ep(env):
        out = []
        if env["o"] == "H":
            out.append("o.inner.q = qubit()")
        elif env["o"] == "D":
            out.append("o = O(S(0, qubit()), 1)")
        return out + ["return o"]
    return Family(
        "struct2", "@guppy\ndef main(a: bool, b: bool, o: O @owned, x: int) -> O:",
        [Var("a", "bool", "L"), Var("b", "bool", "L"), Var("o", "O", "L"), Var("x", "int", "L"), Var("i", "int")],
        atoms, ep, header=STRUCT2_HDR, compounds=("if", "ifelse", "while"),
        n_max=4 if thorough else 3, depth_max=2, tags=("struct", "linear", "nested-struct"))


def fam_structb(thorough):
    atoms = [
        A("h(s.q)", {"s": "L"}, tag="field-borrow"),
        A("discard(s.q)", {"s": "L"}, {"s": "H"}, tag="partial-move"),
        A("s.q = qubit()", {"s": "H"}, {"s": "L"}, tag="field-assign"),
        A("x = s.n", {"s": "LH"}, {"x": "L"}, tag="field-read"),
        A("return x", {"x": "L"}, kind="return"),
        A("break", kind="break"),
    ]
    if thorough:
        atoms += [A("continue", kind="continue"),
                  A("p.s.q = qubit()", {"p": "H"}, {"p": "L"}, tag="field-assign"),
                  A("discard(p.s.q)", {"p": "L"}, {"p": "H"}, tag="partial-move"),
                  A("x = p.s.n + p.k", {"p": "LH"}, {"x": "L"}, tag="field-read")]

    def ep(env):
        out = []
        if env["s"] == "H":
            out.append("s.q = qubit()")
        if env["p"] == "H":
            out.append("p.s.q = qubit()")
        return out + ["return x"]
    return Family(
        "structb", "@guppy\ndef main(a: bool, b: bool, s: S, p: P, x: int) -> int:",
        [Var("a", "bool", "L"), Var("b", "bool", "L"), Var("s", "S", "L", borrowed=True),
         Var("p", "S", "L", borrowed=True), Var("x", "int", "L"), Var("i", "int")],
        atoms, ep, header=STRUCT_HDR + "@guppy.struct\nclass P:\n    s: S\n    k: int\n\n",
        compounds=("if", "ifelse", "while", "whiletrue") + (("for",) if thorough else ()),
        n_max=4 if thorough else 3, depth_max=3 if thorough else 2,
        tags=("struct", "linear", "borrowed"))


def fam_arr(thorough):
    atoms = [
        A("xs = array(1, 2, 3)", None, {"xs": "L"}, tag="array-new"),
        A("x = xs[0]", {"xs": "L"}, {"x": "L"}, tag="array-read"),
        A("xs[i] = x", {"xs": "L", "i": "L", "x": "L"}, tag="array-write"),
        A("x = xs[i]", {"xs": "L", "i": "L"}, {"x": "L"}, tag="array-read"),
        A("ys = xs", {"xs": "L"}, {"xs": "D", "ys": "L"}, tag="move"),
        A("xs = ys", {"ys": "L"}, {"ys": "D", "xs": "L"}, tag="move"),
        A("return x", {"x": "L"}, kind="return"),
        A("break", kind="break"),
    ]
    if thorough:
        atoms += [A("xs[0] = x + 1", {"xs": "L", "x": "L"}, tag="array-write"),
                  A("x += 1", {"x": "L"}),
                  A("xs = xs.copy()", {"xs": "L"}, tag="array-copy"),
                  A("continue", kind="continue")]
    return Family(
        "arr", "@guppy\ndef main(a: bool, b: bool, i: int, x: int) -> int:",
        [Var("a", "bool", "L"), Var("b", "bool", "L"), Var("i", "int", "L"), Var("x", "int", "L"),
         Var("xs", "arr"), Var("ys", "arr")],
        atoms, _ret("x"), compounds=("if", "ifelse", "while", "for"),
        n_max=4 if thorough else 3, depth_max=3 if thorough else 2, range_arg="3",
        for_k_max=_fk(thorough), tags=("array",))


def fam_arrr(thorough):
    """Array parameter (owned) that is returned / replaced / dropped."""
    atoms = [
        A("xs = array(x, x, x)", {"x": "L"}, {"xs": "L"}, tag="array-new"),
        A("xs[0] = x", {"xs": "L", "x": "L"}, tag="array-write"),
        A("x = xs[1]", {"xs": "L"}, {"x": "L"}, tag="array-read"),
        A("ys = xs", {"xs": "L"}, {"xs": "D", "ys": "L"}, tag="move"),
        A("return xs", {"xs": "L"}, {"xs": "D"}, kind="return"),
        A("return ys", {"ys": "L"}, {"ys": "D"}, kind="return"),
        A("break", kind="break"),
    ]

    def ep(env):
        return (["xs = array(0, 0, 0)"] if env["xs"] != "L" else []) + ["return xs"]
    return Family(
        "arrr", "@guppy\ndef main(a: bool, b: bool, xs: array[int, 3] @owned, x: int) -> array[int, 3]:",
        [Var("a", "bool", "L"), Var("b", "bool", "L"), Var("xs", "arr", "L"), Var("x", "int", "L"),
         Var("ys", "arr"), Var("i", "int")],
        atoms, ep, compounds=("if", "ifelse", "while"),
        n_max=4 if thorough else 3, depth_max=2, tags=("array",))


def fam_arrq(thorough):
    atoms = [
        A("h(qs[0])", {"qs": "L"}, tag="array-borrow"),
        A("cx(qs[0], qs[1])", {"qs": "L"}, tag="array-borrow"),
        A("h(qs[i])", {"qs": "L", "i": "L"}, tag="array-borrow"),
        A("discard_array(qs)", {"qs": "L"}, {"qs": "D"}, tag="consume"),
        A("qs = array(qubit(), qubit())", {"qs": "D"}, {"qs": "L"}, tag="array-new"),
        A("rs = qs", {"qs": "L", "rs": "D"}, {"qs": "D", "rs": "L"}, tag="move"),
        A("qs = rs", {"rs": "L", "qs": "D"}, {"rs": "D", "qs": "L"}, tag="move"),
        A("return qs", {"qs": "L"}, {"qs": "D"}, kind="return"),
        A("break", kind="break"),
    ]
    if thorough:
        atoms += [A("ms = measure_array(qs)", {"qs": "L"}, {"qs": "D", "ms": "L"}, tag="measure"),
                  A("continue", kind="continue")]

    def ep(env):
        out = []
        if env["rs"] == "L":
            out.append("discard_array(rs)")
        if env["qs"] != "L":
            out.append("qs = array(qubit(), qubit())")
        return out + ["return qs"]
    return Family(
        "arrq", "@guppy\ndef main(a: bool, b: bool, qs: array[qubit, 2] @owned, i: int) -> array[qubit, 2]:",
        [Var("a", "bool", "L"), Var("b", "bool", "L"), Var("qs", "qarr", "L"), Var("rs", "qarr"),
         Var("i", "int", "L"), Var("ms", "arr")],
        atoms, ep, compounds=("if", "ifelse", "while", "for"),
        n_max=4 if thorough else 3, depth_max=2, for_k_max=_fk(thorough), tags=("array", "linear"))


def fam_arrs(thorough):
    """Struct with an (affine) array field: `s.xs` assigned in loops, borrowed struct."""
    atoms = [
        A("s.xs = array(x, 2)", {"s": "LH", "x": "L"}, {"s": "L"}, tag="field-assign"),
        A("s.xs[0] = x", {"s": "L", "x": "L"}, tag="field-write"),
        A("x = s.xs[1] + s.n", {"s": "L"}, {"x": "L"}, tag="field-read"),
        A("ys = s.xs", {"s": "L"}, {"s": "H", "ys": "L"}, tag="partial-move"),
        A("s.xs = ys", {"s": "LH", "ys": "L"}, {"s": "L", "ys": "D"}, tag="field-assign"),
        A("return x", {"x": "L"}, kind="return"),
        A("break", kind="break"),
    ]

    def ep(env):
        return (["s.xs = array(0, 0)"] if env["s"] == "H" else []) + ["return x"]
    return Family(
        "arrs", "@guppy\ndef main(a: bool, b: bool, s: SA, x: int) -> int:",
        [Var("a", "bool", "L"), Var("b", "bool", "L"), Var("s", "S", "L", borrowed=True),
         Var("x", "int", "L"), Var("ys", "arr"), Var("i", "int")],
        atoms, ep, header="@guppy.struct\nclass SA:\n    xs: array[int, 2]\n    n: int\n\n",
        compounds=("if", "ifelse", "while", "for"),
        n_max=4 if thorough else 3, depth_max=2, for_k_max=_fk(thorough), tags=("struct", "array"))


GEN_HDR = '''@guppy
def ident[T](x: T @owned) -> T:
    return x

@guppy
def first[T: Copy, n: nat](xs: array[T, n]) -> T:
    return xs[0]

@guppy
def size[T, n: nat](xs: array[T, n]) -> int:
    return int(n)

@guppy
def cst[n: nat]() -> int:
    return int(n)

@guppy
def ct(n: nat @comptime) -> int:
    return int(n) + 1

@guppy
def pick[T](c: bool, x: T @owned, n: nat @comptime) -> T:
    if c:
        return ident(x)
    return x

'''


def fam_gen(thorough):
    atoms = [
        A("x = ident(x)", {"x": "L"}, tag="inst-int"),
        A("q = ident(q)", {"q": "L"}, tag="inst-qubit"),
        A("xs = array(x, 1)", {"x": "L"}, {"xs": "L"}, tag="array-new"),
        A("xs = ident(xs)", {"xs": "L"}, tag="inst-array"),
        A("x = first(xs)", {"xs": "L"}, {"x": "L"}, tag="inst-nat2"),
        A("x = first(array(x, x, x))", {"x": "L"}, tag="inst-nat3"),
        A("x = size(xs)", {"xs": "L"}, {"x": "L"}, tag="inst-nat2"),
        A("x = cst[2]()", None, {"x": "L"}, tag="explicit-nat"),
        A("x = ct(3)", None, {"x": "L"}, tag="comptime-arg"),
        A("q = pick(a, q, 1)", {"q": "L"}, tag="partial-mono"),
        A("x = pick(b, x, 2)", {"x": "L"}, tag="partial-mono"),
        A("return q", {"q": "L"}, {"q": "D"}, kind="return"),
        A("u = ident(None)", None, None, tag="inst-none"),
        A("tt = ident((x, 2))", {"x": "L"}, None, tag="inst-tuple"),
        A("e = ident(())", None, None, tag="inst-unit-tuple"),
        A("u = pick(a, None, 1)", None, None, tag="inst-none"),
        A("fb = ident(a)", None, None, tag="inst-bool"),
    ]
    if thorough:
        atoms += [A("w = ident(1.5)", None, {"w": "L"}, tag="inst-float"),
                  A("x = cst[3]()", None, {"x": "L"}, tag="explicit-nat"),
                  A("q = pick(a, q, 2)", {"q": "L"}, tag="partial-mono"),
                  A("break", kind="break")]
    return Family(
        "gen", "@guppy\ndef main(a: bool, b: bool, q: qubit @owned, x: int) -> qubit:",
        [Var("a", "bool", "L"), Var("b", "bool", "L"), Var("q", "qubit", "L"), Var("x", "int", "L"),
         Var("xs", "arr"), Var("w", "float"), Var("i", "int")],
        atoms, _ret("q"), header=GEN_HDR, compounds=("if", "ifelse", "while"),
        n_max=3 if thorough else 2, depth_max=2 if thorough else 1, tags=("generic-calls",))


POLY_HDR = '''@guppy
def ident[T](x: T @owned) -> T:
    return x

@guppy.declare
def sink[T](x: T @owned) -> None: ...

'''


def _polyl_atoms():
    return [
        A("x = ident(x)", {"x": "L"}, tag="generic-call"),
        A("x, y = y, x", {"x": "L", "y": "L"}, tag="unpack"),
        A("sink(y)", {"y": "L"}, {"y": "D"}, tag="consume"),
        A("y = x", {"x": "L", "y": "D"}, {"x": "D", "y": "L"}, tag="move"),
        A("x = y", {"y": "L", "x": "D"}, {"y": "D", "x": "L"}, tag="move"),
        A("return x", {"x": "L"}, {"x": "D"}, kind="return"),
        A("break", kind="break"),
    ]


def _polyl_ep(env):
    if env["x"] == "L":
        return (["sink(y)"] if env["y"] == "L" else []) + ["return x"]
    if env["y"] == "L":
        return ["return y"]
    return None


def fam_polyl(thorough, variant):
    """Generic body over a LINEAR type variable.
    variant 'poly': main compiled directly (stays polymorphic in HUGR)
            'inst': compiled through a caller instantiating T at qubit and at int
            'part': extra `n: nat @comptime` parameter; caller fixes n, T stays generic"""
    vs = [Var("a", "bool", "L"), Var("b", "bool", "L"), Var("x", "T", "L"), Var("y", "T", "L"),
          Var("i", "int")]
    kw = dict(header=POLY_HDR, compounds=("if", "ifelse", "while") + (("whiletrue",) if thorough else ()),
              n_max=4 if thorough or variant == "poly" else 3, depth_max=2)
    if variant == "poly":
        return Family("polyl", "@guppy\ndef main[T](a: bool, b: bool, x: T @owned, y: T @owned) -> T:",
                      vs, _polyl_atoms(), _polyl_ep, tags=("generic-body", "polymorphic", "linear"), **kw)
    if variant == "inst":
        return Family("polyl-inst", "@guppy\ndef main[T](a: bool, b: bool, x: T @owned, y: T @owned) -> T:",
                      vs, _polyl_atoms(), _polyl_ep, entry="caller",
                      footer="\n@guppy\ndef caller(a: bool, b: bool, q: qubit @owned, r: qubit @owned) -> qubit:\n"
                             "    main(a, b, 1, 2)\n    return main(a, b, q, r)\n",
                      tags=("generic-body", "instantiated", "linear"), **kw)
    return Family("polyl-part", "@guppy\ndef main[T](a: bool, b: bool, x: T @owned, y: T @owned, n: nat @comptime) -> T:",
                  vs, _polyl_atoms() + [A("x = main(b, a, x, ident(y), n)", {"x": "L", "y": "L"}, {"y": "D"}, tag="recursion")],
                  _polyl_ep, entry="caller",
                  footer="\n@guppy\ndef caller[T](a: bool, b: bool, x: T @owned, y: T @owned) -> T:\n"
                         "    if a:\n        return main(a, b, x, y, 2)\n    return main(a, b, x, y, 3)\n",
                  tags=("generic-body", "partial-mono", "linear"), **kw)


def fam_polyc(thorough):
    """Generic body over a copyable+droppable type variable, polymorphic entry."""
    atoms = [
        A("x = y", {"y": "L"}, {"x": "L"}),
        A("z = x", {"x": "L"}, {"z": "L"}),
        A("y = z", {"z": "L"}, {"y": "L"}),
        A("t = (x, y)", {"x": "L", "y": "L"}, {"t": "L"}, tag="tuple"),
        A("x, y = t", {"t": "L"}, {"x": "L", "y": "L"}, tag="unpack"),
        A("xs = array(x, y)", {"x": "L", "y": "L"}, {"xs": "L"}, tag="array-new"),
        A("x = xs[0]", {"xs": "L"}, {"x": "L"}, tag="array-read"),
        A("return x", {"x": "L"}, kind="return"),
        A("break", kind="break"),
    ]
    return Family(
        "polyc", "@guppy\ndef main[T: (Copy, Drop)](a: bool, b: bool, x: T, y: T) -> T:",
        [Var("a", "bool", "L"), Var("b", "bool", "L"), Var("x", "Tc", "L"), Var("y", "Tc", "L"),
         Var("z", "Tc"), Var("t", "tup"), Var("xs", "arr"), Var("i", "int")],
        atoms, _ret("x"), compounds=("if", "ifelse", "while"),
        n_max=4 if thorough else 3, depth_max=2, tags=("generic-body", "polymorphic"))


def fam_polyn(thorough, variant):
    """nat-generic / comptime-argument bodies.
    'gen' : def main[n: nat](..., xs: array[int, n] @owned) compiled directly
    'ct'  : def main(n: nat @comptime, ...) compiled through callers with 2 values of n
    'both': def main[T: Drop](n: nat @comptime, v: T @owned ...) through generic caller:
            n is monomorphised, T stays polymorphic (partial monomorphisation)"""
    atoms = [
        A("x += int(n)", {"x": "L"}, tag="nat-use"),
        A("xs[0] = x", {"xs": "L", "x": "L"}, tag="array-write"),
        A("x = xs[0]", {"xs": "L"}, {"x": "L"}, tag="array-read"),
        A("xs = array(x for _ in range(n))", {"x": "L"}, {"xs": "L"}, tag="array-comp"),
        A("ys = xs", {"xs": "L"}, {"xs": "D", "ys": "L"}, tag="move"),
        # a builtin (custom) function loaded as a VALUE is compiled under its own monomorphisation in the middle
        # of this generic body
        A("q0 = qubit()\ngate(h, q0)\ndiscard(q0)", None, None, tag="builtin-as-value"),
        A("return x", {"x": "L"}, kind="return"),
        A("break", kind="break"),
    ]
    gate_hdr = "from collections.abc import Callable\n\n@guppy\ndef gate(f: Callable[[qubit], None], q: qubit) -> None:\n    f(q)\n\n"
    vs = [Var("a", "bool", "L"), Var("b", "bool", "L"), Var("x", "int", "L"), Var("xs", "arr", "L"),
          Var("ys", "arr"), Var("i", "int")]
    kw = dict(compounds=("if", "ifelse", "while", "for"), depth_max=2, range_arg="n",
              n_max=4 if thorough else (3 if variant == "gen" else 2), for_k_max=_fk(thorough))
    if variant != "both":
        kw["header"] = gate_hdr
    if variant == "gen":
        return Family("polyn", "@guppy\ndef main[n: nat](a: bool, b: bool, x: int, xs: array[int, n] @owned) -> int:",
                      vs, atoms, _ret("x"), tags=("generic-body", "polymorphic", "nat-param"), **kw)
    if variant == "ct":
        return Family("polyn-ct", "@guppy\ndef main(n: nat @comptime, a: bool, b: bool, x: int, xs: array[int, n] @owned) -> int:",
                      vs, atoms, _ret("x"), entry="caller",
                      footer="\n@guppy\ndef caller(a: bool, b: bool) -> int:\n"
                             "    return main(2, a, b, 0, array(1, 2)) + main(3, b, a, 1, array(1, 2, 3))\n",
                      tags=("generic-body", "comptime-arg", "instantiated"), **kw)
    atoms = atoms + [A("v = ident(v)", {"v": "L"}, tag="generic-call")]
    vs = vs + [Var("v", "A", "L")]
    return Family("polyn-part", "@guppy\ndef main[T: Drop](n: nat @comptime, a: bool, b: bool, x: int, xs: array[int, n] @owned, v: T @owned) -> int:",
                  vs, atoms, _ret("x"), entry="caller",
                  header=gate_hdr + "@guppy\ndef ident[T](x: T @owned) -> T:\n    return x\n\n",
                  footer="\n@guppy\ndef caller[T: Drop](a: bool, b: bool, v: T @owned, w: T @owned) -> int:\n"
                         "    return main(2, a, b, 0, array(1, 2), v) + main(3, b, a, 1, array(1, 2, 3), w)\n",
                  tags=("generic-body", "partial-mono"), **kw)


def fam_nest(thorough):
    atoms = [
        A("def f(v: int) -> int:\n    return v + 1", None, {"f": "L"}, tag="nested-def"),
        A("def f(v: int) -> int:\n    return v + y", {"y": "L"}, {"f": "L"}, tag="closure", exp=True),
        A("def f(v: int) -> int:\n    if v > 0:\n        return f(v - 1)\n    return v", None, {"f": "L"},
          tag="nested-rec"),
        A("x = f(x)", {"f": "L", "x": "L"}, tag="nested-call"),
        A("y += 1", {"y": "L"}),
        A("g = f", {"f": "L"}, {"g": "L"}, tag="fn-value"),
        A("x = g(y)", {"g": "L", "y": "L"}, {"x": "L"}, tag="fn-value"),
        A("return x", {"x": "L"}, kind="return"),
    ]
    if thorough:
        atoms += [
            A("def g(v: int) -> int:\n    return f(v) + x", {"f": "L", "x": "L"}, {"g": "L"},
              tag="closure", exp=True),
            A("def f(v: int) -> int:\n    def k(u: int) -> int:\n        return u + y\n    return k(v)",
              {"y": "L"}, {"f": "L"}, tag="closure", exp=True),
            A("break", kind="break"),
        ]
    return Family(
        "nest", "@guppy\ndef main(a: bool, b: bool, x: int, y: int) -> int:",
        [Var("a", "bool", "L"), Var("b", "bool", "L"), Var("x", "int", "L"), Var("y", "int", "L"),
         Var("f", "fn"), Var("g", "fn"), Var("i", "int")],
        atoms, _ret("x"), compounds=("if", "ifelse", "while") + (("for",) if thorough else ()),
        n_max=4 if thorough else 3, depth_max=2, tags=("nested",))


def fam_nestq(thorough):
    """Nested function taking / returning qubits (non-capturing), called in branches."""
    atoms = [
        A("def f(r: qubit @owned) -> qubit:\n    h(r)\n    return r", None, {"f": "L"}, tag="nested-def"),
        A("def g(r: qubit) -> None:\n    if a:\n        h(r)", None, {"g": "L"}, tag="closure", exp=True),
        A("q = f(q)", {"f": "L", "q": "L"}, tag="nested-call"),
        A("g(q)", {"g": "L", "q": "L"}, tag="nested-call"),
        A("discard(q)", {"q": "L"}, {"q": "D"}, tag="consume"),
        A("q = qubit()", {"q": "D"}, {"q": "L"}, tag="alloc"),
        A("return q", {"q": "L"}, {"q": "D"}, kind="return"),
    ]

    def ep(env):
        return (["q = qubit()"] if env["q"] != "L" else []) + ["return q"]
    return Family(
        "nestq", "@guppy\ndef main(a: bool, b: bool, q: qubit @owned) -> qubit:",
        [Var("a", "bool", "L"), Var("b", "bool", "L"), Var("q", "qubit", "L"), Var("f", "fn"),
         Var("g", "fn"), Var("i", "int")],
        atoms, ep, compounds=("if", "ifelse", "while"),
        n_max=4 if thorough else 3, depth_max=2, tags=("nested", "linear"))


# --------------------------------------------------------------- explicit products
# Feature statements: each one is self-contained in the environment of FEAT_SIG (it
# restores every borrowed value it touches and consumes every linear local it makes).
FEAT_STMTS = [
    # --- tuples / structs / options holding linear values
    ("tuple-lin", "tq = (qubit(), qubit())\nh(tq[0])\ncx(tq[0], tq[1])\nq1, q2 = tq\ndiscard(q1)\ndiscard(q2)"),
    ("tuple-lin-partial", "tq = (qubit(), x)\ndiscard(tq[0])\nx = tq[1]"),
    ("tuple-lin-nested", "tq = ((qubit(), 1), qubit())\n(q1, k), q2 = tq\ndiscard(q1)\ndiscard(q2)\nx += k"),
    ("tuple-lin-index-move", "tq = (qubit(), qubit())\nq1 = tq[0]\ndiscard(tq[1])\ndiscard(q1)"),
    ("option-int", "o: Option[int] = some(x)\nif o.is_some():\n    x = o.unwrap()"),
    ("option-qubit", "oq = some(qubit())\ndiscard(oq.unwrap())"),
    ("option-nothing", "on: Option[qubit] = nothing()\non.unwrap_nothing()"),
    ("option-take", "ot: Option[int] = some(y)\nx = ot.take().unwrap()"),
    ("struct-lin-new", "s1 = S(x, qubit())\nh(s1.q)\ndiscard(s1.q)"),
    ("struct-lin-unpack-call", "s1 = S(x, qubit())\nx = eat(s1)"),
    ("struct-borrow-call", "touch(s)"),
    ("struct-field-swap", "r1 = s.q\nh(r1)\ns.q = r1"),
    ("struct-field-realloc", "discard(s.q)\ns.q = qubit()"),
    ("struct-field-read", "x = s.n + sa.n"),
    ("struct-arr-field-write", "sa.xs[0] = x"),
    ("struct-arr-field-assign", "sa.xs = array(x, y)"),
    ("struct-arr-field-read", "x = sa.xs[1]"),
    ("struct-arr-field-move", "tmp = sa.xs\nsa.xs = tmp"),
    ("struct-generic", "pr = Pair(x, qubit())\nh(pr.b)\nx = pr.a\ndiscard(pr.b)"),
    # projections applied directly to a value that is NOT a place (call results, constructor calls), generic and not
    ("project-from-generic-call", "x = mkpair(x, 1.5).a"),
    ("project-second-from-generic-call", "fl = mkpair(x, 1.5).b\nx = int(fl)"),
    ("project-linear-from-generic-call", "r9 = mkpair(x, qubit()).b\ndiscard(r9)"),
    ("project-from-generic-constructor", "x = Pair(x, True).a"),
    ("project-nested-generic-calls", "x = mkpair(mkpair(x, 1.5), True).a.a"),
    ("project-from-call", "x = mkp2(x).v"),
    ("project-from-constructor", "x = P2(x, 1).u"),
    ("method-on-call-result", "x = mkp2(x).sum()"),
    ("project-from-tuple-call", "x = mktup(x)[1]"),
    ("project-from-generic-call-in-argument", "x = helper(mkpair(x, 2).b, mkpair(1.5, x).b)"),
    ("struct-nested", "ns = NS(S(x, qubit()), y)\nh(ns.s.q)\ndiscard(ns.s.q)\nns.s.q = qubit()\nx = eat(ns.s)"),
    # --- arrays
    ("arr-borrowed-read", "x = xs[0] + xs[y]"),
    ("arr-borrowed-write", "xs[0] = x\nxs[y] = 1"),
    ("arr-swap-unpack", "xs[0], xs[1] = xs[1], xs[0]"),
    ("arr-aug-subscript", "xs[0] += 1"),
    ("arr-copy", "ys = xs.copy()\nx = ys[0]"),
    ("arr-len", "x = len(xs) + len(qs)"),
    ("arr-2d", "xss = array(array(1, 2), array(3, 4))\nxss[0][1] = x\nx = xss[1][0]"),
    ("arr-2d-row", "xss = array(array(1, 2), array(3, 4))\nxss[0] = array(x, y)\nx = xss[0][0]"),
    ("arr-of-struct", "ss = array(S(1, qubit()), S(2, qubit()))\nh(ss[0].q)\nfor e in ss:\n    discard(e.q)"),
    ("arr-of-tuple", "ts = array((1, True), (2, False))\nk, c = ts[1]\nx += k"),
    ("arr-comp", "zs = array(i + x for i in range(3))\nx = zs[1]"),
    ("arr-comp-over-arr", "zs = array(v + 1 for v in xs.copy())\nx = zs[0]"),
    ("arr-comp-nested", "m = array(array(i * j for i in range(2)) for j in range(3))\nx = m[1][1]"),
    ("arr-comp-qubits", "rs = array(qubit() for _ in range(3))\nh(rs[1])\ndiscard_array(rs)"),
    ("arr-measure", "ms = measure_array(array(qubit() for _ in range(2)))\nif ms[0]:\n    x = 1"),
    ("arr-for-consume", "for r in array(qubit(), qubit()):\n    discard(r)"),
    ("arr-for-break", "for row in array(array(1, 2), array(3, 4)):\n    x += row[0]\n    if a:\n        break"),
    ("arr-for-int", "for v in array(1, 2, 3):\n    x += v"),
    ("arr-unpack", "u, v, w = array(1, 2, 3)\nx = u + v + w"),
    ("arr-unpack-star", "u, *rest = array(1, 2, 3)\nx = u + rest[0]"),
    ("arr-qs-borrow", "h(qs[0])\ncx(qs[0], qs[2])\nh(qs[x])"),
    ("arr-qs-swap", "mem_swap(qs[0], qs[1])"),
    ("arr-drop", "dd = array(x, y)"),
    ("arr-generic-call", "x = first(xs) + size(xs) + size(qs)"),
    # --- qubits
    ("mem-swap", "r1 = qubit()\nmem_swap(q, r1)\ndiscard(r1)"),
    ("owned-call", "r1 = qubit()\nr1 = op(r1)\ndiscard(r1)"),
    ("qubit-temp", "discard(qubit())"),
    ("measure-cond", "if measure(qubit()):\n    x = 1"),
    ("measure-while", "while measure(qubit()):\n    x += 1"),
    ("ifexp-linear", "r1 = qubit() if a else op(qubit())\ndiscard(r1)"),
    ("short-circuit-linear", "c = a and measure(qubit())\nif c or measure(qubit()):\n    x = 0"),
    ("reset-borrow", "reset(q)\nh(q)\ncx(q, qs[1])"),
    ("tuple-fn-lin", "r1, k = mkq(x)\ndiscard(r1)\nx = k"),
    ("barrier", "barrier(q, qs[0])"),
    # --- functions
    ("fn-value", "f = helper\nx = f(x, y)"),
    ("fn-ifexp", "f = helper if a else helper2\nx = f(x, y)"),
    ("higher-order", "x = apply(helper, x)"),
    ("higher-order-nested", "def loc(u: int, v: int) -> int:\n    return u - v\nx = apply(loc, x)"),
    ("generic-call", "x = ident(x)\nr1 = ident(qubit())\ndiscard(r1)"),
    ("generic-explicit", "x = ident[int](x)"),
    ("generic-fn-value", "f = ident[int]\nx = f(x)"),
    ("nested-def", "def loc(v: int) -> int:\n    return v + 1\nx = loc(x)"),
    ("nested-def-borrow", "def loc(r: qubit) -> None:\n    h(r)\nloc(q)\nloc(qs[0])\nloc(s.q)"),
    ("nested-def-cf", "def loc(v: int, c: bool) -> int:\n    while c:\n        if v > 3:\n            return v\n        v += 1\n    return 0\nx = loc(x, a)"),
    ("nested-generic-use", "def loc(v: int) -> int:\n    return ident(v)\nx = loc(x)"),
    ("closure", "def loc(v: int) -> int:\n    return v + y\nx = loc(x)", True),
    ("closure-modified", "def loc(v: int) -> int:\n    return v + y\ny += 1\nx = loc(x)", True),
    ("method-call", "x = P2(x, y).sum()"),
    ("call-toplevel", "x = helper(x, y)"),
    ("call-bool", "c = pred(x)\nif c:\n    x = 0"),
    ("none-fn", "noop()"),
    ("recursion", "x = fact(x)"),
    ("comptime-arg-call", "x = ct(3) + cst[2]()"),
    # --- classical expression kinds
    ("ifexp", "x = y if a else x"),
    ("ifexp-nested", "x = (y if a else x) if b else (x if a else 0)"),
    ("walrus", "x = (z := y + 1) * z"),
    ("walrus-cond", "if (z := x + 1) > y:\n    x = z"),
    ("not-walrus", "if not (c := x > 0):\n    x = 1\nif c:\n    x = 2"),
    ("augassign", "x += y\nx -= 1\nx *= 2\nx //= 3\nx %= 5\nx <<= 1\nx >>= 1\nx |= 1\nx &= 7\nx ^= y"),
    ("float", "w = 1.5\nw = w * x + w / 2.0\nx = int(w)"),
    ("pow", "x = x ** 2"),
    ("conversions", "w = float(x)\nk = nat(3)\nc = bool(x)\nx = int(w) + int(k) + int(c)"),
    ("num-builtins", "x = abs(x)\nu, v = divmod(x, 3)\nx = u + v\nw2 = pow(2, 3)\nw3 = round(1.5)"),
    ("tuple-nested", "t = ((x, y), (a, 1.5))\n(x, y), (c, w) = t"),
    ("tuple-swap", "x, y = y, x"),
    ("tuple-star", "x, *r = (x, y, 3)\ny, z = r"),
    ("tuple-index", "t = (x, y)\nx = t[1]"),
    ("underscore", "_ = x\n_, x = (1, y)"),
    ("boolops", "c = a and b or not a\nif c and (x > y or x == 0):\n    x = 1"),
    ("compare-chain", "if 0 <= x < y:\n    x = y"),
    ("unary", "x = -x + +y + ~x"),
    ("range-2", "for i in range(1, 4):\n    x += i"),
    ("result", "result(\"t\", x)\nresult(\"u\", a)\nresult(\"v\", 1.5)\nresult(\"w\", xs)"),
    ("panic", "if x > 100:\n    panic(\"boom\")"),
    ("exit", "if x > 100:\n    exit(\"bye\", 1)"),
    ("string", "st = \"hello\""),
    ("pass", "pass"),
    ("docstring-expr", "\"a docstring-like expression statement\""),
    ("while-cond-expr", "while x < y and a:\n    x += 1"),
    ("while-break-deep", "while x > 0:\n    x -= 1\n    if x == 3:\n        break"),
    ("int-div-float", "w = x / y"),
    ("mixed-arith", "w = x + 1.5"),
    ("comptime-expr", "x = comptime(1 + 2)"),
    ("comptime-list", "cs = comptime([1, 2, 3])\nx = cs[0]"),
    ("annotated-assign", "k: int = x\nw: float = 1.0\nx = k"),
    # --- rebinding the name of a borrowed parameter
    ("rebind-borrowed-def", "def q() -> None:\n    pass"),
    ("rebind-borrowed-def-struct", "def sa() -> None:\n    pass"),
    ("rebind-borrowed-def-array", "def xs(v: int) -> int:\n    return v"),
    ("rebind-borrowed-for", "for xs in range(2):\n    pass"),
    ("rebind-borrowed-assign", "xs = array(1, 2, 3)"),
    ("rebind-borrowed-assign-type", "xs = 0"),
    ("rebind-copyable-def", "def y() -> None:\n    pass"),
    # --- modifiers (experimental)
    ("with-control", "with control(q):\n    h(qs[0])", True),
    ("with-dagger", "with dagger:\n    h(q)", True),
    ("with-power", "with power(2):\n    h(q)", True),
]

FEAT_CONTEXTS = [
    ("plain", "{S}"),
    ("in-if", "if a:\n    {S}"),
    ("in-else", "if a:\n    pass\nelse:\n    {S}"),
    ("in-while", "while b:\n    {S}\n    if a:\n        break"),
    ("in-for", "for j in range(2):\n    {S}"),
    ("in-while-true", "while True:\n    {S}\n    if a:\n        return x"),
    ("after-return", "if a:\n    return x\n    {S}"),
    ("after-break", "while b:\n    break\n    {S}"),
    ("in-nested-fn", "def inner(" + "{PARAMS}" + ") -> int:\n    {S}\n    return x\nx = inner(a, b, x, y, q, qs, xs, s, sa)"),
]

FEAT_PARAMS = "a: bool, b: bool, x: int, y: int, q: qubit, qs: array[qubit, 3], xs: array[int, 3], s: S, sa: SA"

FEAT_HDR = """from guppylang.std.option import Option, nothing, some
from guppylang.std.builtins import mem_swap, abs, round, divmod, pow, len
from collections.abc import Callable
dagger = object()
control = object()
power = object()

@guppy.struct
class S:
    n: int
    q: qubit

@guppy.struct
class SA:
    xs: array[int, 2]
    n: int

@guppy.struct
class NS:
    s: S
    k: int

@guppy.struct
class Pair[A, B]:
    a: A
    b: B

@guppy.struct
class P2:
    u: int
    v: int

    @guppy
    def sum(self: "P2") -> int:
        return self.u + self.v

@guppy
def mkpair[A, B](u: A @owned, v: B @owned) -> Pair[A, B]:
    return Pair(u, v)

@guppy
def mkp2(u: int) -> P2:
    return P2(u, u + 1)

@guppy
def mktup(u: int) -> tuple[bool, int]:
    return u > 0, u

@guppy
def helper(u: int, v: int) -> int:
    return u * v

@guppy
def helper2(u: int, v: int) -> int:
    return u + v

@guppy
def pred(u: int) -> bool:
    return u > 0

@guppy
def noop() -> None:
    pass

@guppy
def fact(u: int) -> int:
    if u <= 1:
        return 1
    return u * fact(u - 1)

@guppy
def apply(f: Callable[[int, int], int], u: int) -> int:
    return f(u, 1)

@guppy
def eat(v: S @owned) -> int:
    discard(v.q)
    return v.n

@guppy
def touch(v: S) -> None:
    h(v.q)

@guppy.declare
def op(r: qubit @owned) -> qubit: ...

@guppy
def mkq(u: int) -> tuple[qubit, int]:
    return qubit(), u + 1

@guppy
def ident[T](v: T @owned) -> T:
    return v

@guppy
def first[T: Copy, n: nat](vs: array[T, n]) -> T:
    return vs[0]

@guppy
def size[T, n: nat](vs: array[T, n]) -> int:
    return int(n)

@guppy
def cst[n: nat]() -> int:
    return int(n)

@guppy
def ct(n: nat @comptime) -> int:
    return int(n) + 1

"""


def _subst(ctx, stmt):
    out = []
    for ln in ctx.replace("{PARAMS}", FEAT_PARAMS).split("\n"):
        if "{S}" in ln:
            ind = ln[: len(ln) - len(ln.lstrip(" "))]
            out.extend(ind + s for s in stmt.split("\n"))
        else:
            out.append(ln)
    return out


def _feat_prog(c, stmts, fam):
    """c: (name, context template); stmts: FEAT_STMTS entries placed in sequence."""
    cname, ctx = c
    text = "\n".join(st[1] for st in stmts)
    exp = any(len(st) > 2 and st[2] for st in stmts) or cname == "in-nested-fn"
    lines = _subst(ctx, text) + ["return x"]
    body = "\n".join("    " + ln for ln in lines)
    src = HEADER + FEAT_HDR + "@guppy\ndef main(" + FEAT_PARAMS + ") -> int:\n" + body + "\n"
    depth = max((len(ln) - len(ln.lstrip(" "))) // 4 for ln in lines)
    return Prog(fam, src, "main", exp, (len(lines) - 1, depth, 4),
                tuple("feat:" + st[0] for st in stmts) + ("ctx:" + cname,))


def fam_feat(thorough):
    """Explicit product: every feature statement x every placement context; thorough adds
    all ordered PAIRS of feature statements (plain and inside a loop)."""
    out = []
    for c in FEAT_CONTEXTS:
        for st in FEAT_STMTS:
            out.append(_feat_prog(c, [st], "feat"))
    if thorough:
        for c in (FEAT_CONTEXTS[0], FEAT_CONTEXTS[3]):
            for s1 in FEAT_STMTS:
                for s2 in FEAT_STMTS:
                    out.append(_feat_prog(c, [s1, s2], "feat2"))
    return out


DROP_SHAPES = [
    # (name, annotation, constructor expression, header)
    ("array-int", "array[int, 3]", "array(1, 2, 3)"),
    ("array-nested", "array[array[int, 2], 2]", "array(array(1, 2), array(3, 4))"),
    ("tuple-array", "tuple[array[int, 2], int]", "(array(1, 2), 3)"),
    ("struct-array", "SA", "SA(array(1, 2), 3)"),
    ("array-tuple", "array[tuple[int, bool], 2]", "array((1, True), (2, False))"),
    ("array-empty", "array[int, 0]", "array()"),
    ("array-float-comp", "array[float, 4]", "array(1.5 for _ in range(4))"),
    ("struct-nested", "SB", "SB(SA(array(1, 2), 3), array(True))"),
]

DROP_POSITIONS = [
    ("param-unused", "def main(a: bool, b: bool, v: {T} @owned) -> None:\n    pass"),
    ("local-unused", "def main(a: bool, b: bool) -> None:\n    v = {E}"),
    ("expr-stmt", "def main(a: bool, b: bool) -> None:\n    {E}"),
    ("branch-unused", "def main(a: bool, b: bool, v: {T} @owned) -> {T}:\n    if a:\n        return v\n    return {E}"),
    ("branch-move", "def main(a: bool, b: bool, v: {T} @owned) -> None:\n    if a:\n        w = v\n    elif b:\n        pass"),
    ("loop-overwrite", "def main(a: bool, b: bool, v: {T} @owned) -> {T}:\n    while a:\n        v = {E}\n        if b:\n            break\n    return v"),
    ("loop-local", "def main(a: bool, b: bool) -> None:\n    for i in range(3):\n        v = {E}\n        if a:\n            continue\n        w = v"),
    ("call-result", "def main(a: bool, b: bool) -> None:\n    mk()\n    if a:\n        u = mk()"),
    ("early-return", "def main(a: bool, b: bool, v: {T} @owned) -> int:\n    if a:\n        return 1\n    w = v\n    if b:\n        return 2\n    return 3"),
    ("diverge", "def main(a: bool, b: bool, v: {T} @owned) -> None:\n    while True:\n        if a:\n            v = {E}"),
    ("generic-drop", "def main(a: bool, b: bool, v: {T} @owned) -> None:\n    if a:\n        gdrop(v)"),
    ("closure-arg", "def main(a: bool, b: bool, v: {T} @owned) -> None:\n    def k(u: {T} @owned) -> None:\n        if a:\n            w = u\n    k(v)"),
]

DROP_HDR = '''@guppy.struct
class SA:
    xs: array[int, 2]
    n: int

@guppy.struct
class SB:
    s: SA
    bs: array[bool, 1]

@guppy
def gdrop[T: Drop](x: T @owned) -> None:
    pass

'''


def fam_drops(thorough):
    out = []
    for sname, ty, ex in DROP_SHAPES:
        mk = f"@guppy\ndef mk() -> {ty}:\n    return {ex}\n\n"
        for pname, tmpl in DROP_POSITIONS:
            body = tmpl.replace("{T}", ty).replace("{E}", ex)
            src = HEADER + DROP_HDR + mk + "@guppy\n" + body + "\n"
            n = body.count("\n")
            depth = max((len(ln) - len(ln.lstrip(" "))) // 4 for ln in body.split("\n")) - 1
            out.append(Prog("drops", src, "main", pname == "closure-arg", (n, max(depth, 0), 2),
                            ("drop:" + sname, "pos:" + pname)))
    return out


def fam_entries(thorough):
    """Generic helper functions compiled directly (polymorphic entry points)."""
    out = []
    for fn in ("ident", "first", "size", "cst", "ct", "pick"):
        out.append(Prog("entries", HEADER + GEN_HDR, fn, False, (1, 0, 1), ("entry:" + fn, "polymorphic")))
    return out


# ----------------------------------------------------------------------- front end
def families(thorough: bool):
    return [
        fam_cf(thorough), fam_lin(thorough), fam_linb(thorough), fam_mix(thorough),
        fam_struct(thorough), fam_structb(thorough), fam_struct2(thorough),
        fam_arr(thorough), fam_arrr(thorough), fam_arrq(thorough), fam_arrs(thorough),
        fam_gen(thorough),
        fam_polyl(thorough, "poly"), fam_polyl(thorough, "inst"), fam_polyl(thorough, "part"),
        fam_polyc(thorough),
        fam_polyn(thorough, "gen"), fam_polyn(thorough, "ct"), fam_polyn(thorough, "both"),
        fam_nest(thorough), fam_nestq(thorough),
    ]


_CACHE: dict = {}


def programs(tier: str = "quick") -> list:
    """All programs of the tier's bound, simplest first (stable order)."""
    if tier in _CACHE:
        return _CACHE[tier]
    thorough = tier == "thorough"
    progs = []
    for F in families(thorough):
        progs.extend(enumerate_family(F))
    progs.extend(fam_feat(thorough))
    progs.extend(fam_drops(thorough))
    progs.extend(fam_entries(thorough))
    progs.sort(key=lambda p: p.size)      # stable: keeps family / enumeration order inside a size
    _CACHE[tier] = progs
    return progs


def bases(tier: str = "quick", max_stmts: int = 1) -> list:
    """Mutation bases for C02: every program of the QUICK bound with at most
    `max_stmts` statements (before the epilogue), plus, for every template tag of every
    family, the first (= simplest) program carrying that tag."""
    progs = programs("quick")
    out, seen_src, seen_tag = [], set(), set()
    for p in progs:
        take = p.size[0] <= max_stmts and p.family not in ("feat", "feat2", "drops")
        for t in p.tags:
            if (p.family, t) not in seen_tag:
                seen_tag.add((p.family, t))
                take = True
        if take and p.src not in seen_src:
            seen_src.add(p.src)
            out.append(p)
    return out


def family_counts(progs) -> dict:
    d: dict = {}
    for p in progs:
        d[p.family] = d.get(p.family, 0) + 1
    return d


# ------------------------------------------------- owning the worklist nondeterminism
class _DetQueue:
    """Deterministic stand-in for the `set` worklist of cfg/analysis.py (hook H1):
    pops the basic block with the smallest index.  Any pop order is a legitimate
    behaviour of `set.pop()`; fixing one makes driver counts reproducible (the analyses'
    results are NOT order-independent for CFGs with dead code -- see C09/C10)."""

    def __init__(self, items):
        self.s = set(items)

    def __len__(self):
        return len(self.s)

    def pop(self):
        bb = min(self.s, key=lambda b: b.idx)
        self.s.remove(bb)
        return bb

    def update(self, it):
        self.s.update(it)


def install_deterministic_worklist() -> bool:
    """Returns True if hook H1 exists and the scheduler was installed."""
    import guppylang_internals.cfg.analysis as an
    if getattr(an, "_VERIF_ON", False) and hasattr(an, "_VERIF_SCHED"):
        an._VERIF_SCHED = lambda queue, analysis: _DetQueue(queue)
        return True
    return False
