"""Runner plumbing shared by all property drivers.

* Ctx.violation(key, what, item)  – record a violating item (deduplicated on key)
* Ctx.pmap(fn, items)             – deterministic sharded parallel map (fork pool)
* Ctx.finish(coverage, wall)      – known-finding matching, evidence file, exit code
"""
from __future__ import annotations

import hashlib
import json
import multiprocessing as mp
import os
import re
import sys
import time
from typing import Any, Callable, Iterable

ROOT = os.environ.get("VERIF_ROOT", "/verif")
_REAL_STDOUT = None


def silence_fd1() -> None:
    """hugr.cli.validate (Rust) prints 'HUGR valid!' on fd 1.  Keep Python's
    sys.stdout on a duplicate of the original fd 1 and point fd 1 at /dev/null."""
    global _REAL_STDOUT
    if _REAL_STDOUT is not None:
        return
    sys.stdout.flush()
    saved = os.dup(1)
    devnull = os.open(os.devnull, os.O_WRONLY)
    os.dup2(devnull, 1)
    os.close(devnull)
    _REAL_STDOUT = os.fdopen(saved, "w", buffering=1)
    sys.stdout = _REAL_STDOUT


def sha(s: str) -> str:
    return hashlib.sha256(s.encode()).hexdigest()[:16]


def load_known() -> list[dict]:
    p = os.path.join(ROOT, "known_findings.json")
    if not os.path.exists(p):
        return []
    with open(p) as f:
        return json.load(f)["findings"]


def _worker_init():
    # fd 1 is already /dev/null (inherited); make sure prints from workers are dropped
    sys.stdout = open(os.devnull, "w")
    import gc
    gc.freeze()


def _run_chunk(args):
    fn, chunk = args
    out = []
    for it in chunk:
        out.append(fn(it))
    return out


class Ctx:
    def __init__(self, pid: str, tier: str, seed: int, workers: int, level: str):
        self.pid = pid
        self.tier = tier
        self.seed = seed
        self.workers = max(1, workers)
        self.level = level
        self.violations: dict[str, dict] = {}
        self.assumptions: list[str] = [
            "/repo sources imported via PYTHONPATH with the dependency compat shim /verif/compat/vcompat.py "
            "(restores hugr 0.14 / tket-exts 0.12 API only; no guppylang behaviour changed)",
        ]
        self.notes: list[str] = []
        self.t0 = time.time()

    # ------------------------------------------------------------------ output
    def say(self, *a):
        print(*a, flush=True)

    @property
    def quick(self) -> bool:
        return self.tier == "quick"

    # -------------------------------------------------------------- violations
    def violation(self, key: str, what: str, item: Any) -> None:
        """key: identifies the failing item at the granularity used by
        known_findings.json.  item: JSON-serialisable replay payload."""
        if key in self.violations:
            self.violations[key]["count"] += 1
            return
        self.violations[key] = {"key": key, "what": what, "item": item, "count": 1}

    # ---------------------------------------------------------------- parallel
    def pmap(self, fn: Callable, items: Iterable, chunk: int = 32,
             recycle: int = 40) -> list:
        """Ordered map over items with a fork pool.  Deterministic: the result
        list order is the item order regardless of scheduling.  Workers are
        recycled every `recycle` chunks (guppylang's DEF_STORE only grows)."""
        items = list(items)
        if not items:
            return []
        nw = min(self.workers, max(1, len(items) // max(1, chunk // 4)))
        chunks = [items[i:i + chunk] for i in range(0, len(items), chunk)]
        if nw <= 1 or len(chunks) == 1:
            out = []
            for c in chunks:
                out.extend(_run_chunk((fn, c)))
            return out
        # VERIF_SEED only rotates which shard is dispatched first
        order = list(range(len(chunks)))
        rot = self.seed % len(chunks)
        order = order[rot:] + order[:rot]
        ctxm = mp.get_context("fork")
        results: list = [None] * len(chunks)
        with ctxm.Pool(nw, initializer=_worker_init, maxtasksperchild=recycle) as pool:
            for idx, res in zip(order, pool.imap(_run_chunk, [(fn, chunks[i]) for i in order])):
                results[idx] = res
        out = []
        for r in results:
            out.extend(r)
        return out

    # ------------------------------------------------------------------ finish
    def finish(self, coverage: dict, wall: float) -> int:
        known = [k for k in load_known() if k.get("property") == self.pid]
        listed = [k for k in known if k.get("status", "known") == "known"]
        rep_dir = os.path.join(ROOT, "replays", self.pid)
        unlisted = []
        matched: dict[int, list] = {}
        for key, v in self.violations.items():
            hit = None
            for i, k in enumerate(listed):
                if k.get("key") == key or ("key_regex" in k and re.fullmatch(k["key_regex"], key)):
                    hit = i
                    break
            if hit is None:
                unlisted.append(v)
            else:
                matched.setdefault(hit, []).append(v)
        for i, k in enumerate(listed):
            if i in matched:
                n = sum(v["count"] for v in matched[i])
                self.say(f"KNOWN-FINDING: property={self.pid} {k['what']} [{n} item(s), e.g. key={matched[i][0]['key']}]")
            else:
                self.say(f"NOTE: listed finding for {self.pid} did not reproduce in this run: {k.get('key') or k.get('key_regex')}")
        rc = 0
        if unlisted:
            os.makedirs(rep_dir, exist_ok=True)
            for v in unlisted[:25]:
                path = os.path.join(rep_dir, sha(v["key"]) + ".json")
                with open(path, "w") as f:
                    json.dump({"property": self.pid, "tier": self.tier, "key": v["key"],
                               "what": v["what"], "item": v["item"]}, f, indent=1, default=str)
                self.say(f"  {v['what']}  (key={v['key']}, {v['count']} occurrence(s))")
                self.say(f"VIOLATION property={self.pid} replay={path}")
            if len(unlisted) > 25:
                self.say(f"  … and {len(unlisted) - 25} further distinct violations")
            rc = 1
        cov = dict(coverage)
        cov.setdefault("exhaustive", True)
        ev = {
            "property_id": self.pid,
            "tier": self.tier,
            "seed": self.seed,
            "level": self.level,
            "coverage": cov,
            "assumptions": self.assumptions,
            "wall_s": round(wall, 2),
            "violations": len(unlisted),
            "known_findings_reproduced": sum(len(v) for v in matched.values()),
            "notes": self.notes,
        }
        # VERIF_EVIDENCE_DIR: only used by tools/trymutant.py so that runs against a mutated
        # scratch copy do not overwrite the evidence of the real tree
        evdir = os.environ.get("VERIF_EVIDENCE_DIR") or os.path.join(ROOT, "evidence")
        os.makedirs(evdir, exist_ok=True)
        path = os.path.join(evdir, f"{self.pid}.json")
        try:
            import jsonschema
            with open("/root/.vp/EVIDENCE.schema.json") as f:
                schema = json.load(f)
            jsonschema.validate(ev, schema)
        except FileNotFoundError:
            pass
        except Exception as e:  # schema violation is a harness error
            self.say(f"HARNESS-ERROR: evidence does not validate: {str(e)[:400]}")
            rc = rc or 2
        with open(path, "w") as f:
            json.dump(ev, f, indent=1, default=str)
        self.say(f"{self.pid} tier={self.tier} wall={wall:.1f}s violations={len(unlisted)} "
                 f"known={ev['known_findings_reproduced']} "
                 + " ".join(f"{k}={v}" for k, v in cov.items()
                            if isinstance(v, (int, float, bool)) and not isinstance(v, str)))
        return rc
