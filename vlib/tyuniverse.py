"""Bounded universe of guppylang `Type` objects, enumerated by nesting depth.

Every item is a *description*: a nested tuple built only from strings / ints, e.g.

    "int"                                   base type
    ("array", ("tuple", "int", "qubit"), 2) array[(int, qubit), 2]
    ("array", "int", "n")                   array[int, n]   (n: bound nat variable)
    ("frozenarray", d, 2) ("option", d) ("tuple", d1, ..., dk)  k in 0..2
    ("func", ((d1, flag1), ...), dout)      flag in "", "owned", "inout"
    ("struct", "SArr")  ("struct", "G", d)  struct types (see STRUCTS)
    ("var", copyable, droppable)            bound type variable with that bound

`build(desc)` turns a description into the real guppylang `Type`; `describe(ty)` is the
inverse.  Oracles work on descriptions only (plus the STRUCTS table, which is written
down here by hand next to the struct source text), so they are independent of
guppylang's own classification code.

Struct types are real: the classes below are defined with `@guppy.struct` through
`vlib.gload.load` and the `StructType`s are obtained from the engine's checked
definitions (`ENGINE.get_checked(id).check_instantiate(args)`).
"""
from __future__ import annotations

import itertools

BASES = ("int", "nat", "float", "bool", "str", "None", "qubit")

#: (copyable, droppable) -> (idx, display name) of the bound type variable
VARS = {(True, True): (0, "TCD"), (True, False): (1, "TC"),
        (False, True): (2, "TD"), (False, False): (3, "TL")}
NVAR_IDX, NVAR_NAME = 4, "n"

#: struct name -> (number of type params, field descriptions).  ("param", i) refers to
#: the i-th type parameter.  Must mirror STRUCT_SRC below (checked in `env()`).
STRUCTS = {
    "SEmpty": (0, ()),
    "SInt": (0, ("int", "bool")),
    "SArr": (0, (("array", "int", 2), "int")),
    "SQ": (0, ("qubit", "int")),
    "G": (1, (("param", 0), "int")),
    "GQ": (1, (("param", 0), "qubit")),
    "GP": (1, ("int",)),              # phantom parameter: T occurs in no field
}
NONGENERIC = ("SEmpty", "SInt", "SArr", "SQ")
GENERIC = ("G", "GQ")
PHANTOM = ("GP",)

STRUCT_SRC = '''\
from guppylang import guppy, qubit, array
from guppylang.std.builtins import owned, nat
from guppylang.std.option import Option
from guppylang.std.array import frozenarray
from collections.abc import Callable

@guppy.struct
class SEmpty:
    pass

@guppy.struct
class SInt:
    a: int
    b: bool

@guppy.struct
class SArr:
    a: array[int, 2]
    b: int

@guppy.struct
class SQ:
    q: qubit
    k: int

@guppy.struct
class G[T]:
    x: T
    k: int

@guppy.struct
class GQ[T]:
    x: T
    q: qubit

@guppy.struct
class GP[T]:
    k: int
'''

_ENV = None


class Env:
    """Loaded module with the struct definitions + handles on the real type defs."""

    def __init__(self):
        import vlib  # noqa: F401
        from vlib import gload
        from guppylang_internals.engine import ENGINE
        from guppylang_internals.tys.param import ConstParam, TypeParam
        from guppylang_internals.tys.builtin import nat_type, option_type_def

        self.mod = gload.load(STRUCT_SRC, name="vtyuniverse")
        self.struct_defs = {n: ENGINE.get_checked(self.mod.__dict__[n].id) for n in STRUCTS}
        self.qubit_def = ENGINE.get_checked(self.mod.qubit.id)
        # guppylang.std.option.Option is `@extend_type(option_type_def)`: the builtin opaque def
        self.option_def = option_type_def
        self.params = [None] * 5
        for (c, d), (idx, name) in VARS.items():
            self.params[idx] = TypeParam(idx, name, must_be_copyable=c, must_be_droppable=d)
        self.params[NVAR_IDX] = ConstParam(NVAR_IDX, NVAR_NAME, nat_type())
        self._cache: dict = {}
        # the hand-written STRUCTS table must mirror the source text
        for n, (np_, flds) in STRUCTS.items():
            d = self.struct_defs[n]
            assert len(d.params) == np_ and len(d.fields) == len(flds), n

    @property
    def param_var_mapping(self) -> dict:
        return {p.name: p for p in self.params}

    def globals(self):
        """A `Globals` in which the builtin names, qubit/array/frozenarray/Option/nat and
        the struct names resolve (the loaded module's namespace)."""
        from guppylang_internals.checker.core import Globals
        g = Globals(None)
        g.f_globals = self.mod.__dict__
        return g


def env() -> Env:
    global _ENV
    if _ENV is None:
        _ENV = Env()
    return _ENV


def norm(d):
    """JSON round trip turns tuples into lists; undo that."""
    if isinstance(d, list | tuple):
        return tuple(norm(x) for x in d)
    return d


def build(desc):
    """Description -> real guppylang Type."""
    e = env()
    hit = e._cache.get(desc)
    if hit is not None:
        return hit
    ty = _build(desc, e)
    if len(e._cache) < 200_000:
        e._cache[desc] = ty
    return ty


def _len_const(n, e):
    from guppylang_internals.tys.arg import ConstArg
    from guppylang_internals.tys.const import ConstValue
    from guppylang_internals.tys.builtin import nat_type
    if n == "n":
        return e.params[NVAR_IDX].to_bound()
    return ConstArg(ConstValue(nat_type(), n))


def _build(desc, e):
    from guppylang_internals.tys import builtin as B
    from guppylang_internals.tys import ty as T
    from guppylang_internals.tys.arg import TypeArg

    if isinstance(desc, str):
        match desc:
            case "int":
                return B.int_type()
            case "nat":
                return B.nat_type()
            case "float":
                return B.float_type()
            case "bool":
                return B.bool_type()
            case "str":
                return B.string_type()
            case "None":
                return T.NoneType()
            case "qubit":
                return T.OpaqueType([], e.qubit_def)
        raise ValueError(desc)
    head = desc[0]
    if head == "var":
        return e.params[VARS[(desc[1], desc[2])][0]].to_bound().ty
    if head == "array":
        return T.OpaqueType([TypeArg(build(desc[1])), _len_const(desc[2], e)], B.array_type_def)
    if head == "frozenarray":
        return T.OpaqueType([TypeArg(build(desc[1])), _len_const(desc[2], e)], B.frozenarray_type_def)
    if head == "option":
        return T.OpaqueType([TypeArg(build(desc[1]))], e.option_def)
    if head == "tuple":
        return T.TupleType([build(d) for d in desc[1:]])
    if head == "func":
        flags = {"": T.InputFlags.NoFlags, "owned": T.InputFlags.Owned, "inout": T.InputFlags.Inout}
        return T.FunctionType([T.FuncInput(build(d), flags[f]) for d, f in desc[1]], build(desc[2]))
    if head == "struct":
        d = e.struct_defs[desc[1]]
        # StructType(args, defn) directly: check_instantiate would only add kind checks
        return T.StructType([TypeArg(build(a)) for a in desc[2:]], d)
    raise ValueError(desc)


def describe(ty):
    """Real guppylang Type -> description (inverse of build).  Raises ValueError for
    anything outside the universe."""
    from guppylang_internals.tys import builtin as B
    from guppylang_internals.tys import ty as T
    from guppylang_internals.tys.arg import ConstArg, TypeArg
    from guppylang_internals.tys.const import BoundConstVar, ConstValue
    e = env()

    def length(arg):
        if not isinstance(arg, ConstArg):
            raise ValueError(f"length is not a const arg: {arg!r}")
        c = arg.const
        if isinstance(c, ConstValue) and type(c.value) is int and c.ty == B.nat_type():
            return c.value
        if isinstance(c, BoundConstVar) and c.idx == NVAR_IDX:
            return "n"
        raise ValueError(f"unexpected const {c!r}")

    def targ(arg):
        if not isinstance(arg, TypeArg):
            raise ValueError(f"not a type arg: {arg!r}")
        return describe(arg.ty)

    match ty:
        case T.NumericType(kind=k):
            return k.name.lower()
        case T.NoneType():
            return "None"
        case T.BoundTypeVar(idx=idx, copyable=c, droppable=d):
            if VARS.get((c, d), (None,))[0] != idx:
                raise ValueError(f"unexpected bound var {ty!r}")
            return ("var", c, d)
        case T.TupleType(element_types=els):
            return ("tuple", *(describe(x) for x in els))
        case T.FunctionType() as f:
            if f.parametrized:
                raise ValueError("generic function")
            fl = {T.InputFlags.NoFlags: "", T.InputFlags.Owned: "owned", T.InputFlags.Inout: "inout"}
            return ("func", tuple((describe(i.ty), fl[i.flags]) for i in f.inputs), describe(f.output))
        case T.OpaqueType(defn=defn, args=args):
            if defn == B.bool_type_def and not args:
                return "bool"
            if defn == B.string_type_def and not args:
                return "str"
            if defn.id == e.qubit_def.id and not args:
                return "qubit"
            if defn == B.array_type_def and len(args) == 2:
                return ("array", targ(args[0]), length(args[1]))
            if defn == B.frozenarray_type_def and len(args) == 2:
                return ("frozenarray", targ(args[0]), length(args[1]))
            if defn == B.option_type_def and len(args) == 1:
                return ("option", targ(args[0]))
            raise ValueError(f"unexpected opaque type {defn.name} with {len(args)} args")
        case T.StructType(defn=defn, args=args):
            for n, d in e.struct_defs.items():
                if d.id == defn.id:
                    if len(args) != STRUCTS[n][0]:
                        raise ValueError("struct arity")
                    return ("struct", n, *(targ(a) for a in args))
            raise ValueError(f"unknown struct {defn.name}")
    raise ValueError(f"outside universe: {ty!r}")


def depth(desc) -> int:
    if isinstance(desc, str) or desc[0] == "var":
        return 0
    head = desc[0]
    if head in ("array", "frozenarray", "option"):
        return 1 + depth(desc[1])
    if head == "tuple":
        return 1 + max((depth(d) for d in desc[1:]), default=0)
    if head == "struct":
        return 1 + max((depth(d) for d in desc[2:]), default=0)
    if head == "func":
        return 1 + max([depth(d) for d, _ in desc[1]] + [depth(desc[2])])
    raise ValueError(desc)


def children(desc):
    """Immediate component descriptions (type arguments / elements / inputs+output)."""
    if isinstance(desc, str) or desc[0] == "var":
        return ()
    head = desc[0]
    if head in ("array", "frozenarray", "option"):
        return (desc[1],)
    if head == "tuple":
        return tuple(desc[1:])
    if head == "struct":
        return tuple(desc[2:])
    if head == "func":
        return tuple(d for d, _ in desc[1]) + (desc[2],)
    raise ValueError(desc)


def has(desc, pred) -> bool:
    return pred(desc) or any(has(c, pred) for c in children(desc))


def is_closed(desc) -> bool:
    def open_(d):
        return (not isinstance(d, str)) and (d[0] == "var" or (d[0] in ("array", "frozenarray") and d[2] == "n"))
    return not has(desc, open_)


def has_func(desc) -> bool:
    return has(desc, lambda d: not isinstance(d, str) and d[0] == "func")


def to_source(desc) -> str:
    """Annotation source text for a description, written independently of guppylang's
    TypePrinter (names as imported by STRUCT_SRC).  Function inputs carry their flags;
    `inout` is implicit in source (non-copyable input without @owned)."""
    if isinstance(desc, str):
        return desc
    head = desc[0]
    if head == "var":
        return VARS[(desc[1], desc[2])][1]
    if head in ("array", "frozenarray"):
        return f"{head}[{to_source(desc[1])}, {desc[2]}]"
    if head == "option":
        return f"Option[{to_source(desc[1])}]"
    if head == "tuple":
        if len(desc) == 1:
            return "tuple[()]"
        return "tuple[" + ", ".join(to_source(d) for d in desc[1:]) + "]"
    if head == "struct":
        if len(desc) == 2:
            return desc[1]
        return f"{desc[1]}[" + ", ".join(to_source(d) for d in desc[2:]) + "]"
    if head == "func":
        ins = ", ".join(to_source(d) + (" @owned" if f == "owned" else "") for d, f in desc[1])
        return f"Callable[[{ins}], {to_source(desc[2])}]"
    raise ValueError(desc)


# --------------------------------------------------------------------- enumeration
def level0(vars: bool = True, bases=BASES):
    out = list(bases)
    if vars:
        out += [("var", c, d) for (c, d) in VARS]
    return out


def constructors(t, *, funcs=True, frozen=True, phantom=True, nvar=True, lens=(0, 2)):
    """All unary constructor applications to t."""
    out = []
    for n in lens + (("n",) if nvar else ()):
        out.append(("array", t, n))
    if frozen:
        for n in lens:
            out.append(("frozenarray", t, n))
    out.append(("option", t))
    out.append(("tuple", t))
    for s in GENERIC + (PHANTOM if phantom else ()):
        out.append(("struct", s, t))
    if funcs:
        out.append(("func", (), t))
        out.append(("func", ((t, ""),), "None"))
        out.append(("func", ((t, "owned"),), t))
        out.append(("func", (("int", ""), (t, "inout")), "bool"))
    return out


def leaves1():
    return [("tuple",)] + [("struct", s) for s in NONGENERIC]


#: representatives of the four copy/drop classes, used for the restricted pairs at the
#: deepest level of the thorough tier
REPS = ("int", "qubit", ("array", "int", 2), ("var", True, False))


def universe(max_depth: int, *, funcs=True, vars=True, frozen=True, phantom=True, nvar=True,
             bases=BASES, restrict_pairs_at: int | None = None):
    """All descriptions of depth <= max_depth, in a deterministic order (by depth).
    2-tuples are complete at every depth below `restrict_pairs_at`; 2-tuples of depth
    >= restrict_pairs_at are only generated as (t, r) / (r, t) with t of depth exactly
    one less and r in REPS."""
    kw = dict(funcs=funcs, frozen=frozen, phantom=phantom, nvar=nvar)
    exact = level0(vars, bases)          # depth exactly k-1
    lower: list = []                     # depth < k-1
    reps = [r for r in REPS if vars or is_closed(r)]
    for k in range(1, max_depth + 1):
        new = leaves1() if k == 1 else []
        for t in exact:
            new.extend(constructors(t, **kw))
        if restrict_pairs_at is not None and k >= restrict_pairs_at:
            seen = set()
            for t in exact:
                for r in reps:
                    if depth(r) > k - 1:
                        continue
                    for p in (("tuple", t, r), ("tuple", r, t)):
                        if p not in seen:
                            seen.add(p)
                            new.append(p)
        else:
            for a in exact:
                for b in itertools.chain(lower, exact):
                    new.append(("tuple", a, b))
            for a in lower:
                for b in exact:
                    new.append(("tuple", a, b))
        lower = lower + exact
        exact = new
    return lower + exact
