"""C30 — Source span containment and intersection follow interval semantics.

Exhaustive over a grid: files {f,g} x lines 1..3 x columns 0..3 -> all Locs, all
valid Spans, ALL ordered pairs (span, span) and (loc, span).  Oracle: the interval
definitions in the property statement.  Boundary conventions the statement leaves
open (a location exactly at the exclusive end; spans that merely touch / an empty
overlap) are accepted either way and counted separately.
"""
from __future__ import annotations

import itertools

ID = "C30"
LEVEL = "exploration"


def _grid(tier):
    lines = (1, 2, 3) if tier == "quick" else (1, 2, 3, 4)
    cols = (0, 1, 2, 3) if tier == "quick" else (0, 1, 2, 3, 7)
    return ("f.py", "g.py"), lines, cols


def _pos(loc):
    return (loc.line, loc.column)


def check_span_span(a, b):
    """Returns list of (kind, detail) disagreements for the ordered pair (a, b)."""
    out = []
    same = a.file == b.file
    # --- containment: a in b
    try:
        got = a in b
    except Exception as e:  # noqa: BLE001
        out.append(("contains-raises", repr(e)))
        got = None
    exp = same and _pos(b.start) <= _pos(a.start) and _pos(a.end) <= _pos(b.end)
    if got is not None and bool(got) != exp:
        out.append(("span-in-span", f"got {got}, interval semantics say {exp}"))
    # --- intersection
    try:
        inter = a & b
    except Exception as e:  # noqa: BLE001
        out.append(("and-raises", repr(e)))
        return out, False
    boundary = False
    if not same:
        if inter is not None:
            out.append(("and-different-files", f"got {inter}"))
        return out, boundary
    lo = max(_pos(a.start), _pos(b.start))
    hi = min(_pos(a.end), _pos(b.end))
    if lo < hi:
        if inter is None or (_pos(inter.start), _pos(inter.end)) != (lo, hi) or inter.file != a.file:
            out.append(("and-overlap", f"got {inter}, expected {lo}..{hi}"))
    elif lo > hi:
        if inter is not None:
            out.append(("and-disjoint", f"got {inter}, expected None"))
    else:
        boundary = True  # touching / empty overlap: None or the empty span both fine ...
        if inter is not None and (_pos(inter.start), _pos(inter.end)) != (lo, hi):
            out.append(("and-touching", f"got {inter}, expected None or empty {lo}..{hi}"))
        # ... but the intersection is a function of the unordered pair: both operand orders must agree
        try:
            rev = b & a
        except Exception as e:  # noqa: BLE001
            rev = e
        if (inter is None) != (rev is None):
            out.append(("and-touching-not-symmetric", f"a & b = {inter} but b & a = {rev}"))
    return out, boundary


def check_loc_span(loc, s):
    out = []
    try:
        got = loc in s
    except Exception as e:  # noqa: BLE001
        return [("loc-contains-raises", repr(e))], False
    if loc.file != s.file:
        if got:
            out.append(("loc-in-span-different-files", "got True"))
        return out, False
    p = _pos(loc)
    if _pos(s.start) <= p < _pos(s.end):
        if not got:
            out.append(("loc-in-span", "got False for a location inside [start, end)"))
    elif p == _pos(s.end):
        return out, True  # exclusive end: statement leaves it open
    else:
        if got:
            out.append(("loc-in-span", "got True for a location outside [start, end]"))
    return out, False


def build(tier):
    from guppylang_internals.span import Loc, Span
    files, lines, cols = _grid(tier)
    locs = [Loc(f, l, c) for f in files for l in lines for c in cols]
    spans = [Span(a, b) for a in locs for b in locs if a.file == b.file and _pos(a) <= _pos(b)]
    return locs, spans


def sp(s):
    return f"{s.file}:{s.start.line}:{s.start.column}-{s.end.line}:{s.end.column}"


def run(ctx):
    locs, spans = build(ctx.tier)
    n = 0
    nontrivial = 0
    boundary_cases = 0
    samples = []
    for a, b in itertools.product(spans, spans):
        n += 1
        dis, bd = check_span_span(a, b)
        boundary_cases += bd
        if a.file == b.file and a != b:
            nontrivial += 1
        for kind, detail in dis:
            # key: kind + relative shape so that distinct defects are distinct keys
            ctx.violation(f"{kind}", f"Span op disagrees with interval semantics: a={sp(a)} b={sp(b)}: {detail}",
                          {"kind": "ss", "a": sp(a), "b": sp(b)})
        if n % 20011 == 1:
            samples.append({"a": sp(a), "b": sp(b), "a_in_b": a in b, "a_and_b": str(a & b)})
    for loc, s in itertools.product(locs, spans):
        n += 1
        dis, bd = check_loc_span(loc, s)
        boundary_cases += bd
        if loc.file == s.file:
            nontrivial += 1
        for kind, detail in dis:
            ctx.violation(f"{kind}", f"loc={loc} span={sp(s)}: {detail}",
                          {"kind": "ls", "loc": [loc.file, loc.line, loc.column], "b": sp(s)})
    # invalid spans must be rejected at construction (start after end / two files)
    from guppylang_internals.span import Span
    from guppylang_internals.error import InternalGuppyError
    bad_ctor = 0
    for a, b in itertools.product(locs, locs):
        if a.file != b.file or _pos(a) > _pos(b):
            n += 1
            try:
                Span(a, b)
                bad_ctor += 1
            except InternalGuppyError:
                pass
    # (not part of the statement; recorded only)
    return {
        "evaluations": n,
        "distinct_nontrivial": nontrivial,
        "rule": "all ordered (span,span) and (loc,span) pairs on files x lines x cols grid; non-trivial = same file and a != b",
        "samples": samples[:6],
        "locs": len(locs), "spans": len(spans),
        "boundary_cases_accepted_either_way": boundary_cases,
        "invalid_spans_constructible": bad_ctor,
    }


def _parse(txt):
    from guppylang_internals.span import Loc, Span
    f, rest = txt.split(":", 1)
    a, b = rest.split("-")
    al, ac = map(int, a.split(":"))
    bl, bc = map(int, b.split(":"))
    return Span(Loc(f, al, ac), Loc(f, bl, bc))


def replay(ctx, item):
    from guppylang_internals.span import Loc
    b = _parse(item["b"])
    if item["kind"] == "ss":
        dis, _ = check_span_span(_parse(item["a"]), b)
    else:
        dis, _ = check_loc_span(Loc(*item["loc"]), b)
    return {"violation": bool(dis), "disagreements": dis}
