"""C33 — Experimental features are gated and the gate state is restored.

Explicit-state exploration of the REAL gate in guppylang_internals/experimental.py
(module flag EXPERIMENTAL_FEATURES_ENABLED, classes enable_/disable_experimental_features,
check_*_enabled) against a reference model "flag + stack of saved values".

Events
  ce / cd   enable_experimental_features() / disable_...() as a plain call
            (the real classes flip the flag in __init__, so a call = constructing
            the object and dropping it)
  we / wd   `with enable_...():` / `with disable_...():` entered (construct + __enter__)
  xn / xe   innermost open manager left normally / with an exception
            (__exit__(None, None, None) / __exit__(*sys.exc_info()) of a really raised
            exception; layer W runs real `with` statements in generated code instead)
  k:<p>     the pipeline check of a freshly loaded program that uses one gated feature

Layers
  A  BFS over the product (measured real state, model state), deduplicated.  The real
     state is measured, not assumed: (module flag, for every pending manager its class
     name and its complete __dict__).  That is every piece of state the gate code can
     read, so two histories reaching the same key have the same future; check events
     are verified to be self loops in every reachable state.  Every transition is
     executed by rebuilding from the root.
  T  full trees WITHOUT deduplication: (T1) the six gate events to length 6 / 8 with
     the four check_*_enabled functions called after every event; (T2) gate events
     interleaved with pipeline checks of four programs to length 4 / 5.
  W  every balanced sequence of T1 / T2 again as generated Python source with real
     nested `with` statements and really raised exceptions (incl. one exception
     propagating through several managers).
  D  definition-time vs check-time: a program defined under flag a and checked under
     flag b must be gated by b only.
  U  unspecified, enumerated and counted but NOT checked: non-LIFO exit orders,
     managers constructed early and entered later, re-checking the same definition.

Oracle (statement only): after every event real flag == model flag; check(p) is rejected
with the gate's error  <=>  model flag is off; with the flag on the outcome may be
anything but the gate's error.  The gate's error is ExperimentalFeatureError; for
capturing closures experimental.py deliberately raises UnsupportedError("Capturing
closures") from check_capturing_closures_enabled (same upstream, has a golden test) —
accepted as that feature's gate error and counted separately.
"""
from __future__ import annotations

import sys
import warnings

ID = "C33"
LEVEL = "model_checking"

MAX_DEPTH = 3
GATE = ("ce", "cd", "we", "wd", "xn", "xe")

PRE = "from guppylang import guppy, qubit\nfrom guppylang.std.builtins import *\n"
PROGRAMS = {
    "list_lit": "@guppy\ndef main() -> None:\n    [1, 2, 3]\n",
    "list_comp": "@guppy\ndef main() -> None:\n    [i for i in range(10)]\n",
    "list_type": "@guppy\ndef main(x: list[int]) -> list[int]:\n    return x\n",
    "tensor": ("@guppy\ndef f(x: int) -> int:\n    return x\n@guppy\ndef g(x: int) -> int:\n    return x\n"
               "@guppy\ndef main() -> tuple[int, int]:\n    return (f, g)(1, 2)\n"),
    "closure": "@guppy\ndef main() -> None:\n    x = 42\n    def inner() -> int:\n        return x\n",
    "dagger": "@guppy\ndef main() -> None:\n    with dagger:\n        pass\n",
    "control": "@guppy\ndef main(q: qubit) -> None:\n    with control(q):\n        pass\n",
    "power": "@guppy\ndef main() -> None:\n    with power(2):\n        pass\n",
}
FEATURE = {"list_lit": "lists", "list_comp": "lists", "list_type": "lists", "tensor": "function-tensors",
           "closure": "capturing-closures", "dagger": "modifiers", "control": "modifiers", "power": "modifiers"}
TREE_PROGS = ("list_lit", "tensor", "closure", "dagger")
DIRECT = ("check_lists_enabled", "check_function_tensors_enabled",
          "check_capturing_closures_enabled", "check_modifiers_enabled")


class _Boom(Exception):
    pass


def _X():
    import guppylang_internals.experimental as X
    return X


# --------------------------------------------------------------------------- model
def model_step(state, ev):
    """state = (flag, stack of saved values).  Returns the new state or None if the
    event is not enabled."""
    flag, stack = state
    if ev == "ce":
        return (True, stack)
    if ev == "cd":
        return (False, stack)
    if ev in ("we", "wd"):
        if len(stack) >= MAX_DEPTH:
            return None
        return (ev == "we", stack + (flag,))
    if ev in ("xn", "xe"):
        if not stack:
            return None
        return (stack[-1], stack[:-1])
    if ev.startswith("k:"):
        return state
    raise ValueError(ev)


ROOT = (False, ())


# ---------------------------------------------------------------------- real gate
def _is_gate_error(err) -> str | None:
    """None, or which kind of gate error this diagnostic is."""
    X = _X()
    from guppylang_internals.checker.errors.generic import UnsupportedError
    if isinstance(err, X.ExperimentalFeatureError):
        return "experimental"
    if isinstance(err, UnsupportedError) and getattr(err, "things", None) == "Capturing closures":
        return "unsupported-closure"
    return None


def pipeline_check(prog: str, premod=None) -> str:
    """Load the program afresh (unless a pre-defined module is given) and run the real
    checker.  Returns 'gate:<kind>' | 'ok' | 'error:<title>' | 'crash:<type>'."""
    from guppylang_internals.error import GuppyError
    from vlib import gload
    mod = premod
    try:
        if mod is None:
            with warnings.catch_warnings():
                warnings.simplefilter("ignore", SyntaxWarning)
                mod = gload.load(PRE + PROGRAMS[prog])
        mod.main.check()
        return "ok"
    except GuppyError as e:
        g = _is_gate_error(e.error)
        if g:
            return "gate:" + g
        return "error:" + str(e.error.title)
    except Exception as e:  # noqa: BLE001
        return "crash:" + type(e).__name__
    finally:
        if mod is not None and premod is None:
            gload.unload(mod)


def direct_probe() -> tuple:
    """Calls the four check_*_enabled functions; True = raised the gate's error."""
    from guppylang_internals.error import GuppyError
    from guppylang_internals.span import Loc, Span
    X = _X()
    out = []
    loc = Span(Loc("<c33>", 1, 0), Loc("<c33>", 1, 1))
    for name in DIRECT:
        try:
            getattr(X, name)(loc)
            out.append(False)
        except GuppyError as e:
            out.append(bool(_is_gate_error(e.error)))
    return tuple(out)


class Real:
    """The real gate driven through explicit __enter__/__exit__ calls."""

    def __init__(self):
        X = _X()
        X.EXPERIMENTAL_FEATURES_ENABLED = False
        self.stack = []
        self.swallowed = 0

    def flag(self):
        return _X().EXPERIMENTAL_FEATURES_ENABLED

    def key(self):
        return (self.flag(), tuple((type(m).__name__, tuple(sorted((k, repr(v)) for k, v in vars(m).items())))
                                   for m in self.stack))

    def apply(self, ev):
        X = _X()
        if ev == "ce":
            X.enable_experimental_features()
        elif ev == "cd":
            X.disable_experimental_features()
        elif ev in ("we", "wd"):
            m = X.enable_experimental_features() if ev == "we" else X.disable_experimental_features()
            m.__enter__()
            self.stack.append(m)
        elif ev == "xn":
            self.stack.pop().__exit__(None, None, None)
        elif ev == "xe":
            m = self.stack.pop()
            try:
                raise _Boom()
            except _Boom:
                if m.__exit__(*sys.exc_info()):
                    self.swallowed += 1
        elif ev.startswith("k:"):
            return pipeline_check(ev[2:])
        else:
            raise ValueError(ev)
        return None


def judge_check(prog, res, mflag):
    """Returns (violation-key or None, text)."""
    if not mflag:
        if not res.startswith("gate:"):
            return (f"gate:{FEATURE[prog]}:not-rejected-while-disabled",
                    f"check of a program using {FEATURE[prog]} ({prog}) gave {res!r} while experimental "
                    f"features are disabled; expected the experimental-feature error")
    else:
        if res.startswith("gate:"):
            return (f"gate:{FEATURE[prog]}:rejected-while-enabled",
                    f"check of a program using {FEATURE[prog]} ({prog}) was rejected with the experimental-"
                    f"feature error although experimental features are enabled")
    return None, ""


def judge_direct(probe, mflag):
    for name, raised in zip(DIRECT, probe):
        if raised != (not mflag):
            return (f"gatefn:{name}:{'raises-while-enabled' if raised else 'silent-while-disabled'}",
                    f"{name}() {'raised' if raised else 'did not raise'} the gate error with the flag "
                    f"{'on' if mflag else 'off'}")
    return None, ""


def _mgr_of(seq, i):
    """kind ('we'/'wd') of the manager closed by the exit event at index i."""
    st = []
    for j, e in enumerate(seq[:i + 1]):
        if e in ("we", "wd"):
            st.append(e)
        elif e in ("xn", "xe"):
            k = st.pop()
            if j == i:
                return k
    return "?"


def replay_calls(seq, direct=False):
    """Replay one event sequence on the real gate from the root.  Returns
    (first divergence or None, stats)."""
    real = Real()
    st = ROOT
    nchk = 0
    res_counts = {}
    for i, ev in enumerate(seq):
        st2 = model_step(st, ev)
        if st2 is None:
            raise RuntimeError(f"harness: event {ev} not enabled in {seq}")
        before = real.key() if ev.startswith("k:") else None
        res = real.apply(ev)
        st = st2
        if real.flag() != st[0]:
            what = ev if ev[0] != "x" else f"{ev}:{_mgr_of(seq, i)}"
            return ({"key": f"flag:after-{what}" if not ev.startswith("k:") else "flag:changed-by-check",
                     "what": f"after {list(seq[:i + 1])} the real flag is {real.flag()}, the model "
                             f"(restore previous setting) says {st[0]}", "at": i}, (nchk, res_counts, real.swallowed))
        if ev.startswith("k:"):
            nchk += 1
            res_counts[res] = res_counts.get(res, 0) + 1
            if real.key() != before:
                return ({"key": "check-changes-gate-state",
                         "what": f"check event {ev} changed the gate state after {list(seq[:i])}", "at": i},
                        (nchk, res_counts, real.swallowed))
            k, txt = judge_check(ev[2:], res, st[0])
            if k:
                return ({"key": k, "what": f"{txt}; history {list(seq[:i + 1])}", "at": i},
                        (nchk, res_counts, real.swallowed))
        if direct:
            k, txt = judge_direct(direct_probe(), st[0])
            if k:
                return ({"key": k, "what": f"{txt}; history {list(seq[:i + 1])}", "at": i},
                        (nchk, res_counts, real.swallowed))
    return None, (nchk, res_counts, real.swallowed)


# ----------------------------------------------------- real `with` statements (layer W)
def balanced(seq):
    d = 0
    for e in seq:
        if e in ("we", "wd"):
            d += 1
        elif e in ("xn", "xe"):
            d -= 1
    return d == 0


def gen_with_source(seq):
    """Python source with real nested `with` statements for a balanced sequence.
    _p(i) records the flag after event i; _k(i, prog) is a pipeline check."""
    # matching exit kind for every enter
    match = {}
    st = []
    for i, e in enumerate(seq):
        if e in ("we", "wd"):
            st.append(i)
        elif e in ("xn", "xe"):
            match[st.pop()] = i
    lines = []
    ind = 0
    frames = []      # (indent_of_frame, exit_kind, chained)
    for i, e in enumerate(seq):
        pad = "    " * ind
        if e == "ce":
            lines += [pad + "X.enable_experimental_features()", pad + f"_p({i})"]
        elif e == "cd":
            lines += [pad + "X.disable_experimental_features()", pad + f"_p({i})"]
        elif e.startswith("k:"):
            lines += [pad + f"_k({i}, {e[2:]!r})"]
        elif e in ("we", "wd"):
            cls = "enable_experimental_features" if e == "we" else "disable_experimental_features"
            x = match[i]
            exc = seq[x] == "xe"
            chained = exc and x + 1 < len(seq) and seq[x + 1] == "xe"
            frames.append((ind, exc, chained))
            if exc:
                lines.append(pad + "try:")
                ind += 1
                pad = "    " * ind
            lines.append(pad + f"with X.{cls}():")
            ind += 1
            lines.append("    " * ind + f"_p({i})")
        else:
            base, exc, chained = frames.pop()
            if exc:
                lines.append("    " * ind + "raise _Boom()")
                pad = "    " * base
                if chained:     # the same exception keeps propagating through the next manager
                    lines += [pad + "finally:", pad + f"    _p({i})"]
                else:
                    lines += [pad + "except _Boom:", pad + "    pass", pad + f"_p({i})"]
            else:
                lines.append("    " * base + f"_p({i})")
            ind = base
    return "\n".join(lines) + "\n"


class _FakeGate:
    """Pure-Python transcription of the statement, used ONLY to validate the generator
    of `with` source (gen_with_source) independently of the real gate."""

    def __init__(self):
        self.EXPERIMENTAL_FEATURES_ENABLED = False
        gate = self

        class _M:
            value = None

            def __init__(self):
                self.saved = gate.EXPERIMENTAL_FEATURES_ENABLED
                gate.EXPERIMENTAL_FEATURES_ENABLED = self.value

            def __enter__(self):
                return None

            def __exit__(self, *exc):
                gate.EXPERIMENTAL_FEATURES_ENABLED = self.saved

        self.enable_experimental_features = type("en", (_M,), {"value": True})
        self.disable_experimental_features = type("dis", (_M,), {"value": False})


def replay_with(seq, direct=False, X=None):
    fake = X is not None
    X = X or _X()
    X.EXPERIMENTAL_FEATURES_ENABLED = False
    obs = {}
    probes = {}

    def _p(i):
        obs[i] = X.EXPERIMENTAL_FEATURES_ENABLED
        if direct:
            probes[i] = direct_probe()

    def _k(i, prog):
        if fake:
            obs[i] = ("ok" if X.EXPERIMENTAL_FEATURES_ENABLED else "gate:experimental", X.EXPERIMENTAL_FEATURES_ENABLED)
        else:
            obs[i] = (pipeline_check(prog), X.EXPERIMENTAL_FEATURES_ENABLED)

    src = gen_with_source(seq)
    exec(compile(src, "<c33-with>", "exec"), {"X": X, "_p": _p, "_k": _k, "_Boom": _Boom})
    st = ROOT
    for i, ev in enumerate(seq):
        st = model_step(st, ev)
        if i not in obs:
            return {"key": "with:event-not-reached",
                    "what": f"real `with` code for {list(seq)} never reached the probe after event {i} "
                            f"(exception swallowed or leaked)", "at": i}
        o = obs[i]
        flag = o[1] if ev.startswith("k:") else o
        if flag != st[0]:
            what = ev if ev[0] != "x" else f"{ev}:{_mgr_of(seq, i)}"
            return {"key": f"flag:after-{what}" if not ev.startswith("k:") else "flag:changed-by-check",
                    "what": f"real `with` statements: after {list(seq[:i + 1])} the flag is {flag}, the model "
                            f"(restore previous setting) says {st[0]}", "at": i}
        if ev.startswith("k:"):
            k, txt = judge_check(ev[2:], o[0], st[0])
            if k:
                return {"key": k, "what": f"{txt}; real `with` history {list(seq[:i + 1])}", "at": i}
        if direct and i in probes:
            k, txt = judge_direct(probes[i], st[0])
            if k:
                return {"key": k, "what": f"{txt}; real `with` history {list(seq[:i + 1])}", "at": i}
    return None


# ------------------------------------------------------------------- enumeration
def sequences(alphabet, length):
    """All well-nested sequences of exactly `length` events (every shorter sequence
    is a prefix of one of them, and the comparison happens after every event)."""
    out = []

    def rec(seq, st):
        if len(seq) == length:
            out.append(tuple(seq))
            return
        for ev in alphabet:
            st2 = model_step(st, ev)
            if st2 is None:
                continue
            seq.append(ev)
            rec(seq, st2)
            seq.pop()

    rec([], ROOT)
    return out


def prefixes_count(alphabet, length):
    """Number of well-nested sequences of length 1..length (for reporting)."""
    from functools import lru_cache
    nk = sum(1 for e in alphabet if e.startswith("k:"))

    @lru_cache(None)
    def f(n, d):
        if n == 0:
            return 1
        t = (2 + nk) * f(n - 1, d)
        if d < MAX_DEPTH:
            t += 2 * f(n - 1, d + 1)
        if d > 0:
            t += 2 * f(n - 1, d - 1)
        return t

    return sum(f(n, 0) for n in range(1, length + 1))


def _w_batch(args):
    """Worker: replay a batch of sequences, return only aggregates and divergences."""
    mode, seqs = args
    n = chk = swallowed = 0
    counts = {}
    divs = []
    for seq in seqs:
        n += 1
        if mode in ("T1", "T2"):
            div, stats = replay_calls(seq, direct=(mode == "T1"))
            chk += stats[0]
            swallowed += stats[2]
            for k, v in stats[1].items():
                counts[k] = counts.get(k, 0) + v
        else:
            div = replay_with(seq, direct=(mode == "W1"))
        if div:
            divs.append((div["at"], seq, div))
    return (n, chk, counts, swallowed, divs)


def _batches(mode, seqs, size):
    return [(mode, seqs[i:i + size]) for i in range(0, len(seqs), size)]


# ------------------------------------------------------------------------ layer A
def bfs(ctx, depth_bound):
    alphabet = GATE + tuple("k:" + p for p in PROGRAMS)
    root = Real()
    start = (root.key(), ROOT)
    k, txt = judge_direct(direct_probe(), False)
    if k:
        ctx.violation(k, f"{txt}; history [] (initial state)", {"mode": "calls", "seq": []})
    seen = {start: ()}
    frontier = [start]
    transitions = 0
    checks = 0
    results = {}
    closure_variant = 0
    samples = []
    depth = 0
    while frontier and depth < depth_bound:
        nxt = []
        for node in frontier:
            path = seen[node]
            for ev in alphabet:
                st2 = model_step(node[1], ev)
                if st2 is None:
                    continue
                # rebuild from the root, then apply the event
                real = Real()
                for e in path:
                    real.apply(e)
                if real.key() != node[0]:
                    raise RuntimeError(f"harness: replaying {path} did not reproduce its state")
                res = real.apply(ev)
                transitions += 1
                seq = path + (ev,)
                if real.flag() != st2[0]:
                    what = ev if ev[0] != "x" else f"{ev}:{_mgr_of(seq, len(seq) - 1)}"
                    ctx.violation(f"flag:after-{what}" if not ev.startswith("k:") else "flag:changed-by-check",
                                  f"after {list(seq)} the real flag is {real.flag()}, the model (restore "
                                  f"previous setting) says {st2[0]}", {"mode": "calls", "seq": list(seq)})
                    continue
                if ev.startswith("k:"):
                    checks += 1
                    results[res] = results.get(res, 0) + 1
                    closure_variant += res == "gate:unsupported-closure"
                    if real.key() != node[0]:
                        ctx.violation("check-changes-gate-state",
                                      f"check event {ev} changed the gate state after {list(path)}",
                                      {"mode": "calls", "seq": list(seq)})
                    k, txt = judge_check(ev[2:], res, st2[0])
                    if k:
                        ctx.violation(k, f"{txt}; history {list(seq)}", {"mode": "calls", "seq": list(seq)})
                    if len(samples) < 4 and len(path) >= 3 and checks % 37 == 0:
                        samples.append({"history": list(seq), "model_flag": st2[0], "real_flag": real.flag(),
                                        "check": res})
                    continue
                k, txt = judge_direct(direct_probe(), st2[0])
                if k:
                    ctx.violation(k, f"{txt}; history {list(seq)}", {"mode": "calls", "seq": list(seq)})
                new = (real.key(), st2)
                if new not in seen:
                    seen[new] = seq
                    nxt.append(new)
        frontier = nxt
        depth += 1
    return {"states": len(seen), "transitions": transitions, "checks": checks, "results": results,
            "closure_variant": closure_variant, "samples": samples, "fixpoint": not frontier,
            "depth": depth}


# ------------------------------------------------------------------------ layer D
def define_vs_check(ctx):
    """Program defined (decorated) under flag a, checked under flag b."""
    from vlib import gload
    X = _X()
    n = 0
    for prog in PROGRAMS:
        for a in (False, True):
            for b in (False, True):
                X.EXPERIMENTAL_FEATURES_ENABLED = False
                if a:
                    X.enable_experimental_features()
                with warnings.catch_warnings():
                    warnings.simplefilter("ignore", SyntaxWarning)
                    mod = gload.load(PRE + PROGRAMS[prog])
                (X.enable_experimental_features if b else X.disable_experimental_features)()
                res = pipeline_check(prog, premod=mod)
                gload.unload(mod)
                n += 1
                k, txt = judge_check(prog, res, b)
                if k:
                    ctx.violation(k + (":defined-under-other-setting" if a != b else ""),
                                  f"{txt}; program was defined with the flag {a} and checked with the flag {b}",
                                  {"mode": "define", "prog": prog, "a": a, "b": b})
    X.EXPERIMENTAL_FEATURES_ENABLED = False
    return n


def replay_define(item):
    from vlib import gload
    X = _X()
    X.EXPERIMENTAL_FEATURES_ENABLED = item["a"]
    mod = gload.load(PRE + PROGRAMS[item["prog"]])
    X.EXPERIMENTAL_FEATURES_ENABLED = item["b"]
    res = pipeline_check(item["prog"], premod=mod)
    k, txt = judge_check(item["prog"], res, item["b"])
    return {"violation": bool(k), "result": res, "detail": txt}


# ------------------------------------------------------------------------ layer U
def unspecified(ctx):
    """Enumerated, counted, never judged."""
    X = _X()
    out = {}
    # (1) non-LIFO exits: up to 3 managers, exits may name any open manager
    n = agree = 0

    def rec(seq, opened, openset, length):
        nonlocal n, agree
        if any(seq[i][0] == "x" and seq[i][2] for i in range(len(seq))):
            # at least one non-LIFO exit so far: replay and compare with the
            # "every manager restores the value it saved" reading
            X.EXPERIMENTAL_FEATURES_ENABLED = False
            mgrs = []
            flag = False
            saved = []
            same = True
            for ev in seq:
                if ev[0] == "c":
                    (X.enable_experimental_features if ev[1] else X.disable_experimental_features)()
                    flag = ev[1]
                elif ev[0] == "w":
                    m = (X.enable_experimental_features if ev[1] else X.disable_experimental_features)()
                    m.__enter__()
                    mgrs.append(m)
                    saved.append(flag)
                    flag = ev[1]
                else:
                    mgrs[ev[1]].__exit__(None, None, None)
                    flag = saved[ev[1]]
                same = same and X.EXPERIMENTAL_FEATURES_ENABLED == flag
            n += 1
            agree += same
        if len(seq) == length:
            return
        for v in (True, False):
            rec(seq + [("c", v)], opened, openset, length)
            if opened < 3:
                rec(seq + [("w", v)], opened + 1, openset + [opened], length)
        for idx in openset:
            rec(seq + [("x", idx, idx != openset[-1])], opened, [o for o in openset if o != idx], length)

    rec([], 0, [], 5)
    out["non_lifo_sequences_unspecified_not_checked"] = n
    out["non_lifo_agreeing_with_each_manager_restores_its_own_saved_value"] = agree
    # (2) manager object constructed first, entered later
    n2 = differs = 0
    for k1 in (True, False):
        for mid in ((), ("ce",), ("cd",), ("we", "xn"), ("wd", "xn")):
            X.EXPERIMENTAL_FEATURES_ENABLED = False
            m = (X.enable_experimental_features if k1 else X.disable_experimental_features)()
            r = Real.__new__(Real)
            r.stack, r.swallowed = [], 0
            for e in mid:
                r.apply(e)
            m.__enter__()
            n2 += 1
            differs += X.EXPERIMENTAL_FEATURES_ENABLED != k1
            m.__exit__(None, None, None)
    out["deferred_enter_cases_unspecified_not_checked"] = n2
    out["deferred_enter_body_runs_with_other_setting"] = differs
    # (3) re-checking the SAME definition after the flag changed
    from vlib import gload
    n3 = 0
    rr = {}
    for prog in ("list_lit", "tensor", "closure", "dagger"):
        for first in (False, True):
            X.EXPERIMENTAL_FEATURES_ENABLED = first
            with warnings.catch_warnings():
                warnings.simplefilter("ignore", SyntaxWarning)
                mod = gload.load(PRE + PROGRAMS[prog])
            r1 = pipeline_check(prog, premod=mod)
            X.EXPERIMENTAL_FEATURES_ENABLED = not first
            r2 = pipeline_check(prog, premod=mod)
            gload.unload(mod)
            n3 += 1
            tag = f"first={'on' if first else 'off'}:{r1.split(':')[0]}->{r2.split(':')[0]}"
            rr[tag] = rr.get(tag, 0) + 1
    X.EXPERIMENTAL_FEATURES_ENABLED = False
    out["recheck_same_definition_cases_unspecified_not_checked"] = n3
    out["recheck_same_definition_outcomes"] = rr
    return out


# --------------------------------------------------------------------------- run
def run(ctx):
    X = _X()
    if X.EXPERIMENTAL_FEATURES_ENABLED is not False:
        raise RuntimeError("harness: gate is not in its initial state")
    quick = ctx.quick
    L_bfs = 6 if quick else 8
    L_gate = 6 if quick else 8
    L_full = 4 if quick else 5

    import time
    t0 = time.time()
    a = bfs(ctx, L_bfs)
    ctx.say(f"C33 layer A: {a['states']} states, {a['transitions']} transitions, {a['checks']} checks, "
            f"fixpoint={a['fixpoint']} [{time.time() - t0:.1f}s]")

    gate_seqs = sequences(GATE, L_gate)
    full_alpha = GATE + tuple("k:" + p for p in TREE_PROGS)
    full_seqs = sequences(full_alpha, L_full)
    w1_items = []
    for n in range(1, L_gate + 1):
        w1_items += [s for s in sequences(GATE, n) if balanced(s)]
    w2_items = []
    for n in range(1, L_full + 1):
        w2_items += [s for s in sequences(full_alpha, n) if balanced(s) and any(e.startswith("k:") for e in s)
                     and any(e[0] in "wx" for e in s)]
    # sanity of the generator of real `with` code: a transcription of the statement run
    # through the same generated source must agree with the stack model everywhere
    for s in w1_items + w2_items:
        if len(s) <= 6 and replay_with(s, X=_FakeGate()) is not None:
            raise RuntimeError(f"harness: generated `with` source is wrong for {s}:\n{gen_with_source(s)}")

    # one fork pool for all four layers (T1, T2, W1, W2)
    batches = (_batches("T1", gate_seqs, 256) + _batches("T2", full_seqs, 64)
               + _batches("W1", w1_items, 256) + _batches("W2", w2_items, 64))
    agg = {m: {"n": 0, "chk": 0, "sw": 0, "counts": {}, "divs": []} for m in ("T1", "T2", "W1", "W2")}
    for (mode, _), (bn, bchk, bcounts, bsw, bdivs) in zip(batches, ctx.pmap(_w_batch, batches, chunk=1, recycle=100000)):
        g = agg[mode]
        g["n"] += bn
        g["chk"] += bchk
        g["sw"] += bsw
        for k, v in bcounts.items():
            g["counts"][k] = g["counts"].get(k, 0) + v
        g["divs"] += bdivs
    for mode in ("T1", "T2", "W1", "W2"):      # the SHORTEST failing history of each key first
        for at, seq, div in sorted(agg[mode]["divs"], key=lambda d: (d[0], d[1])):
            ctx.violation(div["key"], div["what"],
                          {"mode": "with" if mode[0] == "W" else "calls", "seq": list(seq)})
    n_t1, sw1 = agg["T1"]["n"], agg["T1"]["sw"]
    n_t2, chk_t2, counts_t2, sw2 = agg["T2"]["n"], agg["T2"]["chk"], agg["T2"]["counts"], agg["T2"]["sw"]
    ctx.say(f"C33 layer T: {n_t1} gate-only sequences of length {L_gate}, {n_t2} interleaved sequences of "
            f"length {L_full} with {chk_t2} pipeline checks")
    exc_paths = sum("xe" in s for s in w1_items) + sum("xe" in s for s in w2_items)
    ctx.say(f"C33 layer W: {len(w1_items)} + {len(w2_items)} balanced sequences as real `with` code [{time.time() - t0:.1f}s]")

    n_d = define_vs_check(ctx)
    ctx.say(f"C33 layer D: {n_d} cases [{time.time() - t0:.1f}s]")
    from checks import c33b
    pcov = c33b.run_layer(ctx)
    ctx.say(f"C33 layer P: {pcov['position_programs']} feature x position programs, {pcov['position_judged']} judged [{time.time() - t0:.1f}s]")
    u = unspecified(ctx)
    ctx.say(f"C33 layer U done [{time.time() - t0:.1f}s]")

    results = dict(a["results"])
    for k, v in counts_t2.items():
        results[k] = results.get(k, 0) + v
    harness_bad = sum(v for k, v in results.items() if k.startswith("crash:"))
    samples = a["samples"] + [
        {"history": list(full_seqs[len(full_seqs) // 3]), "layer": "T2"},
        {"with_source": gen_with_source(("we", "cd", "wd", "xe", "xe")), "layer": "W"},
    ]
    cov = {
        "states": a["states"],
        "transitions": a["transitions"],
        "traces_validated_against_impl": n_t1 + n_t2 + len(w1_items) + len(w2_items),
        "samples": samples,
        "evaluations": a["transitions"] + n_t1 * L_gate + n_t2 * L_full + len(w1_items) + len(w2_items) + n_d,
        "distinct_nontrivial": a["states"] - 2,
        "rule": "non-trivial state = at least one pending context manager (flag x stack of (manager class, saved value))",
        "bfs_depth_bound": L_bfs, "bfs_depth_completed": a["depth"], "bfs_reached_fixpoint": a["fixpoint"],
        "dedup": "on (measured real state incl. every manager's class and __dict__, model state); checks verified to be self loops",
        "tree_gate_only_length": L_gate, "tree_gate_only_maximal_sequences": n_t1,
        "tree_gate_only_sequences_incl_prefixes": prefixes_count(GATE, L_gate),
        "tree_interleaved_length": L_full, "tree_interleaved_maximal_sequences": n_t2,
        "tree_interleaved_sequences_incl_prefixes": prefixes_count(full_alpha, L_full),
        "real_with_statement_sequences": len(w1_items) + len(w2_items),
        "real_with_statement_sequences_with_exception": exc_paths,
        "pipeline_checks": a["checks"] + chk_t2,
        "pipeline_check_outcomes": results,
        "closure_gate_error_is_UnsupportedError_accepted": results.get("gate:unsupported-closure", 0),
        "define_vs_check_cases": n_d,
        "exit_swallowed_exception": sw1 + sw2,
        "check_crashes": harness_bad,
        "gated_programs": sorted(PROGRAMS),
    }
    cov.update(u)
    cov.update(pcov)
    if harness_bad and not ctx.violations:
        raise RuntimeError(f"harness: {harness_bad} pipeline checks crashed: {results}")
    return cov


def replay(ctx, item):
    mode = item.get("mode")
    if mode == "position":
        from checks import c33b
        return c33b.replay(ctx, item)
    if mode == "define":
        return replay_define(item)
    seq = tuple(item["seq"])
    if mode == "with":
        div = replay_with(seq, direct=True)
        return {"violation": bool(div), "detail": div, "source": gen_with_source(seq)}
    div, stats = replay_calls(seq, direct=True)
    return {"violation": bool(div), "detail": div, "stats": str(stats)}
