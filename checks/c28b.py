"""C28 part B — the EmulatorBuilder: deriving a builder configuration never changes an
earlier one.

History exploration on REAL guppylang.emulator.builder.EmulatorBuilder objects.  Events
(applied to any builder created so far, pool <= 4): with_name(a|b), with_build_dir(p|None),
with_verbose(True|False), with_build_arg(k1,1 | k1,2 | k2,3), build().  After every event
every tracked builder is observed: the keyword arguments its build() hands to
selene_sim.build (recorded by a stub put in place of selene_sim.build), its public
properties and its dataclass fields.  Invariant: an event never changes the observation of
a builder that existed before the event.  All histories up to the depth bound are
enumerated; every history is rebuilt from a fresh root.
"""
from __future__ import annotations

import dataclasses
import itertools
from pathlib import Path

POOL_MAX = 4
EVENTS = [("name", "a"), ("name", "b"), ("dir", "/tmp/x"), ("dir", None), ("verbose", True), ("verbose", False),
          ("arg", ("k1", 1)), ("arg", ("k1", 2)), ("arg", ("k2", 3)), ("build", None)]


class World:
    def __init__(self):
        import guppylang.emulator.builder as B
        self.B = B
        self.pool = [B.EmulatorBuilder()]
        self.calls = []

    def _build_stub(self, package, **kw):
        self.calls.append(tuple(sorted((k, repr(v)) for k, v in kw.items())))
        return object()

    def observe(self, b):
        real = self.B.selene_sim.build
        self.B.selene_sim.build = self._build_stub
        try:
            self.calls.clear()
            b.build(None, 1)
            kw = self.calls[-1] if self.calls else ("build-did-not-reach-selene",)
        finally:
            self.B.selene_sim.build = real
        fields = tuple((f.name, repr(getattr(b, f.name))) for f in dataclasses.fields(b))
        return (kw, repr(b.name), repr(b.build_dir), repr(b.verbose), repr(b.custom_args), fields)

    def apply(self, ev, i):
        kind, arg = ev
        b = self.pool[i]
        if kind == "name":
            new = b.with_name(arg)
        elif kind == "dir":
            new = b.with_build_dir(Path(arg) if arg else None)
        elif kind == "verbose":
            new = b.with_verbose(arg)
        elif kind == "arg":
            new = b.with_build_arg(*arg)
        else:
            self.observe(b)
            return
        if len(self.pool) < POOL_MAX:
            self.pool.append(new)


def histories(depth, npool0=1):
    """All sequences of (event, target index) with valid targets, starting with npool0 builders."""
    def rec(prefix, npool):
        yield prefix
        if len(prefix) == depth:
            return
        for ev in EVENTS:
            for i in range(npool):
                grow = ev[0] != "build" and npool < POOL_MAX
                yield from rec(prefix + ((ev, i),), npool + (1 if grow else 0))
    return rec((), npool0)


def _job(prefix_depth):
    first, depth = prefix_depth
    found = {}
    n = trans = 0
    states = set()
    for h in histories(depth - 1, 2 if first[0][0] != "build" else 1):
        hist = (first,) + h
        if len(hist) < 1:
            continue
        # check the LAST event of every history (all shorter prefixes are histories of their own)
        w = World()
        for ev, i in hist[:-1]:
            w.apply(ev, i)
        before = [w.observe(b) for b in w.pool]
        ev, i = hist[-1]
        w.apply(ev, i)
        after = [w.observe(b) for b in w.pool]
        n += 1
        trans += 1
        states.add(tuple(after))
        # observing a builder BUILDS it, and the observations above are taken in pool order: to see an effect that an
        # observation of an earlier builder would itself have caused, every builder is also compared across two fresh
        # worlds in which it is the ONLY builder ever observed (history without / with the last event)
        for idx in range(len(before)):
            w1, w2 = World(), World()
            for e, j in hist[:-1]:
                w1.apply(e, j)
            for e, j in hist[:-1]:
                w2.apply(e, j)
            w2.apply(ev, i)
            o1, o2 = w1.observe(w1.pool[idx]), w2.observe(w2.pool[idx])
            if o1 != o2 and before[idx] == after[idx]:
                before[idx], after[idx] = o1, o2
        for idx, (b, a) in enumerate(zip(before, after)):
            if b != a:
                what = [name for name, x, y in zip(("build-kwargs", "name", "build_dir", "verbose", "custom_args", "fields"), b, a) if x != y]
                key = f"builder:derive-changes-earlier-builder:by-with_{'build_arg' if ev[0] == 'arg' else ev[0]}:{'+'.join(what)}"
                cand = (len(hist), repr(hist))
                if key not in found or cand < found[key][0]:
                    found[key] = (cand, f"builder #{idx} changed by event {ev} on builder #{i} after history "
                                        f"{[(e, j) for e, j in hist[:-1]]}: before {b[4]} / {b[0]}, after {a[4]} / {a[0]}",
                                  [[list(e) if not isinstance(e[1], tuple) else [e[0], list(e[1])], j] for e, j in hist], idx)
    return n, trans, len(states), found


def run_part(ctx):
    depth = 3 if ctx.quick else 4
    firsts = [((ev, 0), depth) for ev in EVENTS]
    res = ctx.pmap(_job, firsts, chunk=1)
    n = trans = st = 0
    for k, t, s, found in res:
        n += k
        trans += t
        st += s
        for key, (cand, what, hist, idx) in found.items():
            ctx.violation(key, what, {"part": "builder", "history": hist, "idx": idx})
    return {"builder_histories": n, "builder_transitions": trans, "builder_states_observed": st, "builder_depth": depth,
            "builder_events": [f"{k}:{a}" for k, a in EVENTS]}


def replay(ctx, item):
    w = World()
    hist = [((e[0], tuple(e[1]) if isinstance(e[1], list) else e[1]), j) for e, j in item["history"]]
    for ev, i in hist[:-1]:
        w.apply(ev, i)
    before = [w.observe(b) for b in w.pool]
    w.apply(*hist[-1])
    after = [w.observe(b) for b in w.pool]
    bad = [i for i, (b, a) in enumerate(zip(before, after)) if b != a]
    # ... and with the one builder as the only one ever observed (see _job)
    solo = []
    for idx in range(len(before)):
        w1, w2 = World(), World()
        for ev, i in hist[:-1]:
            w1.apply(ev, i)
            w2.apply(ev, i)
        w2.apply(*hist[-1])
        if w1.observe(w1.pool[idx]) != w2.observe(w2.pool[idx]):
            solo.append(idx)
    return {"violation": bool(bad or solo), "changed_builders": bad, "changed_builders_observed_alone": solo}
