"""C06 — Linearity: qubits are used exactly once on every path.

Bounded-exhaustive model checking of the linearity checker
(guppylang_internals/checker/linearity_checker.py) in both directions.

Every program of a small structured grammar (vlib.progenum; opaque bool parameters
as conditions, so every structural path counts) over the qubit places

    q, r           locals                 t[0], t[1]   elements of the tuple t
    o              owned parameter        s.f          field of the struct s = S(..)
    p              borrowed parameter     u.f, u.g     fields of the struct u = S2(.., ..)

is (1) walked by a reference model - one ownership automaton per leaf place,

    U undefined | O owned | C consumed/moved-out | L lent to us by the caller (p)

explored in product with the structured control flow to closure
(vlib.progenum.explore_paths) - and (2) handed to the real `check()`.

Model rules (from the property statement):
  borrow  h(x)             x must be O or L                       else use-after-consume
  take    consume(x), r = x, return x, S(x), (x, y), x, y = t
                           x must be O; becomes C                 C: use-after-consume
                                                                  L: not-owned (borrowed
                                                                  args are handed back)
  assign  x = ...          x must not be O (the old value would be silently
                           discarded: overwrite-leak); becomes O
  exit    return / end     no place may be O (leak-at-exit); p is still L
  a read of a U place is an *undefined variable* (C08's territory, not linearity):
  the path ends there and the program is classified UNDEF unless some other path
  has a linearity violation.
  assigning to the borrowed parameter p is a boundary case the statement does not
  settle ("exotic"): the path ends, and if the verdict would be SAFE both outcomes
  are accepted and counted.

Families (atoms listed in FAMILIES; "prefix" statements are not counted in the bound):
  core      q, r all undefined at entry         live      `q = qubit()` up front
  params    borrowed p / owned o                retq      function returns a qubit
  tuple     t = (.., ..), unpacking, t[i]       struct    one-field struct, field moves
  struct2   two-field struct: partial moves     balanced  composite atoms (reset q, move
  core+     more atoms (thorough)                         through r): reaches deep SAFE programs
  exotic    boundary rules (assigning to the borrowed parameter, returning fields, ...)
Programs never contain code after return/break/continue, and the signature mentions
p / o only if the body does.

Oracle:   model VIOLATION  =>  check() must reject            (soundness)
          model SAFE       =>  check() must accept            (completeness on the core
                               fragment), and compile_function() + the real HUGR
                               validator must succeed
          model UNDEF      =>  not replayed (counted)
"""
from __future__ import annotations

from vlib import progenum as pg
from vlib.progenum import Atom

ID = "C06"
LEVEL = "model_checking"

PLACES = ("q", "r", "o", "p", "t0", "t1", "sf", "uf", "ug", "a0", "a1")
IDX = {v: i for i, v in enumerate(PLACES)}
LINEAR_TITLES = {"Copy violation", "Drop violation", "Not owned", "Borrow shadowed"}


def B(x):
    return ("B", x)


def T(x, kind="consume"):
    return ("T", x, kind)


def P(x):
    return ("P", x)


def _a(name, text, *ops, kind="plain"):
    return Atom(name, text, tuple(ops), kind=kind)


A = {a.name: a for a in [
    # locals
    _a("q=new", "q = qubit()", P("q")),
    _a("r=new", "r = qubit()", P("r")),
    _a("h(q)", "h(q)", B("q")),
    _a("h(r)", "h(r)", B("r")),
    _a("consume(q)", "consume(q)", T("q")),
    _a("consume(r)", "consume(r)", T("r")),
    _a("r=q", "r = q", T("q", "move"), P("r")),
    # the variable is re-bound to a classical value (another type): the qubit state of `q` ends here
    _a("q=1", "q = 1", ("PN", "q")),
    _a("use-int(q)", 'result("q", q)', ("BN", "q")),
    _a("q=r", "q = r", T("r", "move"), P("q")),
    # parameters
    _a("h(p)", "h(p)", B("p")),
    _a("consume(p)", "consume(p)", T("p")),
    _a("r=p", "r = p", T("p", "move"), P("r")),
    _a("p=new", "p = qubit()", P("p")),
    _a("h(o)", "h(o)", B("o")),
    _a("consume(o)", "consume(o)", T("o")),
    _a("r=o", "r = o", T("o", "move"), P("r")),
    _a("o=new", "o = qubit()", P("o")),
    _a("o=q", "o = q", T("q", "move"), P("o")),
    # tuples
    _a("t=(new,new)", "t = (qubit(), qubit())", P("t0"), P("t1")),
    _a("t=(q,r)", "t = (q, r)", T("q", "move"), T("r", "move"), P("t0"), P("t1")),
    _a("t=(q,q)", "t = (q, q)", T("q", "move"), T("q", "move"), P("t0"), P("t1")),
    _a("q,r=t", "q, r = t", T("t0", "move"), T("t1", "move"), P("q"), P("r")),
    _a("consume(t[0])", "consume(t[0])", T("t0")),
    _a("consume(t[1])", "consume(t[1])", T("t1")),
    _a("h(t[1])", "h(t[1])", B("t1")),
    _a("consume_t(t)", "consume_t(t)", T("t0"), T("t1")),
    # structs
    _a("s=S(new)", "s = S(qubit())", P("sf")),
    _a("s=S(q)", "s = S(q)", T("q", "move"), P("sf")),
    _a("h(s.f)", "h(s.f)", B("sf")),
    _a("borrow_s(s)", "borrow_s(s)", B("sf")),
    _a("consume(s.f)", "consume(s.f)", T("sf")),
    _a("s.f=new", "s.f = qubit()", ("PF", "sf")),
    _a("consume_s(s)", "consume_s(s)", T("sf")),
    _a("q=s.f", "q = s.f", T("sf", "move"), P("q")),
    # struct with two linear fields (partial moves)
    _a("u=S2(new,new)", "u = S2(qubit(), qubit())", P("uf"), P("ug")),
    _a("consume(u.f)", "consume(u.f)", T("uf")),
    _a("consume(u.g)", "consume(u.g)", T("ug")),
    _a("h(u.g)", "h(u.g)", B("ug")),
    _a("u.f=new", "u.f = qubit()", ("PF", "uf")),
    _a("u.g=new", "u.g = qubit()", ("PF", "ug")),
    _a("q=u.f", "q = u.f", T("uf", "move"), P("q")),
    _a("consume_u(u)", "consume_u(u)", T("uf"), T("ug")),
    # composite atoms that keep a qubit's life-cycle balanced (used to reach deeper
    # *safe* programs within the same statement bound)
    _a("reset(q)", "consume(q)\nq = qubit()", T("q"), P("q")),
    _a("q-via-r", "r = q\nq = r", T("q", "move"), P("r"), T("r", "move"), P("q")),
    _a("h(q);h(q)", "h(q)\nh(q)", B("q"), B("q")),
    _a("consume(q);return", "consume(q)\nreturn", T("q"), kind="return"),
    # ---- the same borrow / take operations through every other CALL MECHANISM and syntactic form
    _a("barrier(q)", "barrier(q)", B("q")),
    _a("barrier(q,r)", "barrier(q, r)", B("q"), B("r")),
    _a("state_result(q)", 'state_result("t", q)', B("q")),
    _a("fv-borrow(q)", "fb = h\nfb(q)", B("q")),
    _a("app-borrow(q)", "app(h, q)", B("q")),
    _a("fv-consume(q)", "fc = consume\nfc(q)", T("q")),
    _a("app-consume(q)", "appo(consume, q)", T("q")),
    _a("consume(ident(q))", "consume(ident(q))", T("q")),
    _a("q=ident(q)", "q = ident(q)", T("q"), P("q")),
    _a("tensor-borrow(q,r)", "(h, h)(q, r)", B("q"), B("r")),
    _a("tensor-consume(q,r)", "(consume, consume)(q, r)", T("q"), T("r")),
    _a("tensor-mixed(q,r)", "(h, consume)(q, r)", B("q"), T("r")),
    _a("capture(q)", "def k() -> None:\n    h(q)", ("XC", "q")),
    # ONE place twice in the same call (lent twice, lent and moved): illegal whatever came before - and wherever the call
    # stands (entry block, branch, loop body, after a join; place defined in this block or an earlier one)
    _a("cx(q,q)", "cx(q, q)", ("XC", "q")),
    _a("cx(q,r)", "cx(q, r)", B("q"), B("r")),
    _a("lend-and-move(q,q)", "lm(q, q)", ("XC", "q")),
    _a("move-and-lend(q,q)", "ml(q, q)", ("XC", "q")),
    _a("cx(p,p)", "cx(p, p)", ("XC", "p")),
    _a("cx(o,o)", "cx(o, o)", ("XC", "o")),
    _a("cx(p,o)", "cx(p, o)", B("p"), B("o")),
    _a("cx(s.f,s.f)", "cx(s.f, s.f)", ("XC", "sf")),
    _a("cx(t[0],t[0])", "cx(t[0], t[0])", ("XC", "t0")),
    # arrays of qubits: elements can be lent but not moved out
    _a("qs=array(new,new)", "qs = array(qubit(), qubit())", P("a0"), P("a1")),
    _a("qs=array(q,r)", "qs = array(q, r)", T("q", "move"), T("r", "move"), P("a0"), P("a1")),
    _a("h(qs[0])", "h(qs[0])", B("a0")),
    _a("h(qs[1])", "h(qs[1])", B("a1")),
    _a("cx(qs[0],qs[1])", "cx(qs[0], qs[1])", B("a0"), B("a1")),
    _a("consume(qs[0])", "consume(qs[0])", ("XC", "a0")),
    _a("q=qs[1]", "q = qs[1]", ("XC", "a1")),
    _a("discard_array(qs)", "discard_array(qs)", T("a0"), T("a1")),
    _a("q,r=qs", "q, r = qs", T("a0", "move"), T("a1", "move"), P("q"), P("r")),
    _a("comp-measure(qs)", "bs = array(measure(x) for x in qs)", T("a0"), T("a1")),
    _a("for-consume(qs)", "for x in qs:\n    consume(x)", T("a0"), T("a1")),
    # projections out of UNNAMED tuples / structs / arrays: every other linear component is lost
    _a("r=pair()[0]", "r = mkpair()[0]", ("XV", "r")),
    _a("r=pair()[1]", "r = mkpair()[1]", ("XV", "r")),
    _a("r=triple()[1]", "r = mktriple()[1]", ("XV", "r")),
    _a("r=triple()[2]", "r = mktriple()[2]", ("XV", "r")),
    _a("r=mixed()[0]", "r = mkmixed()[0]", P("r")),
    _a("k=mixed()[1]", "k = mkmixed()[1]", ("XV", "r")),
    _a("r=mixed2()[1]", "r = mkmixed2()[1]", P("r")),
    _a("k=mixed2()[0]", "k = mkmixed2()[0]", ("XV", "r")),
    _a("r=mks2().g", "r = mks2().g", ("XV", "r")),
    _a("r=mks2().f", "r = mks2().f", ("XV", "r")),
    _a("r=mks().f", "r = mks().f", P("r")),
    _a("r=mkarr()[0]", "r = mkarr()[0]", ("XV", "r")),
    _a("r=(q,new)[0]", "r = (q, qubit())[0]", ("XV", "r")),
    _a("r=(1,q)[1]", "r = (1, q)[1]", T("q", "move"), P("r")),
    # returns
    _a("return", "return", kind="return"),
    _a("return q", "return q", T("q", "return"), kind="return"),
    _a("return r", "return r", T("r", "return"), kind="return"),
    _a("return o", "return o", T("o", "return"), kind="return"),
    _a("return p", "return p", T("p", "return"), kind="return"),
    _a("return s.f", "return s.f", T("sf", "return"), kind="return"),
    _a("return new", "return qubit()", kind="return"),
]}
ALL_ATOMS = tuple(A.values())


def _pick(*names):
    return tuple(A[n] for n in names)


# family -> (prefix atoms [not counted in the bound], atoms, return type)
FAMILIES = {
    # everything starts undefined
    "core": ((), _pick("q=new", "h(q)", "consume(q)", "r=q", "consume(r)", "return"), "None"),
    "retype": (_pick("q=new"), _pick("h(q)", "consume(q)", "q=1", "use-int(q)", "return"), "None"),
    # q is live from the start
    "live": (_pick("q=new"),
             _pick("q=new", "h(q)", "consume(q)", "r=q", "consume(r)", "return"), "None"),
    "params": ((), _pick("h(p)", "consume(p)", "r=p", "consume(r)", "h(o)", "consume(o)", "r=o",
                         "o=new", "return"), "None"),
    "tuple": (_pick("t=(new,new)"),
              _pick("t=(new,new)", "t=(q,r)", "q,r=t", "consume(q)", "consume(r)",
                    "consume(t[0])", "h(t[1])", "consume(t[1])", "consume_t(t)", "return"), "None"),
    "struct": (_pick("s=S(new)"),
               _pick("s=S(new)", "s=S(q)", "q=s.f", "h(s.f)", "consume(s.f)", "s.f=new",
                     "consume_s(s)", "consume(q)", "return"), "None"),
    "struct2": (_pick("u=S2(new,new)"),
                _pick("consume(u.f)", "consume(u.g)", "h(u.g)", "u.f=new", "u.g=new", "q=u.f",
                      "consume(q)", "consume_u(u)", "return"), "None"),
    "retq": ((), _pick("q=new", "h(q)", "consume(q)", "consume(o)", "return q", "return o",
                       "return new"), "qubit"),
    # q live from the start, composite atoms: most programs are close to safe
    "balanced": (_pick("q=new"),
                 _pick("h(q);h(q)", "reset(q)", "q-via-r", "consume(q)", "q=new",
                       "consume(q);return", "return"), "None"),
    # the same life-cycle through other call mechanisms (function values, functions passed on, identity
    # through a call, barrier / state_result, closures) ...
    "forms": (_pick("q=new"),
              _pick("barrier(q)", "state_result(q)", "fv-borrow(q)", "app-borrow(q)", "fv-consume(q)", "app-consume(q)",
                    "consume(ident(q))", "q=ident(q)", "capture(q)", "consume(q)", "q=new", "return"), "None"),
    # ... function tensors over two qubits ...
    "tensor": (_pick("q=new", "r=new"),
               _pick("tensor-borrow(q,r)", "tensor-consume(q,r)", "tensor-mixed(q,r)", "barrier(q,r)", "consume(q)",
                     "consume(r)", "r=new", "return"), "None"),
    # ... and arrays of qubits
    "arrays": (_pick("qs=array(new,new)"),
               _pick("h(qs[0])", "cx(qs[0],qs[1])", "consume(qs[0])", "q=qs[1]", "discard_array(qs)", "q,r=qs",
                     "comp-measure(qs)", "for-consume(qs)", "qs=array(q,r)", "consume(q)", "consume(r)", "return"), "None"),
    "project": (_pick("q=new"),
                _pick("r=pair()[0]", "r=pair()[1]", "r=triple()[1]", "r=triple()[2]", "r=mixed()[0]", "k=mixed()[1]", "r=mixed2()[1]",
                      "k=mixed2()[0]", "r=mks2().g", "r=mks2().f", "r=mks().f", "r=mkarr()[0]", "r=(q,new)[0]", "r=(1,q)[1]",
                      "consume(r)", "consume(q)", "return"), "None"),
    "samecall": (_pick("q=new"),
                 _pick("cx(q,q)", "lend-and-move(q,q)", "move-and-lend(q,q)", "cx(q,r)", "r=new", "h(q)", "consume(q)", "consume(r)",
                       "q=new", "return"), "None"),
    "samecall-places": (_pick("t=(new,new)", "s=S(new)"),
                        _pick("cx(p,p)", "cx(o,o)", "cx(p,o)", "cx(s.f,s.f)", "cx(t[0],t[0])", "h(p)", "consume(o)", "consume_s(s)",
                              "consume_t(t)", "return"), "None"),
    # thorough only
    "core+": (_pick("q=new"),
              _pick("q=new", "r=new", "h(q)", "h(r)", "consume(q)", "consume(r)", "r=q", "q=r",
                    "h(p)", "consume(o)", "return"), "None"),
    "exotic": ((), _pick("p=new", "h(p)", "consume(p)", "return p", "o=new", "o=q", "q=new",
                         "consume(o)", "return o", "t=(q,q)", "borrow_s(s)", "s=S(q)",
                         "return s.f", "return new"), "qubit"),
}


# tier -> list of (family, max_stmts, max_depth)
def bounds(tier: str):
    if tier == "quick":
        return [("core", 4, 2), ("live", 4, 2), ("params", 3, 2), ("tuple", 3, 2),
                ("struct", 3, 2), ("struct2", 3, 2), ("retq", 3, 2), ("balanced", 3, 2), ("exotic", 2, 1),
                ("forms", 3, 2), ("tensor", 3, 2), ("arrays", 3, 2), ("project", 2, 1), ("retype", 5, 2),
                ("samecall", 3, 2), ("samecall-places", 3, 2)]
    return [("core", 5, 3), ("live", 5, 3), ("params", 4, 3), ("tuple", 4, 2), ("struct", 4, 2),
            ("struct2", 4, 2), ("retq", 4, 3), ("balanced", 4, 3), ("core+", 4, 2), ("exotic", 3, 2),
            ("forms", 4, 2), ("tensor", 4, 2), ("arrays", 4, 2), ("project", 3, 2), ("retype", 5, 3),
            ("samecall", 4, 3), ("samecall-places", 4, 2)]


def programs(tier: str):
    """The complete bounded space: (family, body); body includes the family prefix."""
    for fam, n, d in bounds(tier):
        prefix, atoms, _ = FAMILIES[fam]
        pre = tuple(("a", a) for a in prefix)
        for body in pg.enumerate_bodies(atoms, n, d, loops=("while",)):
            yield (fam, pre + body)


# --------------------------------------------------------------------- reference model
def _mentions(body, out: set) -> set:
    for st in body:
        if st[0] == "a":
            for op in st[1].meta:
                out.add(op[1])
        elif st[0] == "if":
            _mentions(st[1], out)
            _mentions(st[2], out)
        elif st[0] == "while":
            _mentions(st[1], out)
    return out


def _step_factory(events: set):
    def step(state, atom, point):
        st = list(state)
        for op in atom.meta:
            i = IDX[op[1]]
            cur = st[i]
            if op[0] in ("B", "T") and cur == "N":
                events.add("undef")          # a qubit operation on an int: type error, not linearity
                return ()
            if op[0] == "B":
                if cur == "U":
                    events.add("undef")
                    return ()
                if cur == "C":
                    events.add("viol:use-after-consume")
                    return ()
            elif op[0] == "T":
                if cur == "U":
                    events.add("undef")
                    return ()
                if cur == "C":
                    events.add("viol:use-after-consume")
                    return ()
                if cur == "L":
                    events.add("viol:not-owned")
                    return ()
                st[i] = "C"
            elif op[0] == "P":
                if cur == "L":
                    events.add("exotic:assign-borrowed-param")
                    return ()
                if cur == "O":
                    events.add("viol:overwrite-leak")
                    return ()
                st[i] = "O"
            elif op[0] == "BN":
                if cur != "N":
                    events.add("undef")      # reporting a qubit / an undefined name: not a linearity question
                    return ()
            elif op[0] == "PN":
                if cur == "L":
                    events.add("exotic:assign-borrowed-param")
                    return ()
                if cur == "O":
                    events.add("viol:overwrite-leak")
                    return ()
                st[i] = "N"
            elif op[0] == "XV":
                events.add("viol:linear-component-of-unnamed-value-lost")
                return ()
            elif op[0] == "XC":
                # a use that is illegal whatever the state: moving an element out of an array by subscript,
                # capturing a non-copyable variable in a closure
                if cur == "U":
                    events.add("undef")
                    return ()
                events.add("viol:illegal-move-or-capture")
                return ()
            else:  # PF: assignment to a field of a struct variable that must exist
                if cur == "U":
                    events.add("undef")
                    return ()
                if cur == "O":
                    events.add("viol:overwrite-leak")
                    return ()
                st[i] = "O"
        return (tuple(st),)
    return step


CROSSCHECK_MAX_PATHS = 2000


def model(body, ret_ty: str) -> dict:
    """Explores the product of the ownership automata with the structured control
    flow.  Returns verdict SAFE / VIOLATION / UNDEF (+ 'exotic' flag) and counts.

    For programs with few paths the fixpoint exploration is cross-checked against a plain
    path-by-path enumeration (a disagreement is a harness error, not a finding)."""
    used = _mentions(body, set())
    init = ["U"] * len(PLACES)
    if "o" in used:
        init[IDX["o"]] = "O"
    if "p" in used:
        init[IDX["p"]] = "L"
    init = tuple(init)
    events: set = set()
    ex = pg.explore_paths(body, init, _step_factory(events))
    if pg.path_count_bound(body, 4) <= CROSSCHECK_MAX_PATHS:
        ev2: set = set()
        bf, be = pg.brute_force_paths(body, init, _step_factory(ev2), max_iter=4)
        if be != ex.exits or ev2 != events or any(bf[p] != ex.before[p] for p in bf):
            raise AssertionError("reference model: fixpoint exploration and path enumeration "
                                 "disagree on " + pg.show(body))
    for how, st in ex.exits:
        if "O" in st:
            events.add("viol:leak-at-exit")
    viol = sorted(e[5:] for e in events if e.startswith("viol:"))
    if viol:
        verdict = "VIOLATION"
    elif "undef" in events:
        verdict = "UNDEF"
    else:
        verdict = "SAFE"
    return {"verdict": verdict, "viol": viol, "undef": "undef" in events,
            "exotic": any(e.startswith("exotic:") for e in events),
            "states": ex.n_states, "transitions": ex.n_transitions, "used": used}


# --------------------------------------------------------------------- implementation
PRELUDE_MOD = "vc06_prelude"
PRELUDE_SRC = '''from guppylang import guppy, qubit
from guppylang.std.builtins import owned, array, barrier, result
from guppylang.std.quantum import h, cx, measure, discard_array
from guppylang.std.debug import state_result
from collections.abc import Callable
@guppy.struct
class S:
    f: qubit
@guppy.struct
class S2:
    f: qubit
    g: qubit
@guppy.declare
def consume(q: qubit @owned) -> None: ...
@guppy.declare
def consume_u(u: S2 @owned) -> None: ...
@guppy.declare
def consume_s(s: S @owned) -> None: ...
@guppy.declare
def borrow_s(s: S) -> None: ...
@guppy.declare
def consume_t(t: tuple[qubit, qubit] @owned) -> None: ...
@guppy.declare
def mkpair() -> tuple[qubit, qubit]: ...
@guppy.declare
def mktriple() -> tuple[qubit, int, qubit]: ...
@guppy.declare
def mkmixed() -> tuple[qubit, int]: ...
@guppy.declare
def mkmixed2() -> tuple[int, qubit]: ...
@guppy.declare
def mks2() -> S2: ...
@guppy.declare
def mks() -> S: ...
@guppy.declare
def mkarr() -> array[qubit, 2]: ...
@guppy.declare
def ident(q: qubit @owned) -> qubit: ...
@guppy.declare
def lm(a: qubit, b: qubit @owned) -> None: ...
@guppy.declare
def ml(a: qubit @owned, b: qubit) -> None: ...
@guppy.declare
def app(f: Callable[[qubit], None], q: qubit) -> None: ...
@guppy.declare
def appo(f: Callable[[qubit @owned], None], q: qubit @owned) -> None: ...
'''
HEADER = (f"from {PRELUDE_MOD} import guppy, qubit, owned, h, S, S2, consume, consume_s, "
          f"consume_u, borrow_s, consume_t, result, mkpair, mktriple, mkmixed, mkmixed2, mks2, mks, mkarr, ident, lm, ml, app, appo, array, barrier, cx, measure, discard_array, state_result\n")


def _ensure_prelude() -> None:
    import sys
    import warnings
    warnings.simplefilter("ignore", SyntaxWarning)      # `(f, g)(a, b)` is a function tensor in Guppy
    if PRELUDE_MOD not in sys.modules:
        from vlib import gload
        gload.load(PRELUDE_SRC, name=PRELUDE_MOD)


def source(body, ret_ty: str, used: set) -> str:
    params = []
    if "p" in used:
        params.append("p: qubit")
    if "o" in used:
        params.append("o: qubit @owned")
    params += [f"c{i}: bool" for i in range(pg.n_conds(body))]
    text = pg.render(body, 1)
    if ret_ty != "None" and pg.falls_through(body):
        text += "    return qubit()\n"
    return HEADER + f"@guppy\ndef main({', '.join(params)}) -> {ret_ty}:\n" + text


def _validator_gist(msg: str) -> str:
    """The informative line of the hugr validator's multi-line message."""
    lines = [ln.strip() for ln in msg.split("\n") if ln.strip()]
    for i, ln in enumerate(lines):
        if ln.startswith("Stack backtrace"):
            lines = lines[:i]
            break
    caused = [ln for ln in lines if ln[:2] in ("0:", "1:", "2:", "3:")]
    return (caused[-1] if caused else lines[0])[:200]


def run_guppy(src: str, want_compile: bool):
    """check(); if accepted and wanted: compile_function() + HUGR validation."""
    from vlib import gload
    _ensure_prelude()
    out, mod = gload.run_src(src, fn="main", compile=False, with_prelude=False)
    post = ""
    if out.ok and want_compile and mod is not None:
        out2 = gload.outcome(mod.__dict__["main"], compile=True)
        if out2.kind != "ok":
            post = "compile-" + out2.brief()
        else:
            v = gload.validate(out2.package)
            post = "valid" if v is None else "INVALID: " + _validator_gist(v)
    if mod is not None:
        gload.unload(mod)
    return out, post


def check_one(item) -> dict:
    fam, body = item
    ret_ty = FAMILIES[fam][2]
    m = model(body, ret_ty)
    rec = {"family": fam, "verdict": m["verdict"], "viol": None, "bucket": "",
           "states": m["states"], "transitions": m["transitions"], "replayed": False,
           "mviol": m["viol"], "got": ""}
    if m["verdict"] == "UNDEF":
        rec["bucket"] = "skipped:undefined-use(C08 territory)"
        return rec
    src = source(body, ret_ty, m["used"])
    safe = m["verdict"] == "SAFE"
    out, post = run_guppy(src, want_compile=safe and not m["exotic"])
    rec["replayed"] = True
    rec["got"] = out.brief()
    if out.kind == "crash":
        rec["bucket"] = "crash"
        rec["crash"] = out.exc[:200]
        if safe and not m["exotic"]:
            rec["viol"] = (f"safe-but-crash:{out.exc.split(':')[0]}",
                           f"model-safe core program makes check() crash ({out.exc[:120]})")
        return rec
    if not safe:
        kinds = "+".join(m["viol"])
        if out.kind == "ok":
            rec["bucket"] = "UNSOUND"
            rec["viol"] = (f"unsound:{kinds}",
                           f"SOUNDNESS: model finds {kinds} on some path but check() accepts")
        else:
            rec["bucket"] = "agree-reject:" + out.title
        return rec
    # model SAFE
    if m["exotic"]:
        rec["bucket"] = "silent:assign-to-borrowed-param:" + ("accepted" if out.ok else out.title)
        return rec
    if out.kind == "ok":
        if post == "valid":
            rec["bucket"] = "agree-accept+valid-hugr"
        elif post.startswith("INVALID"):
            rec["bucket"] = "ACCEPTED-INVALID-HUGR"
            rec["viol"] = ("accepted:invalid-hugr", f"accepted, but the HUGR does not validate ({post[:160]})")
        else:
            rec["bucket"] = "ACCEPTED-COMPILE-FAILS"
            rec["viol"] = ("accepted:" + post.split("[")[0],
                           f"accepted by check(), but compile_function() fails: {post[:160]}")
    else:
        rec["bucket"] = "INCOMPLETE"
        cls = "linearity" if out.title in LINEAR_TITLES else "other"
        rec["viol"] = (f"incomplete:{cls}:{out.title}",
                       f"COMPLETENESS: model-safe core program rejected with {out.title!r}")
    return rec


def _safe_check(item):
    try:
        return check_one(item)
    except Exception as e:  # harness bug: surfaced, never turned into a violation
        import traceback
        return {"family": item[0], "harness_error": f"{type(e).__name__}: {e}",
                "tb": traceback.format_exc()[-600:]}


def _item_json(item) -> dict:
    fam, body = item
    ret_ty = FAMILIES[fam][2]
    return {"family": fam, "body": pg.to_json(body),
            "src": source(body, ret_ty, _mentions(body, set()))}


def run(ctx) -> dict:
    from collections import Counter
    import guppylang_internals.experimental as ex
    ex.enable_experimental_features()      # function tensors, closures
    items = list(programs(ctx.tier))
    results = ctx.pmap(_safe_check, items, chunk=64)
    buckets: Counter = Counter()
    fam: Counter = Counter()
    verdicts: Counter = Counter()
    mviol: Counter = Counter()
    states = transitions = replayed = nontrivial = 0
    harness, crashes, samples = [], [], []
    for item, r in zip(items, results):
        fam[r["family"]] += 1
        if "harness_error" in r:
            harness.append((pg.show(item[1]), r["harness_error"], r["tb"]))
            continue
        verdicts[r["verdict"]] += 1
        buckets[f"{r['family']}/{r['bucket']}"] += 1
        states += r["states"]
        transitions += r["transitions"]
        for k in r["mviol"]:
            mviol[k] += 1
        if r["replayed"]:
            replayed += 1
            if pg.n_conds(item[1]) > 0:
                nontrivial += 1
        if r["bucket"] == "crash":
            crashes.append({"prog": pg.show(item[1]), "exc": r.get("crash")})
        if r["viol"]:
            key, what = r["viol"]
            ctx.violation(f"{key}", f"{what}: [{r['family']}] {pg.show(item[1])}", _item_json(item))
        if r["replayed"] and len(samples) < 8 and replayed % 1499 == 1:
            samples.append({"family": r["family"], "prog": pg.show(item[1]),
                            "model": r["verdict"] + (":" + "+".join(r["mviol"]) if r["mviol"] else ""),
                            "impl": r["got"]})
    if harness:
        raise RuntimeError(f"{len(harness)} harness errors, first: {harness[0]}")
    cov = {
        "states": states,
        "transitions": transitions,
        "traces_validated_against_impl": replayed,
        "evaluations": len(items),
        "distinct_nontrivial": nontrivial,
        "rule": "non-trivial = replayed program (model verdict SAFE or VIOLATION) that has at "
                "least one branch or loop",
        "samples": samples,
        "bounds(family,max_stmts,max_depth)": [list(map(str, b)) for b in bounds(ctx.tier)],
        "atoms_per_family": {f: {"prefix": [a.name for a in FAMILIES[f][0]],
                                 "atoms": [a.name for a in FAMILIES[f][1]]}
                             for f, _, _ in bounds(ctx.tier)},
        "programs_per_family": dict(fam),
        "model_verdicts": dict(verdicts),
        "model_violation_kinds": dict(mviol),
        "buckets": dict(sorted(buckets.items())),
        "crashes": len(crashes),
        "crash_samples": crashes[:5],
        "harness_errors": 0,
        "exhaustive": True,
    }
    cov["n_safe"] = verdicts["SAFE"]
    cov["n_violation"] = verdicts["VIOLATION"]
    cov["n_undef_skipped"] = verdicts["UNDEF"]
    cov["n_unsound"] = sum(v for k, v in buckets.items() if k.endswith("/UNSOUND"))
    cov["n_incomplete"] = sum(v for k, v in buckets.items() if k.endswith("/INCOMPLETE"))
    cov["n_accepted_valid_hugr"] = sum(v for k, v in buckets.items() if k.endswith("+valid-hugr"))
    cov["n_silent_exotic"] = sum(v for k, v in buckets.items() if "/silent:" in k)
    return cov


def replay(ctx, item) -> dict:
    import guppylang_internals.experimental as ex
    ex.enable_experimental_features()
    fam = item["family"]
    body = pg.from_json(item["body"], ALL_ATOMS)
    r = check_one((fam, body))
    return {"violation": bool(r["viol"]), "result": r,
            "src": source(body, FAMILIES[fam][2], _mentions(body, set()))}
