"""C22 — Comptime tracing enforces ownership.

Statement (three sentences): while tracing a comptime function (1) a non-copyable value
can be used at most once and a non-droppable value created or received must be used
before the function returns; (2) violations raise a Guppy error instead of producing a
HUGR; (3) values derived from owned arguments reject every in-place mutation.

Enumerated space: ALL comptime bodies that are op sequences of length <= L over the
values

    o   owned qubit argument            b   borrowed qubit argument
    q   local  q = qubit()              oa  owned  array[qubit, 2] argument
    ba  borrowed array[qubit, 2]        ca  owned  array[int, 2] argument
    la  local list [qubit(), qubit()]   t   local tuple (qubit(), qubit())
    s   owned struct S{x: int, q: qubit}
    na / fa / pa   lists *derived* from owned arguments: an inner array of an owned
        array[array[qubit, 1], 2], an array field of an owned struct, an array component
        of an owned tuple

and the ops: consume (pass to an `@owned` parameter), consume again, borrow-call
(`h(q)`, or a declared function borrowing the whole value), leak (nothing), `return`
(last op; fixes the return annotation), drain (consume every element of a list), every
mutating `list` method / operator (the set is *discovered from CPython's list type* and
must equal the set of snippets below), struct attribute assignment.

Reference model (own transcription of the statement): per non-copyable leaf an
automaton {owned, lent, consumed}.  consume: owned -> consumed; on `consumed` it is a
second use (violation, raised at the use); on `lent` (a borrowed argument, which is
implicitly handed back to the caller = its one use) it is a violation too.  borrow: needs
a live leaf, leaves it live.  At return every `owned` leaf is a leak (violation) and every
`lent` leaf must still be live.  A list/struct received as an owned argument (or derived
from one) is frozen: every in-place mutation is a violation.  To make the mutation the
ONLY violation of a body, the model keeps interpreting a mutated frozen list with plain
Python list semantics (every mutator snippet is linearity-preserving under those
semantics), so `[oa.reverse(), drain(oa)]` is a body whose single violation is the
mutation.

Bounds (each part enumerated completely, see space()):
  quick     every body of <= 2 ops over the nine core values without list mutators (all
            cross-value pairs), plus every body of <= 2 ops (mutators included) over each
            single list value oa / ba / ca / la / na / fa / pa;
  thorough  every body of <= 2 ops over all twelve values; every 3-op body over each single
            value; every 3-op body over the core values without list mutators; every 4-op
            body over {o, b, q, t, s}.
A prefix on which the model already demands a use-time error for a second use is not
extended (the rest would be dead code); `leak` ops are canonical (first, ordered).

Where the statement is silent both outcomes are accepted and counted separately:
  * in-place mutation of a BORROWED array (statement only speaks about owned);
  * passing the same owned *classical* array twice (the array type is non-copyable, the
    tracer rebuilds it from copyable elements);
  * adversarial bypasses (`oa.__init__(..)`, unbound `list.reverse(oa)`).

Verdict comparison on the real tracer (`compile_function()` of /repo's sources):
  model violation => a Guppy error (`GuppyError`, or `GuppyComptimeError`, which is how
                     the tracer reports errors raised at a use inside the user's body);
                     success, an invalid HUGR or any other exception type is reported.
  model fine      => must compile and the HUGR must validate.
"""
from __future__ import annotations

ID = "C22"
LEVEL = "model_checking"

# --------------------------------------------------------------------------- values
KINDS = ["o", "b", "q", "oa", "ba", "ca", "la", "t", "s", "na", "fa", "pa"]
CORE = ["o", "b", "q", "oa", "ba", "ca", "la", "t", "s"]
TINY = ["o", "b", "q", "t", "s"]

# kind -> (param or None, init lines, {leaf: initial state}, {list name: (mode, contents)})
SPEC = {
    "o": ("o: qubit @owned", [], {"o": "owned"}, {}),
    "b": ("b: qubit", [], {"b": "lent"}, {}),
    "q": (None, ["q = qubit()"], {"q": "owned"}, {}),
    "oa": ("oa: array[qubit, 2] @owned", [], {"oa0": "owned", "oa1": "owned"},
           {"oa": ("frozen", ("oa0", "oa1"))}),
    "ba": ("ba: array[qubit, 2]", [], {"ba0": "lent", "ba1": "lent"},
           {"ba": ("silent", ("ba0", "ba1"))}),
    "ca": ("ca: array[int, 2] @owned", [], {}, {"ca": ("frozen", ("#", "#"))}),
    "la": (None, ["la = [qubit(), qubit()]"], {"la0": "owned", "la1": "owned"},
           {"la": ("free", ("la0", "la1"))}),
    "t": (None, ["t = (qubit(), qubit())"], {"t0": "owned", "t1": "owned"}, {}),
    "s": ("s: S @owned", [], {"s.q": "owned"}, {}),
    "na": ("oaa: array[array[qubit, 1], 2] @owned", ["na = oaa[0]"],
           {"na0": "owned", "oaa10": "owned"}, {"na": ("frozen", ("na0",))}),
    "fa": ("sa: SA @owned", ["fa = sa.qs"], {"fa0": "owned", "fa1": "owned"},
           {"fa": ("frozen", ("fa0", "fa1"))}),
    "pa": ("ta: tuple[array[qubit, 2], int] @owned", ["pa = ta[0]"],
           {"pa0": "owned", "pa1": "owned"}, {"pa": ("frozen", ("pa0", "pa1"))}),
}
LISTLEN = {"oa": 2, "ba": 2, "ca": 2, "la": 2, "na": 1, "fa": 2, "pa": 2}
WHOLE = {  # kind -> (consume call, borrow call or None, return expr, return type)
    "oa": ("consume_arr(oa)", "borrow_arr(oa)", "oa", "array[qubit, 2]"),
    "ba": ("consume_arr(ba)", "borrow_arr(ba)", "ba", "array[qubit, 2]"),
    "la": ("consume_arr(la)", "borrow_arr(la)", "la", "array[qubit, 2]"),
    "ca": ("consume_ca(ca)", "borrow_ca(ca)", "ca", "array[int, 2]"),
    "t": ("consume_t(t)", "borrow_t(t)", "t", "tuple[qubit, qubit]"),
    "s": ("consume_s(s)", "borrow_s(s)", "s", "S"),
    "na": ("consume_oaa(oaa)", None, None, None),
    "fa": ("consume_sa(sa)", None, None, None),
    "pa": ("consume_ta(ta)", None, None, None),
}
DRAIN = {
    "oa": ["for _e in list(oa): consume(_e)"],
    "ba": ["for _e in list(ba): consume(_e)"],
    "la": ["for _e in list(la): consume(_e)"],
    "na": ["for _r in oaa:", "    for _e in list(_r): consume(_e)"],
    "fa": ["for _e in list(sa.qs): consume(_e)"],
    "pa": ["for _e in list(ta[0]): consume(_e)"],
}
HEADER = {
    "S": "@guppy.struct\nclass S:\n    x: int\n    q: qubit\n",
    "SA": "@guppy.struct\nclass SA:\n    qs: array[qubit, 2]\n",
    "consume": "@guppy.declare\ndef consume(q: qubit @owned) -> None: ...\n",
    "consume_arr": "@guppy.declare\ndef consume_arr(qs: array[qubit, 2] @owned) -> None: ...\n",
    "borrow_arr": "@guppy.declare\ndef borrow_arr(qs: array[qubit, 2]) -> None: ...\n",
    "consume_ca": "@guppy.declare\ndef consume_ca(xs: array[int, 2] @owned) -> None: ...\n",
    "borrow_ca": "@guppy.declare\ndef borrow_ca(xs: array[int, 2]) -> None: ...\n",
    "consume_t": "@guppy.declare\ndef consume_t(t: tuple[qubit, qubit] @owned) -> None: ...\n",
    "borrow_t": "@guppy.declare\ndef borrow_t(t: tuple[qubit, qubit]) -> None: ...\n",
    "consume_s": "@guppy.declare\ndef consume_s(s: S @owned) -> None: ...\n",
    "borrow_s": "@guppy.declare\ndef borrow_s(s: S) -> None: ...\n",
    "consume_oaa": "@guppy.declare\ndef consume_oaa(x: array[array[qubit, 1], 2] @owned) -> None: ...\n",
    "consume_sa": "@guppy.declare\ndef consume_sa(x: SA @owned) -> None: ...\n",
    "consume_ta": "@guppy.declare\ndef consume_ta(x: tuple[array[qubit, 2], int] @owned) -> None: ...\n",
    "ovb": ("@guppy.declare\ndef ovb1(q: qubit) -> None: ...\n@guppy.declare\ndef ovb2(q: qubit, r: qubit) -> None: ...\n"
            "@guppy.overload(ovb1, ovb2)\ndef ovb(): ...\n"),
}
HEADER_ORDER = list(HEADER)

# ------------------------------------------------------------------ list mutators
# name -> (lines for a qubit list E, lines for a classical list E).  Every snippet is
# linearity preserving under plain Python list semantics and raises no Python error as
# long as the list is non-empty (guarded by the model).
MUTATORS = {
    "append": (["{E}.append(qubit())"], ["{E}.append(7)"]),
    "extend": (["{E}.extend([qubit()])"], ["{E}.extend([7])"]),
    "insert": (["{E}.insert(0, qubit())"], ["{E}.insert(0, 7)"]),
    "remove": (["_x = {E}[0]", "{E}.remove(_x)", "consume(_x)"], ["{E}.remove({E}[0])"]),
    "pop": (["consume({E}.pop())"], ["{E}.pop()"]),
    "clear": (["_xs = list({E})", "{E}.clear()", "for _e in _xs: consume(_e)"], ["{E}.clear()"]),
    "sort": (["{E}.sort(key=lambda _e: 0)"], ["{E}.sort(key=lambda _e: 0)"]),
    "reverse": (["{E}.reverse()"], ["{E}.reverse()"]),
    "__setitem__": (["_x = {E}[0]", "{E}[0] = qubit()", "consume(_x)"], ["{E}[0] = 7"]),
    "__setitem__/slice": (["_x = {E}[0]", "{E}[0:1] = [qubit()]", "consume(_x)"], ["{E}[0:1] = [7]"]),
    "__delitem__": (["_x = {E}[0]", "del {E}[0]", "consume(_x)"], ["del {E}[0]"]),
    "__delitem__/slice": (["_x = {E}[0]", "del {E}[0:1]", "consume(_x)"], ["del {E}[0:1]"]),
    "__iadd__": (["{E} += [qubit()]"], ["{E} += [7]"]),
    "__imul__": (["{E} *= 1"], ["{E} *= 1"]),
}
NEEDS_NONEMPTY = {"remove", "pop", "__setitem__", "__setitem__/slice", "__delitem__", "__delitem__/slice"}


def discover_list_mutators():
    """The set of `list` attributes that can change a list in place, found by probing
    CPython's list type (not taken from the implementation under test)."""
    cands = [(), (0,), (5,), (9,), ([9],), (0, 9), (slice(0, 1),), (slice(0, 1), [9])]
    found = set()
    for name in sorted(dir(list)):
        if name in ("__class__", "__new__", "__init_subclass__", "__subclasshook__"):
            continue
        for args in cands:
            lst = [5, 3]
            try:
                getattr(lst, name)(*args)
            except Exception:  # noqa: BLE001
                continue
            if lst != [5, 3]:
                found.add(name)
                break
    return found


# ------------------------------------------------------------------------------ ops
# op = (kind, name, arg)
def kind_ops(k):
    """(non-final ops, return ops) of one value kind."""
    ops, rets = [], []
    if k in ("o", "b", "q"):
        # borrowing through every call MECHANISM: a declared function, a custom function without a declared
        # signature (barrier), an overloaded function
        ops += [(k, "consume", None), (k, "borrow", None), (k, "borrow-barrier", None), (k, "borrow-overloaded", None)]
        rets += [(k, "ret", None)]
    elif k in ("oa", "ba", "la", "t"):
        for i in (0, 1):
            ops += [(k, "consume", i), (k, "borrow", i)]
            rets += [(k, "ret", i)]
        ops += [(k, "wconsume", None), (k, "wborrow", None)]
        rets += [(k, "wret", None)]
    elif k == "ca":
        ops += [(k, "wconsume", None), (k, "wborrow", None)]
        rets += [(k, "wret", None)]
    elif k == "s":
        ops += [(k, "consume", "q"), (k, "borrow", "q"), (k, "wconsume", None), (k, "wborrow", None),
                (k, "set", "x"), (k, "set", "q")]
        rets += [(k, "ret", "q"), (k, "wret", None)]
    elif k in ("na", "fa", "pa"):
        ops += [(k, "wconsume", None)]
    if k in DRAIN:
        ops.append((k, "drain", None))
    if k in LISTLEN:
        ops += [(k, "mut", m) for m in MUTATORS]
    return ops, rets


def op_id(op):
    k, n, a = op
    return f"{k}.{n}" + ("" if a is None else f"[{a}]")


def parse_op(s):
    k, rest = s.split(".", 1)
    if "[" in rest:
        n, a = rest[:-1].split("[", 1)
        a = int(a) if a.isdigit() else a
    else:
        n, a = rest, None
    return (k, n, a)


def place(k, a):
    if k in ("o", "b", "q"):
        return k
    if k == "s":
        return "s.q"
    return f"{k}[{a}]"


def op_lines(op):
    k, n, a = op
    if n == "leak":
        return []
    if n == "consume":
        return [f"consume({place(k, a)})"]
    if n == "borrow":
        return [f"h({place(k, a)})"]
    if n == "borrow-barrier":
        return [f"barrier({place(k, a)})"]
    if n == "borrow-overloaded":
        return [f"ovb({place(k, a)})"]
    if n == "ret":
        return [f"return {place(k, a)}"]
    if n == "wconsume":
        return [WHOLE[k][0]]
    if n == "wborrow":
        return [WHOLE[k][1]]
    if n == "wret":
        return [f"return {WHOLE[k][2]}"]
    if n == "drain":
        return list(DRAIN[k])
    if n == "set":
        return ["s.x = 1"] if a == "x" else ["s.q = qubit()"]
    if n == "mut":
        lin, cla = MUTATORS[a]
        return [ln.format(E=k) for ln in (cla if k == "ca" else lin)]
    raise AssertionError(op)


def ret_type(op):
    k, n, a = op
    if n == "ret":
        return "qubit"
    if n == "wret":
        return WHOLE[k][3]
    return "None"


# SIGNATURE contexts: further, unused parameters around the ones the body needs (whether an argument is owned is a
# property of ITS parameter, whatever stands before or after it).  name -> (leading parameters, trailing parameters)
SIGS = {"": ([], []), "trail-borrowed": ([], ["zb: qubit"]), "lead-borrowed": (["zb: qubit"], []),
        "trail-copyable": ([], ["zi: int"]), "trail-borrowed-array": ([], ["zba: array[qubit, 1]"]),
        "lead-owned-classical-array": (["zca: array[int, 1] @owned"], [])}
SIG_MARK = "@sig:"


def gen_source(ops, sig=""):
    kinds = sorted({op[0] for op in ops}, key=KINDS.index)
    params = SIGS[sig][0] + [SPEC[k][0] for k in kinds if SPEC[k][0]] + SIGS[sig][1]
    body = []
    for k in kinds:
        body += SPEC[k][1]
    for op in ops:
        body += op_lines(op)
    if not body:
        body = ["pass"]
    rty = ret_type(ops[-1]) if ops else "None"
    text = "\n".join(body) + " " + " ".join(params) + " " + rty
    hdr = []
    for name in HEADER_ORDER:
        if name == "S":
            need = "s" in kinds
        elif name == "SA":
            need = "fa" in kinds
        else:
            need = (name + "(") in text
        if need:
            hdr.append(HEADER[name])
    return ("".join(hdr) + "@guppy.comptime\ndef main(" + ", ".join(params) + f") -> {rty}:\n"
            + "".join("    " + ln + "\n" for ln in body))


# ---------------------------------------------------------------------------- model
class St:
    """Model state.  Immutable by convention (step() copies)."""
    __slots__ = ("decl", "leaf", "lists", "viol", "taint", "either", "fresh", "ca_uses", "halt")

    def __init__(self):
        self.decl = ()
        self.leaf = {}
        self.lists = {}
        self.viol = ()       # ((vkind, value kind, detail), ...) in order of occurrence
        self.taint = frozenset()
        self.either = frozenset()
        self.fresh = 0
        self.ca_uses = 0
        self.halt = False    # a use-time violation on an untainted value: tracer must have raised

    def copy(self):
        n = St()
        n.decl, n.leaf, n.lists = self.decl, dict(self.leaf), dict(self.lists)
        n.viol, n.taint, n.either = self.viol, self.taint, self.either
        n.fresh, n.ca_uses, n.halt = self.fresh, self.ca_uses, self.halt
        return n

    def key(self):
        return (self.decl, tuple(sorted(self.leaf.items())), tuple(sorted(self.lists.items())),
                self.viol, tuple(sorted(self.taint)), tuple(sorted(self.either)), self.ca_uses, self.halt)


class Guard(Exception):
    """The op is not applicable under plain Python semantics (index out of range, or the
    whole value no longer has its declared type): the body is outside the space."""


def _declare(st, k):
    if k in st.decl:
        return
    st.decl = tuple(sorted(st.decl + (k,), key=KINDS.index))
    st.leaf.update(SPEC[k][2])
    for name, (_mode, contents) in SPEC[k][3].items():
        st.lists[name] = contents


def _owner_kind(leaf):
    for k in KINDS:
        if leaf in SPEC[k][2]:
            return k
    return leaf.split("#")[0]      # fresh leaves are named "<kind>#n"


def _viol(st, vkind, k, detail):
    st.viol = st.viol + ((vkind, k, detail),)
    if k not in st.taint and vkind in ("double-use",):
        st.halt = True


def _use(st, leaf, consuming, k):
    s = st.leaf[leaf]
    if s == "consumed":
        _viol(st, "double-use", k, leaf)
        return
    if consuming:
        if s == "lent":
            _viol(st, "borrowed-consumed", k, leaf)   # reported at return by the tracer
        st.leaf[leaf] = "consumed"


def _value_leaves(st, k):
    """All live-or-dead leaves currently reachable through the whole value k."""
    if k in st.lists:
        out = list(st.lists[k])
        if k == "na":
            out.append("oaa10")
        return [x for x in out if x != "#"]
    return list(SPEC[k][2])


def _new_leaf(st, k):
    st.fresh += 1
    name = f"{k}#{st.fresh}"
    st.leaf[name] = "owned"
    return name


def step(st0, op):
    """Returns the successor state; raises Guard if the op is not applicable."""
    k, n, a = op
    if n in ("borrow-barrier", "borrow-overloaded"):
        n = "borrow"
    st = st0.copy()
    _declare(st, k)
    if n == "leak":
        return st
    if n in ("consume", "borrow", "ret"):
        if k in st.lists:
            c = st.lists[k]
            if a >= len(c):
                raise Guard("index")
            leaf = c[a]
        elif k == "t":
            leaf = f"t{a}"
        elif k == "s":
            leaf = "s.q"
        else:
            leaf = k
        _use(st, leaf, n != "borrow", k)
        return st
    if n in ("wconsume", "wborrow", "wret"):
        if k in st.lists and len(st.lists[k]) != LISTLEN[k]:
            raise Guard("type")
        if k == "ca":
            if n != "wborrow":
                st.ca_uses += 1
                if st.ca_uses >= 2:
                    st.either = st.either | {"classical-array-reused"}
            return st
        for leaf in _value_leaves(st, k):
            _use(st, leaf, n != "wborrow", k)
            if st.halt:
                break
        return st
    if n == "drain":
        for leaf in _value_leaves(st, k):
            _use(st, leaf, True, k)
            if st.halt:
                break
        return st
    if n == "set":
        _viol(st, "struct-assign", k, a)
        if a == "q":
            _new_leaf(st, k)          # plain semantics: the old s.q is dropped, a new one stored
            # (both are violations anyway; nothing else is modelled for this body)
        return st
    if n == "mut":
        mode = SPEC[k][3][k][0]
        c = list(st.lists[k])
        if a in NEEDS_NONEMPTY and not c:
            raise Guard("empty")
        if mode == "frozen":
            _viol(st, "mutation", k, a)
        elif mode == "silent":
            st.taint = st.taint | {k}
        lin = k != "ca"
        new = (lambda: _new_leaf(st, k)) if lin else (lambda: "#")
        base = a.split("/")[0]
        if base in ("append", "extend", "__iadd__"):
            c.append(new())
        elif base == "insert":
            c.insert(0, new())
        elif base in ("remove", "__delitem__"):
            x = c.pop(0)
            if lin:
                _use(st, x, True, k)
        elif base == "pop":
            x = c.pop()
            if lin:
                _use(st, x, True, k)
        elif base == "clear":
            for x in c:
                if lin:
                    _use(st, x, True, k)
                    if st.halt:
                        break
            c = []
        elif base == "reverse":
            c.reverse()
        elif base == "__setitem__":
            x = c[0]
            c[0] = new()
            if lin:
                _use(st, x, True, k)
        elif base in ("sort", "__imul__"):
            pass
        else:
            raise AssertionError(a)
        st.lists[k] = tuple(c)
        return st
    raise AssertionError(op)


def finish(st):
    """End of function: returns (verdict, violations).  verdict in ok|violation|either."""
    viol = list(st.viol)
    for leaf in sorted(st.leaf):
        s = st.leaf[leaf]
        if s == "owned":
            viol.append(("leak", _owner_kind(leaf), leaf))
    definite = [v for v in viol if v[1] not in st.taint]
    if definite:
        return "violation", definite
    if st.taint or st.either:
        return "either", []
    return "ok", []


def run_model(ops):
    """Fold the model over an op sequence.  Returns (verdict, violations, state) or None
    when the body is outside the space (Guard)."""
    st = St()
    try:
        for op in ops:
            st = step(st, op)
    except Guard:
        return None
    v, vs = finish(st)
    return v, vs, st


# ---------------------------------------------------------------------- enumeration
def alphabet(kinds, muts=True):
    ops, rets, leaks = [], [], []
    for k in kinds:
        o, r = kind_ops(k)
        if not muts:
            o = [x for x in o if x[1] != "mut"]
        ops += o
        rets += r
        leaks.append((k, "leak", None))
    return ops, rets, leaks


def enumerate_bodies(kinds, maxlen, minlen=0, muts=True):
    """All canonical op sequences of minlen..maxlen ops over `kinds`: leak ops first in
    KINDS order and only for values no other op mentions; `return` only as last op; a
    prefix on which the model already demands a use-time error (second use) is not
    extended (the remaining statements would be dead code)."""
    ops, rets, leaks = alphabet(kinds, muts)
    out = []
    pruned = [0]
    guarded = [0]

    def rec(seq, st, used_kinds, nleak):
        if len(seq) >= minlen:
            out.append(tuple(seq))
        if len(seq) == maxlen:
            return
        if st.halt:
            pruned[0] += 1
            return
        # leak ops: only while the sequence consists of leaks, in increasing order
        if nleak == len(seq):
            last = KINDS.index(seq[-1][0]) if seq else -1
            for lk in leaks:
                if KINDS.index(lk[0]) > last:
                    rec(seq + [lk], step(st, lk), used_kinds | {lk[0]}, nleak + 1)
        leaked = {o[0] for o in seq[:nleak]}
        for op in ops + rets:
            if op[0] in leaked:
                continue
            try:
                st2 = step(st, op)
            except Guard:
                guarded[0] += 1
                continue
            if op[1] in ("ret", "wret"):
                if len(seq) + 1 >= minlen:
                    out.append(tuple(seq + [op]))
            else:
                rec(seq + [op], st2, used_kinds | {op[0]}, nleak)

    rec([], St(), frozenset(), 0)
    return out, pruned[0], guarded[0]


def explore_states(kinds, depth, muts, index, trans, finals):
    """BFS over the model's state graph (not over traces): distinct states reachable in
    <= depth ops, distinct (state, op) transitions and distinct (final state, verdict)
    pairs are accumulated into the shared containers `index` / `trans` / `finals`."""
    ops, rets, leaks = alphabet(kinds, muts)
    allops = leaks + ops + rets

    def ident(key):
        if key not in index:
            index[key] = len(index)
        return index[key]

    init = St()
    ident(init.key())
    frontier = [init]
    local_seen = {init.key()}
    for _ in range(depth):
        nxt = []
        for st in frontier:
            sid = ident(st.key())
            finals.add((sid, finish(st)[0]))
            if st.halt:
                continue
            for op in allops:
                try:
                    st2 = step(st, op)
                except Guard:
                    continue
                trans.add((sid, op_id(op)))
                if op[1] in ("ret", "wret"):
                    rid = ident(st2.key() + ("returned",))
                    finals.add((rid, finish(st2)[0]))
                    continue
                k2 = st2.key()
                ident(k2)
                if k2 not in local_seen:
                    local_seen.add(k2)
                    nxt.append(st2)
        frontier = nxt
    for st in frontier:
        finals.add((ident(st.key()), finish(st)[0]))


# ------------------------------------------------------------------ implementation
def run_impl(src):
    """Compile `main` of the generated source with /repo's tracer; classify."""
    from vlib import gload
    from guppylang_internals.error import GuppyComptimeError, GuppyError
    from guppylang_internals.tracing.state import reset_state
    mod = None
    try:
        mod = gload.load(gload.PRELUDE + src)
        try:
            pkg = mod.main.compile_function()
        except GuppyError as e:
            return ("error", "GuppyError", str(getattr(e.error, "title", ""))[:80])
        except GuppyComptimeError as e:
            return ("error", "GuppyComptimeError", str(e).splitlines()[0][:80])
        except RecursionError as e:
            return ("crash", "RecursionError", str(e)[:120])
        except Exception as e:  # noqa: BLE001
            import re
            return ("crash", type(e).__name__, re.sub(r"id=\d+", "id=N", str(e))[:160])
        bad = gload.validate(pkg)
        if bad is not None:
            lines = [ln.strip() for ln in bad.splitlines() if ln.strip()]
            return ("invalid", "HugrInvalid", " | ".join(lines[1:4])[:240])
        return ("ok", "", "")
    finally:
        reset_state()      # a failed trace leaves the tracing state set
        if mod is not None:
            gload.unload(mod)


def shape(ops):
    return ",".join(op_id(o) for o in ops)


def judge(ops, sig=""):
    """Model verdict vs implementation outcome for one body.  Returns a dict (picklable)."""
    m = run_model(ops)
    if m is None:
        return {"skip": True}
    verdict, viols, _st = m
    src = gen_source(ops, sig)
    try:
        got = run_impl(src)
    except SyntaxError as e:
        return {"harness": f"generator produced invalid Python: {e}", "ops": shape(ops)}
    except Exception as e:  # noqa: BLE001
        return {"harness": f"{type(e).__name__}: {e}", "ops": shape(ops)}
    res = {"verdict": verdict, "got": got[0], "etype": got[1]}
    key = None
    if verdict == "violation":
        vkind, vk, detail = viols[0]
        if got[0] != "error":
            if vkind == "mutation":
                base = f"mutation-accepted:{_ctx_name(vk)}:{detail}"
            elif vkind == "struct-assign":
                base = f"struct-assign-accepted:{vk}.{detail}"
            elif vkind == "double-use":
                base = f"double-use-accepted:{vk}"
            elif vkind == "borrowed-consumed":
                base = f"borrowed-consumed-accepted:{vk}"
            else:
                base = f"leak-accepted:{vk}"
            if got[0] == "crash":
                base = base.replace("-accepted:", "-crash:") + f":{got[1]}"
            elif got[0] == "invalid":
                base = base.replace("-accepted:", "-invalid-hugr:")
            key = base
    elif verdict == "ok":
        if got[0] == "error":
            key = f"safe-body-rejected:{shape(ops)}"
        elif got[0] == "crash":
            key = f"safe-body-crash:{shape(ops)}:{got[1]}"
        elif got[0] == "invalid":
            key = f"invalid-hugr:{shape(ops)}"
    else:
        if got[0] == "invalid":
            key = f"invalid-hugr:{shape(ops)}"
    if key:
        # the call mechanism is part of the defect class (one root cause per mechanism)
        mech = sorted({o[1].split("-", 1)[1] for o in ops if o[1].startswith("borrow-")})
        if mech:
            key = key.split(":")[0] + ":via-" + "+".join(mech) + ":" + ":".join(key.split(":")[1:2])
        res["key"] = key
        res["what"] = (f"model={verdict}{'/' + viols[0][0] if viols else ''} but tracer gave {got[0]} "
                       f"({got[1]} {got[2]}) for body: " + " ; ".join(
                           ln.strip() for ln in src.split("def main", 1)[1].splitlines()))[:400]
    return res


def _ctx_name(k):
    return {"oa": "owned-array", "ca": "owned-classical-array", "na": "owned-nested-array",
            "fa": "owned-struct-array-field", "pa": "owned-tuple-array-component",
            "ba": "borrowed-array", "la": "local-list"}.get(k, k)


def _split_sig(ids):
    if ids and ids[0].startswith(SIG_MARK):
        return ids[0][len(SIG_MARK):], ids[1:]
    return "", ids


def _judge_ids(ids):
    sig, ids = _split_sig(ids)
    r = judge([parse_op(s) for s in ids], sig)
    if sig and "key" in r:
        r["what"] = f"[signature context {sig}] " + r["what"]
    return r


# ------------------------------------------------------------------------- bypasses
BYPASS = {
    "reinit": ["oa.__init__(list(oa))", "for _e in list(oa): consume(_e)"],
    "unbound-reverse": ["list.reverse(oa)", "for _e in list(oa): consume(_e)"],
    "copy-then-mutate": ["_c = oa.copy()", "_c.reverse()", "for _e in _c: consume(_e)"],
    "slice-then-mutate": ["_c = oa[0:2]", "_c.reverse()", "for _e in _c: consume(_e)"],
}


def _bypass(name):
    src = (HEADER["consume"] + "@guppy.comptime\ndef main(oa: array[qubit, 2] @owned) -> None:\n"
           + "".join("    " + ln + "\n" for ln in BYPASS[name]))
    return name, run_impl(src)


# ------------------------------------------------------------------------------ run

# ------------------------------------------------------------- affine single-object values
AFFINE_HDR = '''
from guppylang.std.option import Option, nothing

@guppy.declare
def eat0(xs: array[int, 0] @owned) -> None: ...

@guppy.declare
def mk0() -> array[int, 0]: ...

@guppy.declare
def eatq0(xs: array[qubit, 0] @owned) -> None: ...

@guppy.declare
def eat_opt(o: Option[array[int, 2]] @owned) -> None: ...

@guppy.declare
def mk_opt() -> Option[array[int, 2]]: ...
'''

# values that are non-copyable but droppable AND stay one object while tracing (nothing to unpack)
AFFINE_VALUES = {
    "empty-int-array-arg": ("ea: array[int, 0] @owned", "ea", "eat0({V})"),
    "empty-int-array-result": ("", "mk0()", "eat0({V})"),
    "option-of-array-result": ("", "mk_opt()", "eat_opt({V})"),
}


def affine_cases():
    out = []
    for name, (param, init, use) in AFFINE_VALUES.items():
        for n_uses in (0, 1, 2, 3):
            body = [f"v = {init}"] + [use.format(V="v")] * n_uses
            src = AFFINE_HDR + f"\n@guppy.comptime\ndef main({param}) -> None:\n" + "\n".join("    " + l for l in body) + "\n"
            out.append((name, n_uses, src))
        # use, then hand the same object to a second consumer inside a tuple
        body = [f"v = {init}", use.format(V="v"), "t = (v, 1)", use.format(V="t[0]")]
        src = AFFINE_HDR + f"\n@guppy.comptime\ndef main({param}) -> None:\n" + "\n".join("    " + l for l in body) + "\n"
        out.append((name, "2-via-tuple", src))
    return out


def run_affine(case):
    name, n_uses, src = case
    return name, n_uses, run_impl(src)


def affine_supplement(ctx):
    """The statement: a non-copyable value can be used at most once; droppable ones may be left unused."""
    cases = affine_cases()
    res = ctx.pmap(run_affine, cases, chunk=2)
    n = 0
    for (name, n_uses, src), (_, _, out) in zip(cases, res):
        n += 1
        many = n_uses == "2-via-tuple" or n_uses >= 2
        if out[0] == "crash":
            ctx.violation(f"affine:crash:{name}", f"{name} used {n_uses}x: tracer crashed: {out[1]} {out[2]}", {"affine": [name, str(n_uses)], "src": src})
        elif many and out[0] in ("ok", "invalid"):
            ctx.violation(f"double-use-accepted:affine:{name}",
                          f"a non-copyable (affine) value `{name}` is consumed {n_uses} times in a comptime body and the tracer "
                          f"{'produces a HUGR' if out[0] == 'ok' else 'emits an INVALID HUGR (' + out[2][:120] + ')'} instead of a Guppy error",
                          {"affine": [name, str(n_uses)], "src": src})
        elif not many and out[0] != "ok":
            ctx.violation(f"safe-body-rejected:affine:{name}:{n_uses}", f"{name} used {n_uses}x (allowed): {out}", {"affine": [name, str(n_uses)], "src": src})
    return n


def space(tier):
    """Parts of the enumerated space: (label, kinds, maxlen, minlen, with mutators).  Each
    part is enumerated completely; a body occurring in two parts is replayed once."""
    if tier == "quick":
        return ([("core-nomut<=2", CORE, 2, 0, False)] +
                [(f"{k}<=2", [k], 2, 0, True) for k in KINDS if k in LISTLEN])
    single3 = [(f"{k}=3", [k], 3, 3, True) for k in KINDS]
    return ([("all<=2", KINDS, 2, 0, True)] + single3 +
            [("core-nomut=3", CORE, 3, 3, False), ("tiny=4", TINY, 4, 4, True)])


def run(ctx):
    found = discover_list_mutators()
    covered = {m.split("/")[0] for m in MUTATORS}
    uncovered = found - covered - {"__init__"}
    if uncovered or (covered - found):
        raise RuntimeError(f"mutator table out of date: CPython list mutators {sorted(found)} vs table {sorted(covered)}")

    n_affine = affine_supplement(ctx)
    bodies = []
    parts = {}
    pruned = guarded = 0
    index, trans, finals_set = {}, set(), set()
    depth = 0
    for label, kinds, maxlen, minlen, muts in space(ctx.tier):
        seqs, p, g = enumerate_bodies(kinds, maxlen, minlen, muts)
        parts[label] = len(seqs)
        pruned += p
        guarded += g
        bodies += seqs
        depth = max(depth, maxlen)
        explore_states(kinds, maxlen, muts, index, trans, finals_set)
    bodies = sorted(set(bodies), key=lambda s: (len(s), [op_id(o) for o in s]))
    states, transitions, finals = len(index), len(trans), len(finals_set)

    items = [[op_id(o) for o in seq] for seq in bodies]
    # every body over ONE value once more in every signature context (the verdict of the model does not change)
    n_plain = len(items)
    items += [[SIG_MARK + sg] + it for it in items[:n_plain] if it and len({parse_op(x)[0] for x in it}) == 1
              for sg in SIGS if sg]
    # warm the parent (std-lib definitions get parsed / checked once and are then inherited
    # by the forked workers): every single-op body, results discarded
    for it in items:
        if len(it) == 1:
            _judge_ids(it)
    results = ctx.pmap(_judge_ids, items, chunk=64)

    cnt = {"ok/ok": 0, "violation/error": 0}
    by_verdict = {"ok": 0, "violation": 0, "either": 0}
    either_out = {}
    etypes = {}
    harness = []
    skipped = 0
    replayed = 0
    first_viol_kinds = {}
    samples = []
    mutation_only = 0
    for ids, r in zip(items, results):
        if r.get("skip"):
            skipped += 1
            continue
        if "harness" in r:
            harness.append(r)
            continue
        replayed += 1
        by_verdict[r["verdict"]] += 1
        pair = f"{r['verdict']}/{r['got']}"
        cnt[pair] = cnt.get(pair, 0) + 1
        if r["got"] == "error":
            etypes[r["etype"]] = etypes.get(r["etype"], 0) + 1
        if r["verdict"] == "either":
            either_out[r["got"]] = either_out.get(r["got"], 0) + 1
        if "key" in r:
            ctx.violation(r["key"], r["what"], {"ops": ids})
        if len(samples) < 6 and replayed % 997 == 1:
            samples.append({"ops": ids, "model": r["verdict"], "tracer": r["got"]})
    # how many bodies have a frozen mutation / struct assignment as their ONLY violation
    for seq in bodies:
        m = run_model(seq)
        if m and m[0] == "violation":
            kinds_ = {v[0] for v in m[1]}
            first_viol_kinds[m[1][0][0]] = first_viol_kinds.get(m[1][0][0], 0) + 1
            if kinds_ <= {"mutation", "struct-assign"}:
                mutation_only += 1

    bypass = dict(_bypass(n) for n in BYPASS)
    if harness:
        raise RuntimeError(f"{len(harness)} harness errors, e.g. {harness[0]}")

    return {
        "states": states,
        "transitions": transitions,
        "traces_validated_against_impl": replayed,
        "evaluations": replayed,
        "distinct_nontrivial": by_verdict["violation"] + by_verdict["either"],
        "rule": "non-trivial = body on which the model demands an error or the statement is silent "
                "(the rest are safe bodies that must compile and validate)",
        "samples": samples,
        "affine_single_object_cases": n_affine,
        "space": {k: v for k, v in parts.items()},
        "bound_depth": depth,
        "model_final_states": finals,
        "bodies_model_ok": by_verdict["ok"],
        "bodies_model_violation": by_verdict["violation"],
        "bodies_statement_silent": by_verdict["either"],
        "silent_outcomes": either_out,
        "outcome_matrix": cnt,
        "error_types": etypes,
        "first_violation_kinds": first_viol_kinds,
        "bodies_whose_only_violation_is_a_mutation": mutation_only,
        "list_mutators_discovered_from_cpython": sorted(found),
        "prefixes_not_extended_after_second_use": pruned,
        "ops_not_applicable_python_or_type_error": guarded,
        "skipped": skipped,
        "adversarial_bypass_outcomes(not judged)": {k: v[0] for k, v in bypass.items()},
        "harness_errors": len(harness),
        "exhaustive": True,
    }


def replay(ctx, item):
    if "affine" in item:
        out = run_impl(item["src"])
        many = item["affine"][1] in ("2", "3", "2-via-tuple")
        return {"violation": (out[0] == "crash") or (many and out[0] in ("ok", "invalid")) or (not many and out[0] != "ok"), "outcome": out}
    sig, ids = _split_sig(item["ops"])
    ops = [parse_op(s) for s in ids]
    r = judge(ops, sig)
    r["source"] = gen_source(ops, sig)
    r["violation"] = "key" in r
    return r
