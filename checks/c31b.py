"""C31 part C — user types whose NAME is also the name of a builtin.

The printed form of a type mentions type names only; reading it back resolves those names in the
scope of the user's module, where a user definition shadows a builtin of the same name.  A module
defines structs called like builtin types / functions (Range, SizedIter, list, Option, len, abs,
result); every type built from them (bare, instantiated, inside tuples / arrays;
and the builtins of the same name where the user does NOT shadow them) is printed
and parsed back with the real annotation parser in that module's scope: parsed == ty.
"""
from __future__ import annotations

import ast

SRC = '''\
from guppylang import guppy, qubit, array
from guppylang.std.builtins import owned, nat
from guppylang.std import option as _opt
from collections.abc import Callable

@guppy.struct
class Range:
    v: int

@guppy.struct
class SizedIter[T]:
    v: T

@guppy.struct
class list[T]:
    v: T
    k: int

@guppy.struct
class Option[T]:
    v: T

@guppy.struct
class len:
    v: bool

@guppy.struct
class abs[T]:
    q: T

@guppy.struct
class result:
    pass
'''
NONGENERIC = ("Range", "len", "result")
GENERIC = ("SizedIter", "list", "Option", "abs")


def _types():
    from guppylang_internals.checker.core import Globals
    from guppylang_internals.engine import ENGINE
    from guppylang_internals.tys.arg import ConstArg, TypeArg
    from guppylang_internals.tys.builtin import array_type, bool_type, int_type, option_type
    from guppylang_internals.tys.ty import FunctionType, FuncInput, InputFlags, StructType, TupleType
    from vlib import gload
    mod = gload.load(SRC, name="vc31collide")
    defs = {n: ENGINE.get_checked(mod.__dict__[n].id) for n in NONGENERIC + GENERIC}
    g = Globals(None)
    g.f_globals = mod.__dict__
    base = {"int": int_type(), "bool": bool_type()}
    out = []
    user = {}
    for n in NONGENERIC:
        user[n] = StructType([], defs[n])
    for n in GENERIC:
        for bn, bt in base.items():
            user[f"{n}[{bn}]"] = StructType([TypeArg(bt)], defs[n])
    # one level of nesting among the user types
    for n in GENERIC:
        for m in ("Range", "Option[int]", "list[bool]"):
            user[f"{n}[{m}]"] = StructType([TypeArg(user[m])], defs[n])
    for name, t in user.items():
        out.append((name, t))
        out.append((f"tuple[{name}, int]", TupleType([t, int_type()])))
        out.append((f"tuple[{name}]", TupleType([t])))
        out.append((f"array[{name}, 2]", array_type(t, 2)))
        out.append((f"builtin-Option[{name}]", None))      # cannot be written when the name Option is shadowed: skipped
    return g, [(n, t) for n, t in out if t is not None]


def run_part(ctx):
    from guppylang_internals.error import GuppyError
    from guppylang_internals.tys.parsing import TypeParsingCtx, type_from_ast
    g, tys = _types()
    n = bad = 0
    for name, ty in tys:
        s = str(ty)
        n += 1
        try:
            node = ast.parse(s, mode="eval").body
            parsed = type_from_ast(node, TypeParsingCtx(g, {}))
            ok, why = parsed == ty, f"reads back as `{parsed}` = {parsed!r}"[:300]
        except SyntaxError as e:
            ok, why = False, f"not a Python expression: {e}"
        except GuppyError as e:
            ok, why = False, f"annotation parser rejects it: {e.error.title}"
        except Exception as e:  # noqa: BLE001
            ok, why = False, f"annotation parser crashes: {type(e).__name__}: {e}"[:300]
        if not ok:
            bad += 1
            head = name.split("[")[0].split("(")[0] or "function"
            ctx.violation(f"roundtrip:user-type-named-like-a-builtin:{head}",
                          f"str(ty) = `{s}` for the user's type {name}: {why}", {"part": "C", "name": name})
    return {"collision_types": n, "collision_failures": bad}


def replay(ctx, item):
    class _C:
        violations = {}

        def violation(self, key, what, it):
            if it.get("name") == item["name"]:
                self.violations[key] = what
    c = _C()
    run_part(c)
    return {"violation": bool(c.violations), "details": c.violations}
