"""C03 — Classical control and data flow behave as in Python.

Bounded-exhaustive enumeration of classical Guppy programs (grammar G-cf below), each
compiled by the real compiler, executed by hugrvm on a grid of inputs, and compared with
CPython executing the SAME source text (vlib.pyoracle): result trace and return value must
be identical.  Programs the checker rejects, and inputs on which CPython raises or
exceeds the step budget, are outside the quantifier (counted as skipped).
"""
from __future__ import annotations

import functools
import itertools

from vlib import gload, hugrvm, pyoracle

ID = "C03"
LEVEL = "exploration"

HEADER = '''
@guppy.struct
class P:
    a: int
    b: int

@guppy
def f(a: int, b: int) -> int:
    result("f", a)
    return a - b

@guppy
def swap2(a: int, b: int) -> tuple[int, int]:
    return b, a + 1

@guppy
def noret(a: int) -> None:
    result("n", a)

@guppy
def early(a: int) -> None:
    if a > 1:
        return
    result("e", a)
'''

# atoms: (kind, lines).  Variables: x, y (int params), b (bool param).
ATOMS_CORE = [
    ("assign", ["x = x + 1"]),
    ("assign", ["y = x * 2"]),
    ("swap", ["x, y = y, x"]),
    ("augassign", ["x += y"]),
    ("result", ['result("r", x)']),
    ("cmp", ["b = x < y"]),
    ("call", ["y = f(x, y)"]),
    ("ifexp", ["x = y if b else x + 2"]),
]
ATOMS_MORE = [
    ("tuple", ["t = (x, y, b)", "x = t[1]"]),
    ("walrus", ["y = (z := x + 1) + z"]),
    ("struct", ["s = P(x, y)", "x = s.b"]),
    ("array", ["xs = array(x, y, 3)", "y = xs[1]"]),
    ("nested-fn", ["def g(a: int) -> int:", "    return a + 1", "x = g(y)"]),
    ("unpack-array", ["p, q = array(y, x)", "x = p"]),
    ("starred", ["p, *q = (y, x, 1)", "x = p"]),
    ("boolop", ["b = b and x < y or not b"]),
    ("chain-cmp", ["b = x <= y < 3"]),
    ("array-set", ["xs = array(x, y)", "xs[0] = y + 1", "x = xs[0]"]),
    ("chain-cmp-mixed", ["b = 0 <= x < y"]),
    ("chain-cmp-mixed", ["b = y > x >= 1"]),
    ("chain-cmp-mixed", ["b = x < y <= 2 != x"]),
    ("chain-cmp-negative-literal", ["b = x - 3 < -1 < y"]),
    ("chain-cmp-negative-literal", ["b = -2 <= -1 < y - 1 < 5"]),
    ("starred-array-mid",["p, *q, r, s = array(y, x, 5, 7)", "x = r * 10 + s"]),
    ("starred-array-tail", ["*q, r, s, u = array(y, x, 5, 7, 9)", "y = r * 100 + s * 10 + u"]),
    ("starred-array-head", ["p, r, *q = array(y, x, 5)", "x = p * 10 + r"]),
    ("or-chain", ["b = x > 1 or y > 1 or x == y"]),
    ("and-chain", ["b = x >= 0 and y > 0 and x != y"]),
    ("mixed-bool-chain", ["b = x > 1 or y > 1 and x == 0 or b"]),
    ("pass", ["pass"]),
    ("annassign", ["z: int = x + y", "x = z - 1"]),
    ("starred-tuple-mid", ["p, *q, r = (y, x, 1, 2)", "x = p * 10 + r"]),
    ("unpack-range", ["p, q = range(2)", "y = y + p + q * 2"]),
    ("tuple-returning-call", ["x, y = swap2(x, y)"]),
    ("void-call", ["noret(x)", "early(y)"]),
    ("nested-tuple-unpack", ["(p, q), r = (x, y), 3", "x = q * 10 + r", "y = p"]),
    # several same-typed PLACES of one struct / tuple live across a branch or loop, first used in a different
    # order on each path (block rows are sorted by place, so a wrong order swaps equal-typed values silently)
    ("struct-fields-live-across-branch", ["s = P(x, y)", "if b:", "    x = s.b - s.a", "else:", "    x = s.a * 10 + s.b", "y = s.a - y"]),
    ("struct-fields-live-across-branch", ["s = P(x, y)", "if x < y:", "    s.a = s.b + 1", "else:", "    s.b = s.a * 3", "x = s.a * 10 + s.b"]),
    ("tuple-elems-live-across-branch", ["t = (x, y)", "if b:", "    x = t[1] - t[0]", "else:", "    x = t[0] * 10 + t[1]", "y = t[0] - y"]),
    ("struct-fields-live-across-loop", ["s = P(x, y)", "while x < 3:", "    x += s.b - s.a + 1", "    s.a = s.a - 1", "y = s.a * 10 + s.b"]),
    ("two-structs-live-across-branch", ["s = P(x, y)", "s2 = P(y, x + 1)", "if b:", "    x = s2.a - s.b", "else:", "    x = s.b * 10 + s2.a", "y = s.a - s2.b"]),
]
LOOP_I = ("loopvar", ["x += i"])
LOOP_E = ("loopvar", ["y += e"])

HEADERS = [
    ("if-b", "if b:", False),
    ("if-cmp", "if x < y:", False),
    ("while", "while x < 3:", True),
    ("for-range", "for i in range(2):", True),
    ("for-array", "for e in array(x, 1):", True),
]
JUMPS_LOOP = [("break", ["break"]), ("continue", ["continue"])]
JUMP_RET = ("return", ["return y"])


def _ind(lines):
    return ["    " + l for l in lines]


class Gen:
    def __init__(self, atoms):
        self.atoms = atoms

    @functools.lru_cache(maxsize=None)
    def stmts(self, n: int, inloop: bool, has_i: bool, has_e: bool, depth: int):
        """All statements of size exactly n: tuples (kinds frozenset, lines tuple)."""
        out = []
        if n == 1:
            for k, l in self.atoms:
                out.append((frozenset([k]), tuple(l)))
            if has_i:
                out.append((frozenset([LOOP_I[0]]), tuple(LOOP_I[1])))
            if has_e:
                out.append((frozenset([LOOP_E[0]]), tuple(LOOP_E[1])))
            if inloop:
                for k, l in JUMPS_LOOP:
                    out.append((frozenset([k]), tuple(l)))
            out.append((frozenset([JUMP_RET[0]]), tuple(JUMP_RET[1])))
            return tuple(out)
        if depth <= 0:
            return ()
        for hk, hl, isloop in HEADERS:
            il = inloop or isloop
            hi = has_i or hk == "for-range"
            he = has_e or hk == "for-array"
            # header + body of size n-1
            for bk, bl in self.blocks(n - 1, il, hi, he, depth - 1):
                out.append((bk | {hk}, (hl, *_ind(bl))))
            if not isloop and n >= 3:
                # if / else: split n-1 between the branches
                for a in range(1, n - 1):
                    for bk, bl in self.blocks(a, il, hi, he, depth - 1):
                        for ek, el in self.blocks(n - 1 - a, il, hi, he, depth - 1):
                            out.append((bk | ek | {hk, "else"}, (hl, *_ind(bl), "else:", *_ind(el))))
            if hk == "if-b" and n >= 4:
                # if / elif / else with one statement each
                for (k1, l1), (k2, l2), (k3, l3) in itertools.product(
                        self.blocks(1, il, hi, he, depth - 1), self.blocks(1, il, hi, he, depth - 1),
                        self.blocks(n - 3, il, hi, he, depth - 1)):
                    out.append((k1 | k2 | k3 | {"elif"},
                                (hl, *_ind(l1), "elif x < y:", *_ind(l2), "else:", *_ind(l3))))
        return tuple(out)

    @functools.lru_cache(maxsize=None)
    def blocks(self, n: int, inloop: bool, has_i: bool, has_e: bool, depth: int):
        """All statement sequences of total size exactly n (n >= 1)."""
        out = []
        for k in range(1, n + 1):
            for sk, sl in self.stmts(k, inloop, has_i, has_e, depth):
                if k == n:
                    out.append((sk, sl))
                else:
                    for rk, rl in self.blocks(n - k, inloop, has_i, has_e, depth):
                        out.append((sk | rk, sl + rl))
        return tuple(out)


TAIL = ['result("x", x)', 'result("y", y)', 'result("b", b)', "return x"]


# every FORM of range() as a loop header: one / two / three arguments, ascending / descending, literal / run-time bounds,
# sequences that land exactly on `stop`, jump over it, or are empty; bodies: every block of size <= 2 (quick) / <= 3
RANGE_HEADERS = [
    ("range-2args", "for i in range(1, 3):"), ("range-3args-up", "for i in range(0, 4, 2):"), ("range-3args-up-jump", "for i in range(0, 3, 2):"),
    ("range-down-lands-on-stop", "for i in range(2, 0, -1):"), ("range-down-jumps-over-stop", "for i in range(3, 0, -2):"),
    ("range-down-empty", "for i in range(2, 2, -1):"), ("range-down-runtime", "for i in range(x, x - 2, -1):"),
    ("range-down-runtime-step", "for i in range(4, 0, y - 3):"), ("range-up-runtime", "for i in range(y, y + 2):"),
    ("range-up-empty-runtime", "for i in range(x, x):"), ("range-down-2", "for i in range(4, 0, -2):"),
]


def _range_header_programs(gen, nmax):
    out = []
    for hk, hl in RANGE_HEADERS:
        for n in range(1, nmax + 1):
            for bk, bl in gen.blocks(n, True, True, False, 1):
                out.append((bk | {"for-range", hk}, (hl, *_ind(bl))))
    return out


def programs(tier):
    if tier == "quick":
        gen, nmax, depth = Gen(tuple(ATOMS_CORE)), 3, 2
        extra = Gen(tuple(ATOMS_CORE + ATOMS_MORE))
        seqs = _range_header_programs(gen, 2)
        for n in range(1, nmax + 1):
            seqs.extend(gen.blocks(n, False, False, False, depth))
        # the wider atom set, up to size 2
        seen = {s[1] for s in seqs}
        for n in (1, 2):
            for s in extra.blocks(n, False, False, False, depth):
                if s[1] not in seen:
                    seqs.append(s)
        return seqs
    gen = Gen(tuple(ATOMS_CORE + ATOMS_MORE))
    seqs = _range_header_programs(Gen(tuple(ATOMS_CORE)), 3)
    for n in range(1, 4):
        seqs.extend(gen.blocks(n, False, False, False, 2))
    core = Gen(tuple(ATOMS_CORE))
    seen = {s[1] for s in seqs}
    for s in core.blocks(4, False, False, False, 3):
        if s[1] not in seen:
            seqs.append(s)
    return seqs


def source(lines):
    body = "\n".join("    " + l for l in (*lines, *TAIL))
    return HEADER + f"\n@guppy\ndef main(x: int, y: int, b: bool) -> int:\n{body}\n"


INPUTS = [(x, y, b) for x in (0, 1, 2) for y in (0, 2) for b in (False, True)]


def _norm_trace(events):
    out = []
    for e in events:
        if e[0] == "result":
            out.append(("result", e[1], e[2]))
        elif e[0] in ("panic", "exit"):
            out.append((e[0], e[2]))
    return out


def eval_program(item):
    kinds, lines = item
    src = source(lines)
    res = {"status": "", "kinds": sorted(kinds), "dis": None, "runs": 0, "undef": 0, "harness": None}
    o, mod = gload.run_src(src)
    if o.kind == "error":
        res["status"] = "rejected"
        res["title"] = o.title
        return res
    if o.kind == "crash":
        res["status"] = "crash"
        res["dis"] = o.exc
        return res
    res["status"] = "accepted"
    h = o.package.modules[0]
    code = pyoracle.prepare(gload.PRELUDE + src)
    for (x, y, b) in INPUTS:
        st, val, trace = pyoracle.run(code, "main", [x, y, b], step_budget=3000)
        if st == "undefined":
            res["undef"] += 1
            continue
        r = hugrvm.run(h, "main", [hugrvm.to_vm(x), hugrvm.to_vm(y), b], step_budget=300000)
        res["runs"] += 1
        if r.status == "budget":
            # CPython finished within 3000 steps; the compiled program is still running after 300000
            res["dis"] = {"input": [x, y, b], "python": [st, val, _norm_trace(trace)],
                          "guppy": ["does-not-terminate-within-100x-python-steps", None, _norm_trace(r.events)[:12]]}
            return res
        if r.status in ("unsupported", "invariant"):
            res["harness"] = f"{r.status}: {r.detail}"
            return res
        want = _norm_trace(trace)
        got = _norm_trace(r.events)
        if st != r.status or got != want or (st == "ok" and hugrvm.s64(r.values[0]) != val):
            res["dis"] = {"input": [x, y, b], "python": [st, val, want],
                          "guppy": [r.status, r.values and hugrvm.s64(r.values[0]), got]}
            return res
    return res


def run(ctx):
    progs = programs(ctx.tier)
    results = ctx.pmap(eval_program, progs, chunk=24)
    acc = rej = runs = undef = 0
    kinds_seen: dict[str, int] = {}
    rej_titles: dict[str, int] = {}
    samples = []
    for (kinds, lines), r in zip(progs, results):
        if r["harness"]:
            raise RuntimeError(f"hugrvm could not execute: {r['harness']}\n{source(lines)}")
        if r["status"] == "rejected":
            rej += 1
            rej_titles[r["title"]] = rej_titles.get(r["title"], 0) + 1
            continue
        if r["status"] == "crash":
            ctx.violation("compiler-crash:" + "+".join(r["kinds"]), f"compiler crashed: {r['dis']}\n" + "\n".join(lines),
                          {"lines": list(lines)})
            continue
        acc += 1
        runs += r["runs"]
        undef += r["undef"]
        for k in r["kinds"]:
            kinds_seen[k] = kinds_seen.get(k, 0) + 1
        if r["dis"]:
            ctx.violation("trace-mismatch:" + "+".join(r["kinds"]),
                          f"program behaves differently from CPython on {r['dis']['input']}: python={r['dis']['python']} "
                          f"guppy={r['dis']['guppy']}; body: " + " | ".join(lines), {"lines": list(lines)})
        if len(samples) < 5 and acc % 1201 == 7:
            samples.append({"body": list(lines), "inputs": len(INPUTS)})
    return {
        "evaluations": runs,
        "distinct_nontrivial": acc,
        "rule": "all statement sequences of grammar G-cf up to the size bound (atoms: assign, swap, aug-assign, result, compare, call, "
                "ifexp, tuple, walrus, struct, array, nested fn, unpacking; if/else/elif, while, for-range, for-array, break, continue, "
                "return, code after jumps) x 12 inputs; non-trivial = accepted by the checker and executed",
        "samples": samples,
        "programs": len(progs), "accepted": acc, "rejected_by_checker": rej,
        "rejection_titles": rej_titles,
        "inputs_skipped_python_undefined": undef,
        "construct_coverage": kinds_seen,
    }


def replay(ctx, item):
    r = eval_program((frozenset(), tuple(item["lines"])))
    return {"violation": bool(r["dis"]) or r["status"] == "crash", "result": r, "source": source(item["lines"])}
