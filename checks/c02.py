"""C02 — Rejected programs fail with a located user error, never a crash.

Enumerated: near-miss MUTANTS of well-formed base programs (vlib.gen01.bases): every
mutation operator applied at EVERY applicable site of the base's `main` function
(bounded-exhaustive; no sampling).  Thorough tier additionally applies all PAIRS of
mutations to the smallest bases.

Oracle (exactly the statement): for each mutant, check()+compile_function() either
succeed or raise GuppyError; for a GuppyError the diagnostic renders (gload renders it)
and EVERY span (main + children) lies in the synthetic source file of that mutant and
within its line range.  Anything else escaping guppylang is a violation:
  crash:<ExceptionType>:<operator>:<innermost /repo function>
  render-crash:<ExceptionType>:<operator>:<innermost /repo function>
  span-outside-source:<error title>
  hang:<operator>                         (no result within HANG_S seconds of CPU time)
Exceptions raised by *Python itself* while exec'ing the mutant module (innermost frame
in the mutant module, e.g. an annotation that Python cannot evaluate) are generator
artefacts: counted (`python_define_errors`), never violations.  Mutants that are not
valid Python (compile() fails) are skipped and counted (`syntax_skipped`).
"""
from __future__ import annotations

import ast
import copy
import re
import signal

ID = "C02"
LEVEL = "exploration"

HANG_S = 60

_FRAME = re.compile(r'File "([^"]+)", line (\d+), in (\S+)')


def frames(tb: str):
    return [(m.group(1), int(m.group(2)), m.group(3)) for m in _FRAME.finditer(tb or "")]


GENERIC_FILES = {"span.py", "diagnostic.py", "error.py", "ast_util.py"}


def repo_frame(tb: str) -> str:
    """Crash site: innermost guppylang frame, skipping generic helpers (span conversion,
    diagnostics plumbing, visitor dispatch) so that distinct callers get distinct keys."""
    best = generic = "?"
    for path, _line, fn in frames(tb):
        if "/guppylang_internals/" in path or "/guppylang/" in path:
            base = path.rsplit("/", 1)[-1]
            if base in GENERIC_FILES:
                generic = f"{base}:{fn}"
            else:
                best = f"{base}:{fn}"
                generic = "?"
    if best == "?":
        return generic
    return best if generic == "?" else f"{best}>{generic}"


def recursion_site(src: str, entry: str, exp: bool) -> str:
    """Re-run check() on a fresh load and name the function that dominates the
    innermost frames of the RecursionError traceback."""
    import traceback
    from checks.c01 import set_experimental
    from vlib import gload
    set_experimental(exp)
    try:
        mod = gload.load(gload.PRELUDE + src)
    except BaseException:  # noqa: BLE001
        return "?"
    try:
        mod.__dict__[entry].check()
    except RecursionError as e:
        cnt: dict = {}
        for fr in traceback.extract_tb(e.__traceback__)[-60:]:
            if "/guppylang" in fr.filename:
                k = f"{fr.filename.rsplit('/', 1)[-1]}:{fr.name}"
                cnt[k] = cnt.get(k, 0) + 1
        if cnt:
            return sorted(cnt.items(), key=lambda kv: (-kv[1], kv[0]))[0][0]
    except BaseException:  # noqa: BLE001
        pass
    finally:
        gload.unload(mod)
    return "?"


# ----------------------------------------------------------------------- mutation
ALT_TYPES = ["int", "bool", "float", "qubit", "array[int, 2]", "tuple[int, int]"]

UNSUP_STMTS = [
    ("try", "try:\n    pass\nexcept Exception:\n    pass"),
    ("try-finally", "try:\n    pass\nfinally:\n    pass"),
    ("with-open", "with open('f') as fh:\n    pass"),
    ("with-expr", "with {v}:\n    pass"),
    ("global", "global gg"),
    ("del", "del {v}"),
    ("assert", "assert {v}"),
    ("assert-msg", "assert {v}, 'msg'"),
    ("raise", "raise ValueError('x')"),
    ("raise-bare", "raise"),
    ("match", "match {v}:\n    case 1:\n        pass\n    case _:\n        pass"),
    ("chain-assign", "c1 = c2 = 1"),
    ("class", "class Loc:\n    pass"),
    ("import", "import os"),
    ("import-from", "from os import path"),
    ("async-def", "async def co() -> None:\n    pass"),
    ("async-for-with", "async def co() -> None:\n    async for i in {v}:\n        pass\n    async with {v}:\n        pass\n    await {v}"),
    ("yield", "yield {v}"),
    ("yield-from", "yield from {v}"),
    ("yield-assign", "ya = yield"),
    ("lambda", "lam = lambda u: u"),
    ("lambda-call", "lc0 = (lambda: 1)()"),
    ("for-else", "for fe in range(2):\n    pass\nelse:\n    pass"),
    ("while-else", "while False:\n    pass\nelse:\n    pass"),
    ("ann-only", "ao: int"),
    ("default-arg", "def da(u: int = 1) -> int:\n    return u"),
    ("decorated-nested", "@staticmethod\ndef dn(u: int) -> int:\n    return u"),
    ("guppy-decorated-nested", "@guppy\ndef dn(u: int) -> int:\n    return u"),
    ("vararg", "def va(*args: int) -> None:\n    pass"),
    ("kwarg", "def kw(**kwargs: int) -> None:\n    pass"),
    ("kwonly", "def ko(*, u: int) -> None:\n    pass"),
    ("posonly", "def po(u: int, /) -> int:\n    return u"),
    ("no-ann-nested", "def na(u):\n    return u"),
    ("no-ret-ann-nested", "def nr(u: int):\n    return u"),
    ("generic-nested", "def gn[U](u: U) -> U:\n    return u"),
    ("type-alias", "type TA = int"),
    ("nonlocal-nested", "def nl() -> None:\n    nonlocal {v}\n    {v} = {v}"),
    ("global-nested", "def gl() -> None:\n    global gg2\n    gg2 = 1"),
    ("nested-return-mismatch", "def rm() -> int:\n    return 1.5"),
    ("nested-no-return", "def nr2() -> int:\n    pass"),
    ("nested-use-undefined", "def nu() -> int:\n    return undefined_in_nested"),
    ("nested-recursive-untyped", "def nrec(u: int) -> int:\n    return nrec(u, u)"),
    ("print", "print({v})"),
    ("list-display", "ld = [1, 2]"),
    ("list-empty", "le = []"),
    ("dict-display", "dd = {1: 2}"),
    ("set-display", "sd = {1, 2}"),
    ("fstring", "fs = f'{{{v}}}'"),
    ("slice", "sl = array(1, 2, 3)[0:1]"),
    ("slice-var", "sl2 = {v}[0:1]"),
    ("slice-step", "sl3 = array(1, 2, 3)[::2]"),
    ("starred-call", "print(*{v})"),
    ("starred-call-array", "sc1 = array(*{v})"),
    ("kwarg-call", "kc = int(x=1)"),
    ("kwarg-call-array", "kc2 = array(1, 2, n=2)"),
    ("dstar-call", "kc3 = int(**{v})"),
    ("listcomp", "lc = [u for u in range(3)]"),
    ("genexp", "ge = (u for u in range(3))"),
    ("dictcomp", "dc = {u: u for u in range(3)}"),
    ("setcomp", "sc = {u for u in range(3)}"),
    ("array-comp-cond", "ac = array(u for u in range(3) if u > 1)"),
    ("array-comp-undefined", "ac2 = array(uu for u in range(3))"),
    ("array-comp-two-gens", "ac3 = array(u + w for u in range(2) for w in range(2))"),
    ("array-comp-use-var", "ac4 = array({v} for u in range(2))"),
    ("array-comp-walrus", "ac5 = array((wo5 := u) for u in range(2))"),
    ("array-comp-shadow", "ac6 = array({v} for {v} in range(2))"),
    ("array-comp-async", "async def co2() -> None:\n    ac7 = array(u async for u in {v})"),
    ("compare-chain", "cc = 0 < {v} < 3"),
    ("is", "ii = {v} is {v}"),
    ("is-not", "ii2 = {v} is not None"),
    ("in", "ni = {v} in ({v}, {v})"),
    ("not-in", "ni2 = 1 not in array(1, 2)"),
    ("walrus-stmt", "(wo := 1)"),
    ("walrus-list", "wo2 = [wo3 := 1, wo3]"),
    ("walrus-call", "print(wo4 := 2)"),
    ("walrus-tuple", "wo6 = (wo7 := {v}, wo7)"),
    ("walrus-ifexp", "wo8 = (wo9 := 1) if {v} else wo9"),
    ("ellipsis", "..."),
    ("none-expr", "None"),
    ("bytes", "by = b'x'"),
    ("complex", "cj = 1j"),
    ("bigint", "bi = 1267650600228229401496703205376"),
    ("neg-bigint", "nb = -9223372036854775809"),
    ("bigfloat", "bf = 1e999"),
    ("str-assign", "sa_ = 'x'"),
    ("str-concat", "sa2 = 'x' + 'y'"),
    ("str-index", "sa3 = 'xy'[0]"),
    ("none-assign", "na_ = None"),
    ("ellipsis-assign", "ea = ..."),
    ("attribute-unknown", "au = {v}.nope"),
    ("attribute-chain", "au2 = {v}.nope.nope2"),
    ("method-unknown", "au3 = {v}.nope()"),
    ("subscript-int", "si = {v}[0]"),
    ("subscript-tuple", "si2 = {v}[0, 1]"),
    ("call-non-fn", "cn = {v}()"),
    ("call-literal", "cn2 = 1(2)"),
    ("matmul", "mm = {v} @ {v}"),
    ("owned-expr", "oe = {v} @owned"),
    ("return-none", "return"),
    ("return-tuple", "return 1, 2"),
    ("return-str", "return 'x'"),
    ("star-assign", "*sa4, = {v}"),
    ("starred-expr", "se = (*{v},)"),
    ("aug-undefined", "undefined_aug += 1"),
    ("self-ref", "sr = sr"),
    ("tuple-target-mismatch", "tm1, tm2 = 1"),
    ("tuple-target-len", "tm3, tm4 = (1, 2, 3)"),
    ("tuple-target-nested", "(tm5, tm6), tm7 = (1, 2)"),
    ("attr-assign", "{v}.attr = 1"),
    ("subscript-assign", "{v}[0] = 1"),
    ("subscript-assign-literal", "array(1, 2)[0] = 1"),
    ("aug-attr", "{v}.attr += 1"),
    ("aug-subscript", "{v}[0] += 1"),
    ("ann-attr", "{v}.attr: int = 1"),
    ("ann-bad-type", "ab: undefined_type = 1"),
    ("ann-str-type", "ab2: 'int' = 1"),
    ("ann-generic-bad", "ab3: array[int] = array(1)"),
    ("ann-array-neg", "ab4: array[int, -1] = array()"),
    ("ann-tuple-empty", "ab5: tuple[()] = ()"),
    ("ann-callable", "ab6: Callable[[int], int] = {v}"),
    ("ann-option-noarg", "ab7: Option = 1"),
    ("comptime-undefined", "cb = comptime(undefined_py)"),
    ("comptime-str", "cs_ = comptime('s')"),
    ("comptime-dict", "cd = comptime({{1: 2}})"),
    ("comptime-nested-list", "cl = comptime([[1], [2, 3]])"),
    ("comptime-empty-list", "cl2 = comptime([])"),
    ("comptime-raises", "cr = comptime(1 // 0)"),
    ("comptime-lambda", "cl3 = comptime(lambda: 1)"),
    ("comptime-noarg", "cl4 = comptime()"),
    ("comptime-twoargs", "cl5 = comptime(1, 2)"),
    ("py-call", "pc = py(1)"),
    ("result-nonliteral-tag", "result({v}, 1)"),
    ("result-long-tag", "result('t' * 300, 1)"),
    ("panic-nonliteral", "panic({v})"),
    ("exit-nonliteral", "exit('m', {v})"),
    ("range-float", "for rf in range(1.5):\n    pass"),
    ("for-over-int", "for fi in {v}:\n    pass"),
    ("for-tuple-target-mismatch", "for f1, f2 in range(3):\n    pass"),
    ("for-attr-target", "for {v}.attr in range(3):\n    pass"),
    ("for-subscript-target", "for {v}[0] in range(3):\n    pass"),
    ("while-nonbool", "while 'x':\n    break"),
    ("if-none", "if None:\n    pass"),
    ("not-nonbool", "nn = not 'x'"),
    ("and-nonbool", "an = 'x' and 1.5"),
    ("ifexp-mismatch", "im = 1 if {v} else 'x'"),
    ("ifexp-nonbool", "im2 = 1 if 1.5 else 2"),
    ("unary-str", "us = -'x'"),
    ("binop-mismatch", "bm = 1 + 'x'"),
    ("binop-none", "bn = None + None"),
    ("compare-mismatch", "cm = 1 < 'x'"),
    ("div-zero-literal", "dz = 1 // 0"),
    ("shift-neg", "sn = 1 << -1"),
    ("pow-neg", "pn = 2 ** -1"),
    ("nat-neg", "nn2 = nat(-1)"),
    ("array-empty-noann", "ae = array()"),
    ("array-mixed", "am = array(1, 1.5, True)"),
    ("array-oob-literal", "ao2 = array(1, 2)[5]"),
    ("array-neg-index", "ao3 = array(1, 2)[-1]"),
    ("array-float-index", "ao4 = array(1, 2)[1.5]"),
    ("tuple-oob", "to = (1, 2)[2]"),
    ("tuple-var-index", "to2 = (1, 2)[{v}]"),
    ("tuple-neg-index", "to3 = (1, 2)[-1]"),
    ("generic-apply-nonfn", "ga = {v}[int]"),
    ("generic-apply-builtin", "ga2 = int[int](1)"),
    ("type-as-value", "tv = int"),
    ("type-as-value-qubit", "tv2 = qubit"),
    ("array-type-as-value", "tv3 = array[int, 2]"),
    ("struct-like-call", "tv4 = tuple(1, 2)"),
    ("callable-call", "cc2 = callable({v})"),
    ("len-int", "li = len(1)"),
    ("qubit-arg", "qa = qubit(1)"),
    ("measure-int", "mi = measure(1)"),
    ("h-literal", "h(1)"),
    ("h-noarg", "h()"),
    ("h-alloc", "h(qubit())"),
    ("discard-twice", "dq = qubit()\ndiscard(dq)\ndiscard(dq)"),
    ("leak", "lk = qubit()"),
    ("leak-expr", "qubit()"),
    ("copy-qubit", "cq = qubit()\ncq2 = (cq, cq)\ndiscard(cq)"),
    ("cx-same", "cs2 = qubit()\ncx(cs2, cs2)\ndiscard(cs2)"),
    ("move-in-loop", "ml = qubit()\nwhile {v}:\n    discard(ml)"),
    ("borrow-after-move", "bm2 = qubit()\ndiscard(bm2)\nh(bm2)"),
    ("subscript-move", "sm = array(qubit(), qubit())\nsm0 = sm[0]\ndiscard_array(sm)\ndiscard(sm0)"),
    ("pass", "pass"),
    # comptime values whose SHAPE disagrees with the annotation they are checked against (the annotation is only a hint)
    ("comptime-tuple-longer-than-annotation", "ct1: tuple[int, int] = comptime((1, 2, 3))"),
    ("comptime-tuple-shorter-than-annotation", "ct2: tuple[int, int, int] = comptime((1, 2))"),
    ("comptime-nested-tuple-longer", "ct3: tuple[tuple[int, int], int] = comptime(((1, 2, 3), 4))"),
    ("comptime-empty-tuple-for-pair", "ct4: tuple[int, int] = comptime(())"),
    ("comptime-list-longer-than-array", "ct5: array[int, 2] = comptime([1, 2, 3])"),
    ("comptime-list-of-tuples-longer", "ct6: array[tuple[int, int], 1] = comptime([(1, 2, 3)])"),
    ("comptime-tuple-as-argument", "ct7 = h2c(comptime((1, 2, 3)))"),
    ("comptime-tuple-returned", "def ct8() -> tuple[int, int]:\n    return comptime((1, 2, 3))"),
    # a comprehension whose iterable mentions the name its own target binds: the iterable is evaluated in the
    # ENCLOSING scope, where that name is undefined / defined on some paths only / defined in an earlier block
    ("comp-self-named-undefined", "cs1 = array(zz + 1 for zz in zz)"),
    ("comp-self-named-maybe", "if {v}:\n    zy = array(1, 2)\ncs2 = array(zy + 1 for zy in zy)"),
    ("comp-self-named-earlier-block", "zx = array(1, 2)\nif {v}:\n    pass\ncs3 = array(zx + 1 for zx in zx)"),
    ("comp-self-named-second-generator", "cs4 = array(a1 + b1 for a1 in range(2) for b1 in range(b1))"),
    ("comp-first-target-in-second-iterable", "cs7 = array(a3 + b3 for a3 in range(2) for b3 in range(a3))"),
    ("comp-guard-undefined", "cs5 = array(a2 for a2 in range(2) if zu > 0)"),
    ("comp-self-named-list", "cs6 = [zt for zt in zt]"),
]

UNSUP_EXPRS = [
    ("lambda", "lambda: 0"), ("dict", "{1: 2}"), ("set", "{1, 2}"), ("list", "[1, 2]"),
    ("fstring", "f'{1}'"), ("slice", "array(1, 2, 3)[0:1]"), ("listcomp", "[u for u in range(2)]"),
    ("genexp", "(u for u in range(2))"), ("yield", "(yield)"), ("str", "'s'"), ("none", "None"),
    ("bytes", "b'x'"), ("complex", "1j"), ("ellipsis", "..."), ("bigint", "18446744073709551616"),
    ("negbig", "-9223372036854775809"), ("is", "1 is 1"), ("in", "1 in (1, 2)"),
    ("starred-tuple", "(*(1, 2), 3)"), ("undefined-call", "undefined_fn(1)"),
    ("undefined-attr", "undefined_mod.attr"), ("type-value", "int"), ("empty-tuple", "()"),
    ("walrus", "(wz := 1)"), ("ifexp-mismatch", "(1 if True else 'x')"),
    ("kwarg-call", "int(x=1)"), ("star-call", "int(*(1,))"), ("comptime-str", "comptime('s')"),
    ("nested-array", "array(array(1), array(1, 2))"), ("empty-array", "array()"),
    ("qubit-alloc", "qubit()"), ("tuple-with-qubit", "(qubit(), 1)"), ("await", None),
]

# ill-formed unpackings: every split (n names left of the star, m right of it) x a starred section whose
# elements differ in type / arity mismatches / nested patterns / array sources that are too short
for _nl in range(3):
    for _nr in range(3):
        _tg = ", ".join([f"ul{i}" for i in range(_nl)] + ["*ust"] + [f"ur{i}" for i in range(_nr)])
        _left, _right = ["1"] * _nl, ["2"] * _nr
        for _name, _mid in (("hetero-first", ["True", "3", "4"]), ("hetero-last", ["3", "4", "True"]), ("hetero-two", ["3", "2.5"])):
            UNSUP_STMTS.append((f"unpack-{_nl}-star-{_nr}:{_name}", f"{_tg} = {', '.join(_left + _mid + _right)}{',' if _nl + _nr + len(_mid) == 1 else ''}"))
        if _nl + _nr >= 1:
            UNSUP_STMTS.append((f"unpack-{_nl}-star-{_nr}:too-few-values", f"{_tg} = {', '.join((_left + _right)[:-1]) or '()'}{',' if _nl + _nr == 2 else ''}"))
            UNSUP_STMTS.append((f"unpack-{_nl}-star-{_nr}:array-too-short", f"{_tg} = array({', '.join((_left + _right)[:-1])})"))
        UNSUP_STMTS.append((f"unpack-{_nl}-star-{_nr}:non-iterable", f"{_tg} = {{v}}"))
UNSUP_STMTS += [
    ("unpack:too-many-values", "um0, um1 = 1, 2, 3"),
    ("unpack:too-few-values", "um0, um1, um2 = 1, 2"),
    ("unpack:nested-star", "(un0, *un1), un2 = (1, True, 2), 3"),
    ("unpack:two-stars-nested", "*us0, (us1, *us2) = 1, 2, (3, 4.5, 5)"),
    ("unpack:star-only-hetero", "*uo, = 1, True"),
    ("unpack:list-target-hetero", "[ut0, *ut1] = 1, 2, True"),
]

LITERALS = [
    ("bigint", "18446744073709551616"), ("int64-max+1", "9223372036854775808"),
    ("negbig", "-9223372036854775809"), ("str", "'lit'"), ("none", "None"), ("bytes", "b'lit'"),
    ("complex", "2j"), ("ellipsis", "..."), ("float", "2.5"), ("bool", "True"), ("inf", "1e999"),
    # indices / sizes / shift amounts just outside what the construct supports
    ("minus-one", "-1"), ("minus-three", "-3"), ("seven", "7"),
]


class Mutant:
    __slots__ = ("op", "detail", "main_src")

    def __init__(self, op, detail, main_src):
        self.op, self.detail, self.main_src = op, detail, main_src


def split_module(src: str):
    """-> (prefix, main_text, suffix): the text of the top-level function `main`
    (including its decorators) and what surrounds it."""
    tree = ast.parse(src)
    lines = src.split("\n")
    for node in tree.body:
        if isinstance(node, ast.FunctionDef) and node.name == "main":
            start = min([d.lineno for d in node.decorator_list] + [node.lineno]) - 1
            end = node.end_lineno
            return "\n".join(lines[:start]) + ("\n" if start else ""), "\n".join(lines[start:end]) + "\n", \
                "\n".join(lines[end:])
    return None


def _parse_main(main_src):
    return ast.parse(main_src)


def _fn(tree):
    return tree.body[0]


def _bodies(fn):
    """All statement lists inside the function, outermost first (deterministic)."""
    out = []
    for node in ast.walk(fn):
        for attr in ("body", "orelse", "finalbody"):
            b = getattr(node, attr, None)
            if isinstance(b, list) and b and isinstance(b[0], ast.stmt):
                out.append((node, attr))
    return out


def _unparse(tree):
    ast.fix_missing_locations(tree)
    return ast.unparse(tree) + "\n"


def _expr(text):
    return ast.parse(text, mode="eval").body


def _stmts(text):
    return ast.parse(text).body


def _param_names(fn):
    a = fn.args
    return [x.arg for x in a.posonlyargs + a.args + a.kwonlyargs]


def _subject_var(fn):
    ps = _param_names(fn)
    if not ps:
        return "undefined_subject"
    return ps[2] if len(ps) > 2 else ps[-1]


def _nth(tree, pred, n):
    k = 0
    for node in ast.walk(tree):
        if pred(node):
            if k == n:
                return node
            k += 1
    return None


def _count(tree, pred):
    return sum(1 for node in ast.walk(tree) if pred(node))


class _ReplaceNode(ast.NodeTransformer):
    def __init__(self, target, new):
        self.target, self.new = target, new

    def visit(self, node):
        if node is self.target:
            return self.new
        return self.generic_visit(node)


def _each(main_src, pred):
    """Yield (fresh tree, i-th matching node) for every matching node."""
    n = _count(_fn(_parse_main(main_src)), pred)
    for i in range(n):
        tree = _parse_main(main_src)
        yield tree, _nth(_fn(tree), pred, i), i


def _used_names(fn):
    used = set()
    for st in fn.body:
        for node in ast.walk(st):
            if isinstance(node, ast.Name):
                used.add(node.id)
    return used


def _ann_nodes(fn):
    """Annotation expression slots: (owner, attribute) pairs, deterministic order.
    Parameters of `main` that the body never mentions are not sites (retyping them only
    yields accepted programs)."""
    out = []
    used = _used_names(fn)
    own = set(map(id, fn.args.posonlyargs + fn.args.args + fn.args.kwonlyargs))
    for node in ast.walk(fn):
        if isinstance(node, ast.arg) and node.annotation is not None:
            if id(node) in own and node.arg not in used:
                continue
            out.append((node, "annotation"))
        elif isinstance(node, ast.FunctionDef) and node.returns is not None:
            out.append((node, "returns"))
        elif isinstance(node, ast.AnnAssign):
            out.append((node, "annotation"))
    return out


def m_rename_use(main_src):
    pred = lambda n: isinstance(n, ast.Name) and isinstance(n.ctx, ast.Load)  # noqa: E731
    for tree, node, i in _each(main_src, pred):
        old = node.id
        node.id = "undefined_name"
        yield Mutant("rename-use", f"{old}#{i}", _unparse(tree))


def m_stmt_ops(main_src):
    """delete / duplicate every statement; delete-assign is reported separately."""
    fn0 = _fn(_parse_main(main_src))
    nb = len(_bodies(fn0))
    for bi in range(nb):
        owner0, attr0 = _bodies(fn0)[bi]
        for si in range(len(getattr(owner0, attr0))):
            st0 = getattr(owner0, attr0)[si]
            kind = type(st0).__name__
            # delete
            tree = _parse_main(main_src)
            owner, attr = _bodies(_fn(tree))[bi]
            body = getattr(owner, attr)
            del body[si]
            if not body:
                if attr == "body":
                    body.append(ast.Pass())
            op = {"Assign": "delete-assign", "AugAssign": "delete-assign", "AnnAssign": "delete-assign",
                  "Expr": "drop-consume", "Return": "delete-return"}.get(kind, "delete-stmt")
            yield Mutant(op, f"{bi}.{si}:{kind}", _unparse(tree))
            # duplicate (use after consume for consuming statements)
            tree = _parse_main(main_src)
            owner, attr = _bodies(_fn(tree))[bi]
            body = getattr(owner, attr)
            body.insert(si + 1, copy.deepcopy(body[si]))
            yield Mutant("dup-use", f"{bi}.{si}:{kind}", _unparse(tree))


def m_retype(main_src):
    fn0 = _fn(_parse_main(main_src))
    n = len(_ann_nodes(fn0))
    for i in range(n):
        owner0, attr0 = _ann_nodes(fn0)[i]
        old = ast.unparse(getattr(owner0, attr0))
        for alt in ALT_TYPES:
            tree = _parse_main(main_src)
            owner, attr = _ann_nodes(_fn(tree))[i]
            cur = getattr(owner, attr)
            if isinstance(cur, ast.BinOp) and isinstance(cur.op, ast.MatMult):
                if ast.unparse(cur.left) == alt:
                    continue
                cur.left = _expr(alt)        # keep `@owned` / `@comptime`
            else:
                if old == alt:
                    continue
                setattr(owner, attr, _expr(alt))
            yield Mutant("retype-annotation", f"{i}:{old}->{alt}", _unparse(tree))
        # drop the flag / add @owned
        tree = _parse_main(main_src)
        owner, attr = _ann_nodes(_fn(tree))[i]
        cur = getattr(owner, attr)
        if isinstance(cur, ast.BinOp) and isinstance(cur.op, ast.MatMult):
            setattr(owner, attr, cur.left)
            yield Mutant("retype-annotation", f"{i}:drop-flag", _unparse(tree))
        else:
            setattr(owner, attr, _expr(f"{old} @owned"))
            yield Mutant("retype-annotation", f"{i}:add-owned", _unparse(tree))
    # remove an annotation altogether
    for i in range(n):
        tree = _parse_main(main_src)
        owner, attr = _ann_nodes(_fn(tree))[i]
        if isinstance(owner, ast.AnnAssign):
            continue
        setattr(owner, attr, None)
        yield Mutant("retype-annotation", f"{i}:remove", _unparse(tree))


def m_call_args(main_src):
    pred = lambda n: isinstance(n, ast.Call)  # noqa: E731
    for tree, node, i in _each(main_src, pred):
        node.args.append(ast.Constant(0))
        yield Mutant("add-arg", f"call#{i}", _unparse(tree))
    for tree, node, i in _each(main_src, pred):
        if node.args:
            node.args.pop()
            yield Mutant("drop-arg", f"call#{i}", _unparse(tree))
    for tree, node, i in _each(main_src, pred):
        if node.args and not isinstance(node.args[0], ast.Starred):
            a0 = node.args.pop(0)
            node.keywords.append(ast.keyword("x", a0))
            yield Mutant("kwarg-call", f"call#{i}", _unparse(tree))
    for tree, node, i in _each(main_src, pred):
        if node.args:
            node.args[0] = ast.Starred(node.args[0], ast.Load())
            yield Mutant("starred-call", f"call#{i}", _unparse(tree))
    for tree, node, i in _each(main_src, pred):
        if len(node.args) >= 2:
            node.args[0], node.args[1] = node.args[1], node.args[0]
            yield Mutant("swap-args", f"call#{i}", _unparse(tree))


def _last_return(fn):
    for st in reversed(fn.body):
        if isinstance(st, ast.Return):
            return st
    return None


def m_unreachable(main_src):
    fn0 = _fn(_parse_main(main_src))
    nb = len(_bodies(fn0))
    for bi in range(nb):
        owner0, attr0 = _bodies(fn0)[bi]
        for si in range(len(getattr(owner0, attr0))):
            # insert a copy of the function's final `return` before statement si
            tree = _parse_main(main_src)
            fn = _fn(tree)
            ret = _last_return(fn)
            owner, attr = _bodies(fn)[bi]
            body = getattr(owner, attr)
            body.insert(si, copy.deepcopy(ret) if ret is not None else ast.Return(None))
            yield Mutant("unreachable-after-return", f"{bi}.{si}", _unparse(tree))
            # ... and the dead code directly behind the jump uses names that are defined nowhere
            body.insert(si + 1, _stmts("dead_v = undefined_v + 1\nundefined_f(dead_v)")[0])
            body.insert(si + 2, _stmts("dead_v = undefined_v + 1\nundefined_f(dead_v)")[1])
            yield Mutant("unreachable-undefined-after-return", f"{bi}.{si}", _unparse(tree))
    # move each top-level statement behind the final return
    n = len(fn0.body)
    for si in range(n - 1):
        tree = _parse_main(main_src)
        fn = _fn(tree)
        st = fn.body.pop(si)
        fn.body.append(st)
        yield Mutant("move-after-return", f"{si}", _unparse(tree))
    # statements after break / continue inside loops
    for bi in range(nb):
        owner0, attr0 = _bodies(fn0)[bi]
        if not isinstance(owner0, (ast.While, ast.For)) or attr0 != "body":
            continue
        for kw in (ast.Break, ast.Continue):
            tree = _parse_main(main_src)
            owner, attr = _bodies(_fn(tree))[bi]
            getattr(owner, attr).insert(0, kw())
            yield Mutant("unreachable-after-jump", f"{bi}:{kw.__name__}", _unparse(tree))
            getattr(owner, attr).insert(1, _stmts("dead_v = undefined_v + 1")[0])
            yield Mutant("unreachable-undefined-after-jump", f"{bi}:{kw.__name__}", _unparse(tree))


def m_wrap_nested(main_src):
    tree = _parse_main(main_src)
    fn = _fn(tree)
    params = _param_names(fn)
    for variant in ("args", "capture", "comprehension-free"):
        tree = _parse_main(main_src)
        fn = _fn(tree)
        inner = ast.FunctionDef(name="inner", args=copy.deepcopy(fn.args), body=fn.body, decorator_list=[],
                                returns=copy.deepcopy(fn.returns), type_params=[])
        call_args = [ast.Name(p, ast.Load()) for p in params]
        if variant == "capture":
            inner.args = ast.arguments(posonlyargs=[], args=[], kwonlyargs=[], kw_defaults=[], defaults=[])
            call_args = []
        elif variant == "comprehension-free":
            # nested twice
            inner2 = ast.FunctionDef(name="inner2", args=copy.deepcopy(fn.args), body=inner.body,
                                     decorator_list=[], returns=copy.deepcopy(fn.returns), type_params=[])
            inner.body = [inner2, ast.Return(ast.Call(ast.Name("inner2", ast.Load()),
                                                      [ast.Name(p, ast.Load()) for p in params], []))]
        fn.body = [inner, ast.Return(ast.Call(ast.Name("inner", ast.Load()), call_args, []))]
        yield Mutant("wrap-nested", variant, _unparse(tree))


TYPE_ARG_ALTS = ["int", "qubit", "2", "0", "-1", "bool", "undefined_ty", "array[int, 2]", "'str'", "None"]


def _unused_param_subscripts(fn):
    used = _used_names(fn)
    skip = set()
    for a in fn.args.posonlyargs + fn.args.args + fn.args.kwonlyargs:
        if a.arg not in used and a.annotation is not None:
            skip.update(id(n) for n in ast.walk(a.annotation))
    return skip


def m_type_args(main_src):
    def mkpred(fn):
        skip = _unused_param_subscripts(fn)
        return lambda n: isinstance(n, ast.Subscript) and id(n) not in skip
    n = _count(_fn(_parse_main(main_src)), mkpred(_fn(_parse_main(main_src))))
    fn_count = _fn(_parse_main(main_src))
    n = _count(fn_count, mkpred(fn_count))
    for i in range(n):
        t0 = _parse_main(main_src)
        node0 = _nth(_fn(t0), mkpred(_fn(t0)), i)
        pred = None
        elts = node0.slice.elts if isinstance(node0.slice, ast.Tuple) else [node0.slice]
        for ei in range(len(elts)):
            old = ast.unparse(elts[ei])
            for alt in TYPE_ARG_ALTS:
                if alt == old:
                    continue
                tree = _parse_main(main_src)
                node = _nth(_fn(tree), mkpred(_fn(tree)), i)
                if isinstance(node.slice, ast.Tuple):
                    node.slice.elts[ei] = _expr(alt)
                else:
                    node.slice = _expr(alt)
                yield Mutant("type-arg", f"sub#{i}.{ei}:{old}->{alt}", _unparse(tree))
        # arity: drop / add a type argument
        tree = _parse_main(main_src)
        node = _nth(_fn(tree), mkpred(_fn(tree)), i)
        if isinstance(node.slice, ast.Tuple) and len(node.slice.elts) > 1:
            node.slice.elts.pop()
            if len(node.slice.elts) == 1:
                node.slice = node.slice.elts[0]
        else:
            node.slice = ast.Tuple([node.slice, _expr("int")], ast.Load())
        yield Mutant("type-arg", f"sub#{i}:arity", _unparse(tree))
    # generic parameters of main itself
    fn0 = _fn(_parse_main(main_src))
    for i in range(len(getattr(fn0, "type_params", []))):
        tree = _parse_main(main_src)
        _fn(tree).type_params.pop(i)
        yield Mutant("type-arg", f"drop-type-param#{i}", _unparse(tree))
        for bound in ("Copy", "Drop", "nat", "int", "undefined_bound", "(Copy, Drop)", "qubit"):
            tree = _parse_main(main_src)
            _fn(tree).type_params[i].bound = _expr(bound)
            yield Mutant("type-arg", f"type-param#{i}:bound={bound}", _unparse(tree))


def m_literals(main_src):
    pred = lambda n: isinstance(n, ast.Constant) and not isinstance(n.value, str)  # noqa: E731
    n = _count(_fn(_parse_main(main_src)), pred)
    for i in range(n):
        for name, text in LITERALS:
            tree = _parse_main(main_src)
            node = _nth(_fn(tree), pred, i)
            _ReplaceNode(node, _expr(text)).visit(tree)
            yield Mutant("literal", f"const#{i}:{name}", _unparse(tree))
    pred_s = lambda n: isinstance(n, ast.Constant) and isinstance(n.value, str)  # noqa: E731
    for i in range(_count(_fn(_parse_main(main_src)), pred_s)):
        for name, text in (("int", "1"), ("name", "undefined_tag"), ("fstring", "f'{1}'"), ("empty", "''"),
                           ("bytes", "b't'"), ("long", "'t' * 300")):
            tree = _parse_main(main_src)
            node = _nth(_fn(tree), pred_s, i)
            _ReplaceNode(node, _expr(text)).visit(tree)
            yield Mutant("literal", f"str#{i}:{name}", _unparse(tree))


def m_insert_stmt(main_src, all_positions=True):
    fn0 = _fn(_parse_main(main_src))
    v = _subject_var(fn0)
    bodies0 = _bodies(fn0)
    positions = []
    for bi, (owner, attr) in enumerate(bodies0):
        n = len(getattr(owner, attr))
        positions.append((bi, 0))
        if n > 0 and (bi == 0 or all_positions):
            positions.append((bi, n - 1 if isinstance(getattr(owner, attr)[-1], ast.Return) else n))
    if not all_positions:
        positions = positions[:1]
    positions = sorted(set(positions))
    for name, text in UNSUP_STMTS:
        text = text.replace("{v}", v).replace("{{", "{").replace("}}", "}")
        for bi, si in positions:
            tree = _parse_main(main_src)
            owner, attr = _bodies(_fn(tree))[bi]
            body = getattr(owner, attr)
            body[si:si] = _stmts(text)
            yield Mutant("insert-stmt:" + name, f"{bi}.{si}", _unparse(tree))


def _expr_slots(fn):
    """Expression slots to be replaced: RHS of assignments, return values, conditions,
    call arguments, expression statements."""
    out = []
    for node in ast.walk(fn):
        if isinstance(node, (ast.Assign, ast.AugAssign)) or (isinstance(node, ast.AnnAssign) and node.value):
            out.append((node, "value", None))
        elif isinstance(node, ast.Return) and node.value is not None:
            out.append((node, "value", None))
        elif isinstance(node, (ast.If, ast.While, ast.IfExp)):
            out.append((node, "test", None))
        elif isinstance(node, ast.For):
            out.append((node, "iter", None))
        elif isinstance(node, ast.Call):
            for k in range(len(node.args)):
                out.append((node, "args", k))
        elif isinstance(node, ast.Subscript):
            out.append((node, "slice", None))
    return out


def m_replace_expr(main_src):
    fn0 = _fn(_parse_main(main_src))
    n = len(_expr_slots(fn0))
    for i in range(n):
        for name, text in UNSUP_EXPRS:
            if text is None:
                continue
            tree = _parse_main(main_src)
            owner, attr, k = _expr_slots(_fn(tree))[i]
            new = _expr(text)
            if k is None:
                setattr(owner, attr, new)
            else:
                getattr(owner, attr)[k] = new
            yield Mutant("replace-expr:" + name, f"slot#{i}:{attr}", _unparse(tree))


def m_assign_targets(main_src):
    """Odd assignment targets / operators at every assignment."""
    pred = lambda n: isinstance(n, ast.Assign)  # noqa: E731
    for tree, node, i in _each(main_src, pred):
        node.targets = [node.targets[0], ast.Name("chained_t", ast.Store())]
        yield Mutant("chain-assign", f"assign#{i}", _unparse(tree))
    for tree, node, i in _each(main_src, pred):
        node.targets = [ast.Tuple([node.targets[0], ast.Name("extra_t", ast.Store())], ast.Store())]
        yield Mutant("tuple-target", f"assign#{i}", _unparse(tree))
    for tree, node, i in _each(main_src, pred):
        node.targets = [ast.Attribute(ast.Name("undefined_obj", ast.Load()), "f", ast.Store())]
        yield Mutant("attr-target", f"assign#{i}", _unparse(tree))
    for tree, node, i in _each(main_src, pred):
        node.targets = [ast.Subscript(ast.Name("undefined_arr", ast.Load()), ast.Constant(0), ast.Store())]
        yield Mutant("subscript-target", f"assign#{i}", _unparse(tree))
    for tree, node, i in _each(main_src, pred):
        node.targets = [ast.Tuple([ast.Starred(node.targets[0], ast.Store())], ast.Store())]
        yield Mutant("starred-target", f"assign#{i}", _unparse(tree))
    predc = lambda n: isinstance(n, ast.Compare)  # noqa: E731
    for tree, node, i in _each(main_src, predc):
        for opn in (ast.Is, ast.IsNot, ast.In, ast.NotIn):
            t2 = copy.deepcopy(tree)
            n2 = _nth(_fn(t2), predc, i)
            n2.ops = [opn()] * len(n2.ops)
            yield Mutant("compare-op", f"cmp#{i}:{opn.__name__}", _unparse(t2))
    predb = lambda n: isinstance(n, ast.BinOp) and not isinstance(n.op, ast.MatMult)  # noqa: E731
    for tree, node, i in _each(main_src, predb):
        node.op = ast.MatMult()
        yield Mutant("binop-matmul", f"binop#{i}", _unparse(tree))


ODD_ANNOTATIONS = [
    "'int'", "'array[int, 2]'", "'qubit @owned'", "'undefined_fwd'", "'T'", "'array[T, n]'", "'main'",
    "int | None", "tuple[int, ...]", "list[int]", "list[qubit]", "Callable[[int], int]", "Callable[..., int]",
    "'Callable[[qubit @owned], None]'", "Callable", "'int @comptime'", "'qubit @comptime'",
    "'array[qubit, 2] @comptime'", "'float @comptime'", "'int @owned @owned'", "'int @undefined_flag'",
    "nat", "None", "type", "1", "(int, int)", "[int]", "'int.foo'", "Option[qubit]", "Option", "array",
    "array[int]", "array[2, int]", "'array[int, 2, 3]'", "tuple", "tuple[()]", "str", "'array[int, -1]'",
    "'array[int, 1.5]'", "'array[int, True]'", "'array[array, 2]'", "'tuple[int, qubit @owned]'", "'Option[int, int]'",
    # delayed annotations that are not exactly one expression statement
    "''", "'  '", "'# todo'", "'int; bool'", "'tuple[int, \" \"]'", "'int\\n'", "'\\nint'", "'x = int'", "'pass'", "'(int'",
    "'array[int, 2][0]'", "'lambda: int'", "'int if True else bool'", "'[int for _ in range(2)]'", "'f\"int\"'",
]


def m_odd_annotation(main_src):
    fn0 = _fn(_parse_main(main_src))
    n = len(_ann_nodes(fn0))
    for i in range(n):
        for alt in ODD_ANNOTATIONS:
            tree = _parse_main(main_src)
            owner, attr = _ann_nodes(_fn(tree))[i]
            setattr(owner, attr, _expr(alt))
            yield Mutant("odd-annotation", f"{i}:{alt}", _unparse(tree))


SHADOW_FORMS = [
    ("assign-int", "{p} = 0"), ("assign-float", "{p} = 1.5"), ("assign-qubit", "{p} = qubit()"),
    ("assign-array", "{p} = array(1, 2)"), ("assign-none", "{p} = None"), ("assign-self", "{p} = {p}"),
    ("for-target", "for {p} in range(2):\n    pass"), ("nested-def", "def {p}() -> None:\n    pass"),
    ("walrus", "({p} := 1)"), ("unpack", "{p}, _u = 1, 2"), ("annassign", "{p}: float = 1.0"),
    ("comprehension", "_c = array({p} for {p} in range(2))"), ("augassign", "{p} += 1"),
    ("del", "del {p}"), ("tuple-self", "{p} = ({p}, {p})"), ("fn-value", "{p} = main"),
    ("ifexp", "{p} = {p} if True else 0"),
]


def m_shadow_param(main_src):
    fn0 = _fn(_parse_main(main_src))
    params = _param_names(fn0)
    bodies0 = _bodies(fn0)
    for p in params:
        for name, text in SHADOW_FORMS:
            for bi in range(len(bodies0)):
                tree = _parse_main(main_src)
                owner, attr = _bodies(_fn(tree))[bi]
                getattr(owner, attr)[0:0] = _stmts(text.replace("{p}", p))
                yield Mutant("shadow-param", f"{p}:{name}@{bi}", _unparse(tree))


SIG_FORMS = ["default", "vararg", "kwarg", "kwonly", "posonly", "no-ann", "no-ret", "self", "builtin-name",
             "gate-name", "underscore", "dup-type-param", "async", "ret-none", "ret-str"]


def m_signature(main_src):
    for form in SIG_FORMS:
        tree = _parse_main(main_src)
        fn = _fn(tree)
        a = fn.args
        if form == "default":
            if not a.args:
                continue
            a.defaults = [ast.Constant(1)]
        elif form == "vararg":
            a.vararg = ast.arg("rest", _expr("int"))
        elif form == "kwarg":
            a.kwarg = ast.arg("kws", _expr("int"))
        elif form == "kwonly":
            if not a.args:
                continue
            a.kwonlyargs, a.kw_defaults, a.args = [a.args[-1]], [None], a.args[:-1]
        elif form == "posonly":
            if not a.args:
                continue
            a.posonlyargs, a.args = a.args[:1], a.args[1:]
        elif form == "no-ann":
            if not a.args:
                continue
            a.args[-1].annotation = None
        elif form == "no-ret":
            fn.returns = None
        elif form == "self":
            a.args.insert(0, ast.arg("self", None))
        elif form == "builtin-name":
            a.args.append(ast.arg("int", _expr("int")))
        elif form == "gate-name":
            a.args.append(ast.arg("h", _expr("int")))
        elif form == "underscore":
            a.args.append(ast.arg("_", _expr("qubit")))
        elif form == "dup-type-param":
            fn.type_params = list(getattr(fn, "type_params", [])) + [ast.TypeVar("T2", None), ast.TypeVar("n2", _expr("nat"))]
        elif form == "async":
            tree.body[0] = ast.AsyncFunctionDef(**{f: getattr(fn, f) for f in fn._fields})
        elif form == "ret-none":
            fn.returns = _expr("None")
        elif form == "ret-str":
            fn.returns = _expr("'int'")
        yield Mutant("signature", form, _unparse(tree))


def m_wrap_comprehension(main_src):
    slots = lambda fn: [s for s in _expr_slots(fn) if s[1] in ("value", "args")]  # noqa: E731
    n = len(slots(_fn(_parse_main(main_src))))
    for i in range(n):
        for form in ("array({e} for _k in range(2))[0]", "array({e} for _k in range(2))",
                     "array(array({e} for _j in range(1))[0] for _k in range(2))[0]",
                     "({e} if True else {e})", "(_w := {e})", "({e},)[0]", "(lambda: {e})()"):
            tree = _parse_main(main_src)
            owner, attr, k = slots(_fn(tree))[i]
            cur = getattr(owner, attr) if k is None else getattr(owner, attr)[k]
            new = _expr(form.replace("{e}", "(" + ast.unparse(cur) + ")"))
            if k is None:
                setattr(owner, attr, new)
            else:
                getattr(owner, attr)[k] = new
            yield Mutant("wrap-expr", f"slot#{i}:{form[:14]}", _unparse(tree))


def m_explicit_type_args(main_src):
    pred = lambda n: isinstance(n, ast.Call) and isinstance(n.func, ast.Name)  # noqa: E731
    n = _count(_fn(_parse_main(main_src)), pred)
    for i in range(n):
        for targs in ("int", "int, 2", "qubit", "()", "2", "undefined_ty", "array[int, 2]", "int, int, int"):
            tree = _parse_main(main_src)
            node = _nth(_fn(tree), pred, i)
            node.func = _expr(f"{node.func.id}[{targs}]")
            yield Mutant("explicit-type-args", f"call#{i}:[{targs}]", _unparse(tree))


POSTFIX = ["{v}.nope", "{v}[0]", "{v}()", "{v}.copy()", "-{v}", "not {v}", "{v} @ owned", "{v}.q", "{v}[0][0]",
           "{v}.__class__", "{v}.__add__", "{v}[{v}]", "({v}, {v})", "{v} + {v}", "{v} < {v}", "{v} and {v}",
           "{v}[-1]", "{v}[-3]", "{v}[1]"]


def m_postfix(main_src):
    pred = lambda n: isinstance(n, ast.Name) and isinstance(n.ctx, ast.Load)  # noqa: E731
    fn0 = _fn(_parse_main(main_src))
    skip = {id(n) for d in fn0.decorator_list for n in ast.walk(d)}
    for o, a in _ann_nodes_all(fn0):
        skip.update(id(n) for n in ast.walk(getattr(o, a)))
    idxs = [i for i in range(_count(fn0, pred)) if id(_nth(fn0, pred, i)) not in skip]
    for i in idxs:
        for form in POSTFIX:
            tree = _parse_main(main_src)
            node = _nth(_fn(tree), pred, i)
            _ReplaceNode(node, _expr(form.replace("{v}", node.id))).visit(tree)
            yield Mutant("postfix", f"name#{i}:{form}", _unparse(tree))


def _ann_nodes_all(fn):
    out = []
    for node in ast.walk(fn):
        if isinstance(node, ast.arg) and node.annotation is not None:
            out.append((node, "annotation"))
        elif isinstance(node, ast.FunctionDef) and node.returns is not None:
            out.append((node, "returns"))
        elif isinstance(node, ast.AnnAssign):
            out.append((node, "annotation"))
    return out


CONTEXT_OPERATORS = [m_odd_annotation, m_shadow_param, m_signature, m_wrap_comprehension,
                     m_explicit_type_args, m_postfix]

SITE_OPERATORS = [m_rename_use, m_stmt_ops, m_retype, m_call_args, m_unreachable, m_wrap_nested,
                  m_type_args, m_literals, m_assign_targets]


def mutants_of(main_src, insertion: str):
    """insertion: 'all' (every position + expression replacement), 'first' (unsupported
    statements only at the start of main) or 'none'."""
    seen = {main_src}
    for opf in SITE_OPERATORS:
        for m in opf(main_src):
            if m.main_src not in seen:
                seen.add(m.main_src)
                yield m
    if insertion != "none":
        for m in m_insert_stmt(main_src, all_positions=(insertion == "all")):
            if m.main_src not in seen:
                seen.add(m.main_src)
                yield m
    if insertion == "all":
        for opf in [m_replace_expr, *CONTEXT_OPERATORS]:
            for m in opf(main_src):
                if m.main_src not in seen:
                    seen.add(m.main_src)
                    yield m


# -------------------------------------------------------------------------- oracle
class _Hang(BaseException):      # BaseException: must not be swallowed by `except Exception`
    pass


def _alarm(_sig, _frm):
    raise _Hang()


def _arm(seconds):
    """CPU-time (not wall-clock) watchdog, so that machine load cannot fake a hang."""
    signal.setitimer(signal.ITIMER_VIRTUAL, seconds)


SHARED_NAME = "vprog_c02"
_SNIP = re.compile(r"^\s*(\d+) \| (.*)$")


def stale_snippet_line(rendered: str, full: str) -> str | None:
    """Every numbered snippet line of the rendered diagnostic must be that line of the CURRENT source
    (modulo trimmed indentation)."""
    lines = full.split("\n")
    for ln in (rendered or "").splitlines():
        m = _SNIP.match(ln)
        if not m:
            continue
        n, text = int(m.group(1)), m.group(2)
        if not (1 <= n <= len(lines)) or lines[n - 1].strip() != text.strip():
            have = lines[n - 1].strip() if 1 <= n <= len(lines) else "<no such line>"
            return f"diagnostic shows line {n} as `{text.strip()[:80]}` but the source has `{have[:80]}`"
    return None


def run_one(item) -> dict:
    """item = (src_without_prelude, entry, exp, operator, detail)."""
    from checks.c01 import set_experimental
    from vlib import gload
    import warnings
    warnings.simplefilter("ignore")
    src, entry, exp, op, detail = item
    rec = {"status": "", "key": "", "what": "", "title": ""}
    full = gload.PRELUDE + src
    try:
        compile(full, "<mutant>", "exec")
    except SyntaxError as e:
        rec["status"] = "syntax"
        rec["what"] = str(e)[:100]
        return rec
    mod = None
    old = signal.signal(signal.SIGVTALRM, _alarm)
    _arm(HANG_S)
    try:
        set_experimental(exp)
        # every mutant of a worker is loaded under the SAME module / file name, as when a user edits and
        # re-runs one file in a session: diagnostics must be rendered against the current text
        o, mod = gload.run_src(src, fn=entry, name=SHARED_NAME)
        _arm(0)
        fname = f"<verif:{SHARED_NAME}>"
        nlines = full.count("\n") + 1
        if o.kind == "ok":
            rec["status"] = "accepted"
        elif o.kind == "error":
            rec["status"] = "error"
            rec["title"] = o.title
            rec["stage"] = o.stage
            if not o.spans:
                rec["nospan"] = True
            stale = stale_snippet_line(o.rendered, full)
            if stale:
                rec["status"] = "bad_span"
                rec["key"] = "rendered-snippet-is-not-the-current-source"
                rec["what"] = stale
            for (f, l0, _c0, l1, _c1) in o.spans:
                if f != fname or not (1 <= l0 <= nlines) or not (1 <= l1 <= nlines) or l1 < l0:
                    rec["status"] = "bad_span"
                    rec["key"] = f"span-outside-source:{o.title}"
                    rec["what"] = f"span {f}:{l0}-{l1} outside {fname} lines 1..{nlines}"
                    break
        else:
            etype = o.exc.split(":", 1)[0]
            fr = frames(o.tb)
            if etype.startswith("SyntaxError"):
                rec["status"] = "syntax"
            elif o.stage == "define" and fr and fr[-1][0].startswith("<verif:"):
                rec["status"] = "python_define"      # Python itself rejected the mutant module
                rec["what"] = o.exc[:120]
            elif o.stage == "render":
                rec["status"] = "crash"
                rec["key"] = f"render-crash:{o.exc.split(':')[1].strip() if ':' in o.exc else etype}:{repo_frame(o.tb)}"
                rec["what"] = o.exc[:200]
            else:
                rec["status"] = "crash"
                site = repo_frame(o.tb)
                if etype == "RecursionError":
                    _arm(0)
                    site = recursion_site(src, entry, exp)
                rec["key"] = f"crash:{etype}:{site}"
                rec["what"] = f"[{o.stage}] {o.exc[:200]}"
    except _Hang:
        rec["status"] = "hang"
        rec["key"] = "hang"
        rec["what"] = f"no result within {HANG_S}s of CPU time"
    except Exception as e:  # noqa: BLE001   harness bug
        rec["status"] = "harness"
        rec["what"] = f"{type(e).__name__}: {e}"[:300]
    finally:
        _arm(0)
        signal.signal(signal.SIGVTALRM, old)
        if mod is not None:
            gload.unload(mod)
    return rec


# -------------------------------------------------------------------------- driver
PAIR_BASES = 6


def plan(tier):
    """-> (bases, tasks).  A task = (base_index, mode) is expanded into mutants and
    evaluated inside a worker.  mode: 'all' = site operators + insertion operators at all
    positions + expression replacement; 'site' = site operators only; 'pairs' = all
    pairs of (site + insertion-at-start) mutations."""
    from vlib import gen01
    bases = gen01.bases(tier, max_stmts=0 if tier == "quick" else 1)
    # "context" bases get the insertion operators: per family the simplest base containing
    # a compound statement (else the simplest base); for the `feat` family the simplest
    # base of every placement context.
    compound = {"if", "ifelse", "while", "for", "whiletrue"}
    first_of, first_cmp = {}, {}
    for i, p in enumerate(bases):
        if p.family == "feat":
            c = [t for t in p.tags if t.startswith("ctx:")][0]
            first_cmp.setdefault(("feat", c), i)
            continue
        first_of.setdefault(p.family, i)
        if compound & set(p.tags):
            first_cmp.setdefault(p.family, i)
    full = set(first_cmp.values()) | {i for f, i in first_of.items() if f not in first_cmp}
    tasks = []
    for bi, p in enumerate(bases):
        if split_module(p.src) is None:
            continue
        mode = "all" if bi in full else "site"
        if tier == "quick" and mode == "all" and p.family not in ("feat", "cf", "lin", "struct", "arr", "gen"):
            mode = "site"       # quick: insertion operators on a smaller, complete set of context bases
        tasks.append((bi, mode))
    if tier == "thorough":
        small = sorted(range(len(bases)), key=lambda i: (len(bases[i].src), i))
        fam_seen, chosen = set(), []
        for i in small:
            if bases[i].family not in fam_seen and split_module(bases[i].src):
                fam_seen.add(bases[i].family)
                chosen.append(i)
        for bi in chosen[:PAIR_BASES]:
            prefix, main_src, suffix = split_module(bases[bi].src)
            firsts = list(mutants_of(main_src, "first"))
            for k in range(len(firsts)):
                tasks.append((bi, f"pairs:{k}"))
    # heaviest tasks first, so that the pool does not end on a long straggler
    tasks.sort(key=lambda t: 0 if t[1] == "all" else 1)
    return bases, tasks


_BASES = None


def expand(task):
    """All (src, entry, exp, op, detail) items of a task (deterministic)."""
    bi, mode = task
    p = _BASES[bi]
    prefix, main_src, suffix = split_module(p.src)
    out = []
    if mode.startswith("pairs:"):
        k = int(mode.split(":")[1])
        m1 = list(mutants_of(main_src, "first"))[k]
        try:
            seconds = list(mutants_of(m1.main_src, "first"))
        except SyntaxError:
            return out
        for m2 in seconds:
            out.append((prefix + m2.main_src + suffix, p.entry, p.exp or "wrap-nested" in (m1.op, m2.op),
                        m1.op + "+" + m2.op, m1.detail + "+" + m2.detail))
        return out
    out.append((p.src, p.entry, p.exp, "identity", ""))
    for m in mutants_of(main_src, "all" if mode == "all" else "none"):
        out.append((prefix + m.main_src + suffix, p.entry, p.exp or m.op == "wrap-nested", m.op, m.detail))
    return out


def run_task(task):
    """Worker: expand the task and evaluate every mutant.  Returns compact records."""
    res = []
    for it in expand(task):
        r = run_one(it)
        res.append((it[3], it[4], r["status"], r.get("title", ""), r.get("stage", ""), bool(r.get("nospan")),
                    r["key"], r["what"], it[0] if (r["key"] or r["status"] == "harness") else None, it[2]))
    return res


def run(ctx) -> dict:
    global _BASES
    from vlib import gen01
    det = gen01.install_deterministic_worklist()
    bases, tasks = plan(ctx.tier)
    _BASES = bases
    # warm guppylang's caches in the parent: first unmutated base of every family
    seen = set()
    for bi, _mode in tasks:
        p = bases[bi]
        if p.family not in seen:
            seen.add(p.family)
            run_one((p.src, p.entry, p.exp, "identity", ""))
    # heavy tasks first is not needed: pmap is ordered and chunks are small
    results = ctx.pmap(run_task, tasks, chunk=1)
    counts: dict = {}
    per_op: dict = {}
    titles: dict = {}
    stages: dict = {}
    harness = []
    outcomes = set()
    samples = []
    nospan = 0
    base_not_ok = []
    n = pairs = 0
    nbase = len({bi for bi, _ in tasks})
    for (bi, mode), recs in zip(tasks, results):
        fam = bases[bi].family
        for (op, detail, st, title, stage, nsp, key, what, src, exp) in recs:
            n += 1
            pairs += mode.startswith("pairs")
            counts[st] = counts.get(st, 0) + 1
            opk = op.split(":")[0] if "+" not in op else "pair"
            d = per_op.setdefault(opk, {"mutants": 0, "accepted": 0, "error": 0, "crash": 0})
            d["mutants"] += 1
            if st == "accepted":
                d["accepted"] += 1
            elif st in ("error", "bad_span"):
                d["error"] += 1
                titles[title] = titles.get(title, 0) + 1
                stages[stage or "?"] = stages.get(stage or "?", 0) + 1
                nospan += nsp
                outcomes.add((opk, title))
            elif st in ("crash", "hang"):
                d["crash"] += 1
            if op == "identity" and st != "accepted":
                base_not_ok.append((fam, st, title))
            if st == "harness":
                harness.append({"src": src, "what": what})
            if key:
                main_txt = split_module(src)
                ctx.violation(key, f"{op} [{detail}] on a `{fam}` base: {what}; mutant:\n"
                              + (main_txt[1] if main_txt else src),
                              {"src": src, "entry": bases[bi].entry, "exp": exp, "op": op})
            if st == "error" and len(samples) < 5 and (opk, title) not in {(s["op"], s["title"]) for s in samples}:
                samples.append({"op": opk, "detail": detail, "title": title, "family": fam})
    if harness:
        raise RuntimeError(f"{len(harness)} harness errors, first: {harness[0]}")
    syn = counts.get("syntax", 0)
    if syn * 20 > n:
        raise RuntimeError(f"mutation engine produced {syn}/{n} syntactically invalid mutants")
    return {
        "evaluations": n,
        "distinct_nontrivial": len(outcomes),
        "rule": "non-trivial = distinct (mutation operator, GuppyError title) outcome among rejected mutants",
        "samples": samples,
        "bases": nbase,
        "mutants": n - nbase,
        "pair_mutants": pairs,
        "accepted": counts.get("accepted", 0),
        "guppy_errors": counts.get("error", 0) + counts.get("bad_span", 0),
        "crashes": counts.get("crash", 0),
        "hangs": counts.get("hang", 0),
        "bad_spans": counts.get("bad_span", 0),
        "errors_without_any_span": nospan,
        "syntax_skipped": syn,
        "python_define_errors": counts.get("python_define", 0),
        "error_stages": stages,
        "error_titles": dict(sorted(titles.items(), key=lambda kv: -kv[1])),
        "per_operator": per_op,
        "bases_not_accepted_unmutated": base_not_ok[:20],
        "deterministic_worklist_installed": det,
        "exhaustive": True,
    }


def replay(ctx, item) -> dict:
    from vlib import gen01
    gen01.install_deterministic_worklist()
    r = run_one((item["src"], item.get("entry", "main"), item.get("exp", False), item.get("op", "?"), ""))
    return {"violation": bool(r["key"]), "status": r["status"], "key": r["key"], "what": r["what"]}
