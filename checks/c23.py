"""C23 — Comptime tracing leaves the user's module untouched.

Fault enumeration over histories of check/compile calls.

Enumerated space (complete for the stated bounds, no sampling):

* module variant: the generated module binds NONE of the names the tracer shadows, or
  binds each non-empty subset of them at module level (`int = MARK_INT`, ...).  The
  shadowed names are read from the code under test (what `mock_builtins` really
  installs) and the driver refuses to run if that set is not exactly the one the
  generator covers (currently int / float / len).
* program: regular `@guppy` function r; `@guppy.comptime` f (uses int()/float()/len() on
  traced values, calls r); `@guppy.comptime` g (uses the three builtins, calls f).
* fault: none | fault at seam label L of kind K in mode M | bad return value | type error
  in r (tracing never starts).  The comptime bodies contain `if seam("L"): <bad code>`
  at every label; `seam` is a plain Python function of this driver (the bodies run as
  ordinary Python while tracing, so no hook in /repo is needed).
    labels   f0 before the first builtin use, f1 between two uses, f2 after the uses,
             f3 after the call of r; g0, g1 (between uses, before the nested comptime
             call), g2 (after the nested call), g3 (after all uses).  Faults at f*
             reached through compile(g)/check(g) are the "inside the nested comptime
             call" points.
    kinds    py        seam itself raises RuntimeError
             typeerror body evaluates len(5)  (TypeError out of the *mocked* len)
             linear    body uses a qubit twice (GuppyComptimeError, linearity)
             leak      body allocates a qubit and never uses it (GuppyError raised by
                       trace_function after the body returned)
             badret    body returns a float for an int (GuppyError, after the body)
    modes    always (fires whenever reached) | once (fires the first time only, so a
             later step of the same history can succeed after an earlier failure)
* history: ALL sequences over {compile(f), compile(g), check(f), check(g)} of length
  <= 2 (quick) / <= 3 (thorough); compile = compile_function.

Invariant after EVERY step, successful or failing (this is all C23 states): the
defining module's __dict__ has exactly the same keys bound to the SAME objects
(identity) as before the first step; additionally the `builtins` module is untouched
(the tracer's own comment says mutating it would be wrong, and a changed builtin would
change the module's effective namespace).

Counted separately, never a violation (the statement is silent): order of the keys in
the module dict; `tracing_active()` left True after a failed step.

How histories are executed.  The state C23 talks about is the namespace of ONE module,
so the whole space is run by *re-execution*: every maximal history is run from scratch
in a pool worker on a freshly generated and loaded module (fresh module object, fresh
definitions), after resetting the two pieces of session state a previous history of the
same worker can leave behind (the tracing-state context variable and the ENGINE
caches).  A prefix shared by several maximal histories is therefore executed several
times; all its executions must agree (counted; a disagreement would mean leaked state
and fails the run).  Reason: on this VM a forked image costs ~60-70 ms per node and
forking does not scale over cores (page-table work is serialised), i.e. ~13 nodes/s in
total, while re-execution costs ~10 ms per step and scales.  To tie the cheap method to
real sessions, a sub-space (two module variants x representative faults, all histories)
is ALSO explored with `vlib.histx` (one forked interpreter image per history prefix =
one genuine interpreter session per history) and every observation must be identical
to the pooled one.  `replay` always uses a forked fresh image.
"""
from __future__ import annotations

import builtins
import itertools
import sys

ID = "C23"
LEVEL = "fault_enumeration"

SHADOWED = ("int", "float", "len")            # what the generator covers
OPS = (("compile", "f"), ("compile", "g"), ("check", "f"), ("check", "g"),
       # the USER re-binds (or adds) the module-level name `len` to a new object, then compiles f: the module must
       # keep exactly that new binding
       ("rebind-compile", "f"))
LABELS_QUICK = ("f0", "f1", "g1", "g2")
LABELS_FULL = ("f0", "f1", "f2", "f3", "g0", "g1", "g2", "g3")
KINDS = ("py", "typeerror", "linear", "leak",
         # the trace is aborted by an exception that is NOT an `Exception` (Ctrl-C in a notebook session that survives it)
         "interrupt",
         # not faults but NESTED compilations: at the label the body compiles another comptime function - of a second
         # module that binds the same names (nest-other), or of this module (nest-same) - while its own trace is open
         "nest-other", "nest-same")
KINDS_THOROUGH = ("sysexit", "genexit")
ONCE_ONLY = ("nest-other", "nest-same")
MODES = ("once", "always")


class _Marker:
    """User objects bound to the shadowed names."""

    def __init__(self, name: str) -> None:
        self.name = name

    def __repr__(self) -> str:
        return f"<user {self.name}>"


MARK_INT = _Marker("int")
MARK_FLOAT = _Marker("float")
MARK_LEN = _Marker("len")
# user bindings whose VALUE is falsy (a binding is a binding whatever it holds); variant entries "int!" ...
FALSY_INT = 0
FALSY_FLOAT = None
FALSY_LEN = ()

# ---------------------------------------------------------------- seam (harness-owned)
_S = {"fault": None, "fired": 0, "calls": 0, "mock_seen": 0, "mock_missing": 0}


def seam(label: str) -> bool:
    """Called from the generated comptime bodies.  Returns True when the body should
    perform its in-body fault, raises itself for kind 'py'."""
    g = sys._getframe(1).f_globals
    _S["calls"] += 1
    # non-triviality witness: while the body runs, the module's globals hold the mocks
    import guppylang_internals.tracing.builtins_mock as bm
    if g.get("int") is bm.int and g.get("float") is bm.float and g.get("len") is bm.len:
        _S["mock_seen"] += 1
    else:
        _S["mock_missing"] += 1
    f = _S["fault"]
    if not f or f.get("label") != label:
        return False
    if f["mode"] == "once" and _S["fired"]:
        return False
    _S["fired"] += 1
    if f["kind"] == "py":
        raise RuntimeError(f"seam fault at {label}")
    if f["kind"] in ("interrupt", "sysexit", "genexit"):
        raise {"interrupt": KeyboardInterrupt, "sysexit": SystemExit, "genexit": GeneratorExit}[f["kind"]](f"seam fault at {label}")
    if f["kind"] == "nest-other":
        _M["hsnap"]["h2"].compile_function()
        _S["nested"] = _S.get("nested", 0) + 1
        return False
    if f["kind"] == "nest-same":
        _M["snap"]["k"].compile_function()
        _S["nested"] = _S.get("nested", 0) + 1
        return False
    return True


# ---------------------------------------------------------------- generator
_BAD = {
    "py": "pass",
    "typeerror": "len(5)",
    "linear": "q = qubit(); discard(q); discard(q)",
    "leak": "q = qubit()",
    "badret": "return 1.5",
    None: "pass",
}


def gen_source(variant, fault) -> str:
    from vlib import gload
    kind = fault["kind"] if fault else None
    bad = _BAD[kind if kind in _BAD else None]
    r_body = "return x + 1.5" if kind == "rcheck" else "return x + 1"
    lines = [gload.PRELUDE.rstrip("\n"),
             "from checks.c23 import seam, MARK_INT, MARK_FLOAT, MARK_LEN, FALSY_INT, FALSY_FLOAT, FALSY_LEN"]
    for name in variant:
        if name.endswith("!"):
            lines.append(f"{name[:-1]} = FALSY_{name[:-1].upper()}")
        else:
            lines.append(f"{name} = MARK_{name.upper()}")
    lines += [
        "@guppy",
        "def r(x: int) -> int:",
        f"    {r_body}",
        "",
        "@guppy.comptime",
        "def k(x: int) -> int:",
        "    return int(x) + len([1, 2]) + int(float(x))",
        "",
        "@guppy.comptime",
        "def f(x: int, a: array[int, 3]) -> int:",
        f"    if seam('f0'): {bad}",
        "    y = int(x)",
        f"    if seam('f1'): {bad}",
        "    z = float(y)",
        "    n = len(a)",
        f"    if seam('f2'): {bad}",
        "    v = r(y)",
        f"    if seam('f3'): {bad}",
        f"    if seam('fret'): {bad}",
        "    return v + n + int(z)",
        "",
        "@guppy.comptime",
        "def g(x: int, a: array[int, 3]) -> int:",
        f"    if seam('g0'): {bad}",
        "    y = int(x)",
        f"    if seam('g1'): {bad}",
        "    w = f(y, a)",
        f"    if seam('g2'): {bad}",
        "    z = float(w)",
        "    m = len(a)",
        f"    if seam('g3'): {bad}",
        f"    if seam('gret'): {bad}",
        "    return int(z) + m",
        "",
    ]
    return "\n".join(lines)


def gen_helper_source(variant) -> str:
    """A second module with the same user bindings and one comptime function (compiled from inside traces)."""
    from vlib import gload
    lines = [gload.PRELUDE.rstrip("\n"),
             "from checks.c23 import MARK_INT, MARK_FLOAT, MARK_LEN, FALSY_INT, FALSY_FLOAT, FALSY_LEN"]
    for name in variant:
        lines.append(f"{name[:-1]} = FALSY_{name[:-1].upper()}" if name.endswith("!") else f"{name} = MARK_{name.upper()}")
    lines += ["@guppy.comptime", "def h2(x: int) -> int:", "    return int(x) + len([1, 2]) + int(float(x))", ""]
    return "\n".join(lines)


def variants():
    out = [()]
    for k in range(1, len(SHADOWED) + 1):
        out.extend(itertools.combinations(SHADOWED, k))
    out = [list(v) for v in out]
    # falsy user values: each name alone, and all three
    out += [[n + "!"] for n in SHADOWED] + [[n + "!" for n in SHADOWED]]
    return out


def faults(quick: bool = False):
    """labels x 4 kinds x 2 modes, bad return of f / g in both modes, type error in the
    regular function, no fault.  quick: 4 labels (before first use, between two uses,
    before and after the nested comptime call); thorough: all 8."""
    out = [None, {"kind": "rcheck", "label": None, "mode": "always"}]
    for lab in (LABELS_QUICK if quick else LABELS_FULL):
        for kind in (KINDS if quick else KINDS + KINDS_THOROUGH):
            for mode in MODES:
                if kind in ONCE_ONLY and mode != "once":
                    continue
                out.append({"kind": kind, "label": lab, "mode": mode})
    for lab in ("fret", "gret"):
        for mode in MODES:
            out.append({"kind": "badret", "label": lab, "mode": mode})
    return out


def forked_subspace(quick: bool):
    """(variants, faults) explored additionally with histx (real forked sessions)."""
    vs = [[], list(SHADOWED)]
    fs = [None, {"kind": "py", "label": "f1", "mode": "once"}]
    if not quick:
        fs += [{"kind": "typeerror", "label": "g1", "mode": "once"},
               {"kind": "linear", "label": "f0", "mode": "always"},
               {"kind": "leak", "label": "g2", "mode": "once"},
               {"kind": "badret", "label": "fret", "mode": "once"}]
    return vs, fs


def fault_str(f) -> str:
    if not f:
        return "no fault"
    if f["kind"] == "rcheck":
        return "type error in regular function r"
    return f"{f['kind']}@{f['label']}/{f['mode']}"


def hist_str(h) -> str:
    return "[" + ", ".join(f"{OPS[i][0]}({OPS[i][1]})" for i in h) + "]"


# ---------------------------------------------------------------- in-image state
_M = {"mod": None, "snap": None, "order": None, "bsnap": None, "hmod": None, "hsnap": None}


def _shadow_names_in_repo() -> list[str]:
    """The names mock_builtins really installs (read from the code under test)."""
    import guppylang_internals.tracing.builtins_mock as bm

    def probe():  # pragma: no cover - only its __globals__ matter
        return None

    import types
    fn = types.FunctionType(probe.__code__, {"__builtins__": builtins})
    before = set(fn.__globals__)
    with bm.mock_builtins(fn):
        inside = set(fn.__globals__) - before
    return sorted(inside)


def _warm_up() -> None:
    """Compile an unrelated comptime program once in the parent so that the (large)
    lazily initialised compiler caches are shared by all forked images instead of being
    rebuilt in each of them.  Irrelevant for the property: the observed module is
    loaded afterwards, in each root image."""
    import gc
    from vlib import gload
    _S.update(fault=None, fired=0, calls=0, mock_seen=0, mock_missing=0)
    mod = gload.load(gen_source([], None), name="c23warm")
    mod.g.compile_function()
    gload.unload(mod)
    gc.collect()
    gc.freeze()


def root_name(root) -> str:
    variant, fault = root
    f = "nofault" if not fault else "_".join(str(fault[k]) for k in ("kind", "label", "mode"))
    return "c23mod_" + ("".join(n[0] + ("0" if n.endswith("!") else "") for n in variant) or "none") + "_" + f


def init(root) -> None:
    from vlib import gload
    variant, fault = root
    _S.update(fault=fault, fired=0, calls=0, mock_seen=0, mock_missing=0)
    mod = gload.load(gen_source(variant, fault), name=root_name(root))
    _M["mod"] = mod
    hmod = gload.load(gen_helper_source(variant), name=root_name(root) + "_helper")
    _M["hmod"] = hmod
    _M["hsnap"] = dict(hmod.__dict__)
    _M["snap"] = dict(mod.__dict__)
    _M["order"] = list(mod.__dict__)
    _M["bsnap"] = dict(builtins.__dict__)
    # sanity of the generated module itself (harness, not property)
    for name in SHADOWED:
        want = {"int": MARK_INT, "float": MARK_FLOAT, "len": MARK_LEN}[name]
        falsy = {"int": FALSY_INT, "float": FALSY_FLOAT, "len": FALSY_LEN}[name]
        if name + "!" in variant:
            if name not in mod.__dict__ or mod.__dict__[name] is not falsy:
                raise RuntimeError(f"generator bug: falsy binding of {name} in variant {variant}")
            continue
        if (name in variant) != (mod.__dict__.get(name) is want) or \
                (name not in variant and name in mod.__dict__):
            raise RuntimeError(f"generator bug: binding of {name} in variant {variant}")


def _name(obj) -> str:
    mod = getattr(obj, "__module__", None) or type(obj).__module__
    return f"{mod}.{getattr(obj, '__qualname__', type(obj).__qualname__)}"


def _diff(now: dict, snap: dict) -> list:
    out = []
    for k in snap:
        if k not in now:
            out.append([k, "removed"])
        elif now[k] is not snap[k]:
            out.append([k, "rebound", _name(now[k])])
    for k in now:
        if k not in snap:
            out.append([k, "added", _name(now[k])])
    return sorted(out)


def step(root, hist, op) -> dict:
    from guppylang_internals.error import GuppyComptimeError, GuppyError
    from guppylang_internals.tracing.state import tracing_active
    mod = _M["mod"]
    what, name = OPS[op]
    defn = _M["snap"][name]
    c0, s0, m0, f0 = _S["calls"], _S["mock_seen"], _S["mock_missing"], _S["fired"]
    if what == "rebind-compile":
        new = _Marker(f"len-rebound-{len(hist)}")
        mod.__dict__["len"] = new
        _M["snap"]["len"] = new                 # the user's action: from now on this is the expected binding
        if "len" not in _M["order"]:
            _M["order"].append("len")
    try:
        if what == "check":
            defn.check()
        else:
            defn.compile_function()
        out = "ok"
    except GuppyError as e:
        out = "error:" + e.error.title
    except GuppyComptimeError:
        out = "comptime-error"
    except RecursionError:
        out = "exc:RecursionError"
    except Exception as e:  # noqa: BLE001 - whatever the traced body raised
        out = "exc:" + type(e).__name__
    except (KeyboardInterrupt, SystemExit, GeneratorExit) as e:
        if "seam fault" not in str(e):
            raise
        out = "exc:" + type(e).__name__
    return {
        "out": out,
        "ns": _diff(mod.__dict__, _M["snap"]) + [d + ["in the second module"] for d in _diff(_M["hmod"].__dict__, _M["hsnap"])],
        "bi": _diff(builtins.__dict__, _M["bsnap"]),
        "order": list(mod.__dict__) == _M["order"],
        "calls": _S["calls"] - c0,
        "mock_seen": _S["mock_seen"] - s0,
        "mock_missing": _S["mock_missing"] - m0,
        "fired": _S["fired"] - f0,
        "active": bool(tracing_active()),
    }


# ---------------------------------------------------------------- driver
def _classify(obs, first_bad_out=None) -> list[tuple[str, str]]:
    """-> [(violation key, description)] for one observation.  `first_bad_out` is the
    outcome of the step that first damaged the namespace in this history (defaults to
    this step): later steps merely inherit the damage and are filed under the same key."""
    out = []
    cause = first_bad_out if first_bad_out is not None else obs["out"]
    when = "by-failed-step" if cause != "ok" else "by-successful-step"
    if obs["ns"]:
        shadow = sorted({d[0] for d in obs["ns"] if d[0] in SHADOWED})
        other = sorted({d[0] for d in obs["ns"] if d[0] not in SHADOWED})
        scope = "shadowed-names" if shadow and not other else ("other-names" if other and not shadow else "mixed")
        out.append((f"module-namespace-changed:{scope}:{when}",
                    f"module __dict__ changed ({obs['ns']})"))
    if obs["bi"]:
        out.append((f"builtins-module-changed:{when}", f"builtins module changed ({obs['bi']})"))
    return out


def run_history(item) -> list:
    """Pool worker: run ONE maximal history from scratch on a freshly loaded module.
    Returns the per-step observations."""
    from guppylang_internals.engine import ENGINE
    from guppylang_internals.tracing.state import reset_state
    from vlib import gload
    root, hist = item
    reset_state()          # what an earlier history of this worker may have left behind
    ENGINE.reset()
    init(root)
    try:
        return [step(root, tuple(hist[:k]), hist[k]) for k in range(len(hist))]
    finally:
        gload.unload(_M["mod"])
        gload.unload(_M["hmod"])
        _M.update(mod=None, snap=None, order=None, bsnap=None, hmod=None, hsnap=None)


def run(ctx) -> dict:
    from vlib import histx
    found = _shadow_names_in_repo()
    if found != sorted(SHADOWED):
        raise RuntimeError(f"mock_builtins shadows {found}; the C23 generator covers {sorted(SHADOWED)} - extend it")
    depth = 2 if ctx.quick else 3
    roots = [[v, f] for f in faults(ctx.quick) for v in variants()]
    _warm_up()

    # 1. the whole space by re-execution in pool workers
    maximal = list(itertools.product(range(len(OPS)), repeat=depth))
    items = [(roots[ri], list(h)) for ri in range(len(roots)) for h in maximal]
    outs = ctx.pmap(run_history, items, chunk=32)
    by_node: dict = {}
    steps_executed = 0
    disagree = []
    k = 0
    for ri in range(len(roots)):
        for h in maximal:
            trace = outs[k]
            k += 1
            for j, obs in enumerate(trace):
                steps_executed += 1
                node = (ri, h[:j + 1])
                if node not in by_node:
                    by_node[node] = obs
                elif by_node[node] != obs:
                    disagree.append((node, by_node[node], obs))
    expected_nodes = len(roots) * sum(len(OPS) ** d for d in range(1, depth + 1))
    if len(by_node) != expected_nodes:
        raise RuntimeError(f"harness: {len(by_node)} nodes observed, expected {expected_nodes}")
    if disagree:
        (ri, h), o1, o2 = disagree[0]
        raise RuntimeError(
            f"harness: {len(disagree)} prefix node(s) observed differently by two re-executions "
            f"(state leaked between pooled histories), e.g. root {roots[ri]} history {hist_str(h)}: {o1} vs {o2}")

    # 2. cross-validation against real forked sessions on a sub-space
    vs, fs = forked_subspace(ctx.quick)
    froots = [[v, f] for f in fs for v in vs]
    fres = histx.explore(froots, len(OPS), depth, init, step, workers=1, split=1)
    fork_mismatch = []
    for fri, h, obs in fres.records:
        ri = roots.index(froots[fri])
        if by_node[(ri, h)] != obs:
            fork_mismatch.append((froots[fri], h, by_node[(ri, h)], obs))
        # the forked observation is checked against the invariant in its own right
        first_bad = None
        for kk in range(1, len(h) + 1):
            o = next(o for r2, h2, o in fres.records if r2 == fri and h2 == h[:kk])
            if o["ns"] or o["bi"]:
                first_bad = o["out"]
                break
        for key, desc in _classify(obs, first_bad):
            ctx.violation(key, f"{desc} after history {hist_str(h)} (last step -> {obs['out']}); module binds "
                               f"{froots[fri][0] or 'none of int/float/len'}; fault: {fault_str(froots[fri][1])} [forked session]",
                          {"variant": froots[fri][0], "fault": froots[fri][1], "history": list(h)})
    if fork_mismatch:
        r0, h0, o1, o2 = fork_mismatch[0]
        raise RuntimeError(
            f"harness: pooled re-execution and forked session disagree on {len(fork_mismatch)} node(s), e.g. "
            f"{r0} {hist_str(h0)}: pooled {o1} vs forked {o2}")

    outcomes: dict[str, int] = {}
    n_traced = n_fault_fired = n_active = n_order = n_viol_obs = 0
    mock_missing = 0
    nontrivial = 0
    failed_then_ok = 0
    samples = []
    # report the shortest history first
    for (ri, h), obs in sorted(by_node.items(), key=lambda kv: (len(kv[0][1]), kv[0][0], kv[0][1])):
        variant, fault = roots[ri]
        outcomes[obs["out"]] = outcomes.get(obs["out"], 0) + 1
        if obs["calls"]:
            n_traced += 1
            if obs["mock_seen"]:
                nontrivial += 1
        if obs["fired"]:
            n_fault_fired += 1
        mock_missing += obs["mock_missing"]
        if obs["active"]:
            n_active += 1
        if not obs["order"]:
            n_order += 1
        if len(h) > 1 and obs["out"] == "ok" and by_node[(ri, h[:-1])]["out"] != "ok":
            failed_then_ok += 1
        first_bad = None
        if obs["ns"] or obs["bi"]:
            for kk in range(1, len(h) + 1):
                o = by_node[(ri, h[:kk])]
                if o["ns"] or o["bi"]:
                    first_bad = o["out"]
                    break
        for key, desc in _classify(obs, first_bad):
            n_viol_obs += 1
            ctx.violation(
                key,
                f"{desc} after history {hist_str(h)} (last step -> {obs['out']}); module binds {variant or 'none of int/float/len'}; fault: {fault_str(fault)}",
                {"variant": variant, "fault": fault, "history": list(h)})
        if len(samples) < 6 and obs["fired"] and len(h) == 2 and ri % 97 == 5:
            samples.append({"variant": variant, "fault": fault_str(fault), "history": hist_str(h), "obs": obs})
    if mock_missing:
        # tracing ran without the mocks in the module globals: the generated program no
        # longer exercises the anchored mechanism
        ctx.notes.append(f"seam saw the module WITHOUT the mocks {mock_missing} time(s)")
    if n_traced == 0:
        raise RuntimeError("no step ever reached a seam: tracing did not run (vacuous)")
    return {
        "evaluations": len(by_node),
        "distinct_nontrivial": nontrivial,
        "rule": "a (variant, fault, history) node is non-trivial iff its last step actually traced a comptime body (>= 1 seam call) and the seam saw the three mocks installed in the module dict",
        "samples": samples,
        "module_variants": len(variants()),
        "fault_points": len(faults(ctx.quick)),
        "roots": len(roots),
        "history_depth": depth,
        "histories_completed": len(items),
        "steps_executed": steps_executed,
        "prefix_reexecutions_all_agree": steps_executed - len(by_node),
        "forked_sessions_nodes": len(fres.records),
        "forked_sessions_forks": fres.forks,
        "forked_sessions_identical_to_pooled": len(fres.records) - len(fork_mismatch),
        "steps_where_fault_fired": n_fault_fired,
        "steps_ok_after_failed_prefix_step": failed_then_ok,
        "outcomes": dict(sorted(outcomes.items())),
        "seam_calls_without_mock_installed": mock_missing,
        "observations_violating": n_viol_obs,
        "not_violation_tracing_state_left_active": n_active,
        "not_violation_module_key_order_changed": n_order,
        "shadowed_names_in_repo": found,
        "explorer": "re-execution of every maximal history on a fresh module in pool workers; histx (fork per history branch) on a sub-space as cross-validation and for replay",
        "exhaustive": True,
    }


def replay(ctx, item) -> dict:
    from vlib import histx
    root = [item["variant"], item["fault"]]

    def go():
        init(root)
        trace = []
        h = ()
        for op in item["history"]:
            obs = step(root, h, op)
            h = h + (op,)
            trace.append({"op": f"{OPS[op][0]}({OPS[op][1]})", **obs})
        return trace

    trace = histx.run_forked(go, "replay")
    viol, first_bad = [], None
    for obs in trace:
        if first_bad is None and (obs["ns"] or obs["bi"]):
            first_bad = obs["out"]
        viol.extend(k for k, _ in _classify(obs, first_bad))
    return {"violation": bool(viol), "keys": viol, "fault": fault_str(item["fault"]),
            "variant": item["variant"], "trace": trace}
