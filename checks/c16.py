"""C16 — Implicit numeric coercions only widen.

All (actual, expected) pairs of {nat, int, float} in every position where a value meets
an expected type (annotated assignment, argument, return, both operand positions of a
binary operator, augmented assignment, array element, tuple element, conditional
expression branch, call result).  Oracle from the statement:
  * actual > expected (narrowing) must be REJECTED;
  * actual == expected must be accepted and the value unchanged;
  * actual < expected: if accepted, the value the program computes is the original
    (nearest float for float targets), for every value of the boundary grids that is
    representable in the target (nat -> int only below 2^63); if rejected, counted.
"""
from __future__ import annotations

import struct

from vlib import gload, hugrvm

ID = "C16"
LEVEL = "exploration"

P63, P64 = 1 << 63, 1 << 64
ORDER = {"nat": 0, "int": 1, "float": 2}
GRID = {
    "int": [0, 1, -1, 2, -3, 7, 63, 1 << 31, (1 << 53) + 1, -(1 << 53) - 1, 1 << 62, P63 - 1, -P63, -P63 + 1],
    "nat": [0, 1, 2, 63, 1 << 32, (1 << 53) + 1, P63 - 1, P63, P63 + 1025, P64 - 1],
    "float": [0.0, -0.0, 0.5, -1.5, 2.0, 1e18, -1e18, 1e308],
}

# templates: {A} actual type, {E} expected type.  main(v: A, e: E) -> E
POSITIONS = {
    "annassign": "@guppy\ndef main(v: {A}, e: {E}) -> {E}:\n    w: {E} = v\n    return w\n",
    "return": "@guppy\ndef main(v: {A}, e: {E}) -> {E}:\n    return v\n",
    "argument": "@guppy\ndef idf(w: {E}) -> {E}:\n    return w\n\n@guppy\ndef main(v: {A}, e: {E}) -> {E}:\n    return idf(v)\n",
    "operand-left": "@guppy\ndef main(v: {A}, e: {E}) -> {E}:\n    return v + e\n",
    "operand-right": "@guppy\ndef main(v: {A}, e: {E}) -> {E}:\n    return e + v\n",
    "operand-sub-right": "@guppy\ndef main(v: {A}, e: {E}) -> {E}:\n    return e - v\n",
    "augassign": "@guppy\ndef main(v: {A}, e: {E}) -> {E}:\n    e += v\n    return e\n",
    "array-element": "@guppy\ndef main(v: {A}, e: {E}) -> {E}:\n    xs: array[{E}, 2] = array(v, e)\n    return xs[0]\n",
    "tuple-element": "@guppy\ndef main(v: {A}, e: {E}) -> {E}:\n    t: tuple[{E}, bool] = (v, True)\n    return t[0]\n",
    "ifexp-branch": "@guppy\ndef main(v: {A}, e: {E}) -> {E}:\n    w: {E} = v if e == e else e\n    return w\n",
    "call-result": "@guppy\ndef mk(v: {A}) -> {A}:\n    return v\n\n@guppy\ndef main(v: {A}, e: {E}) -> {E}:\n    w: {E} = mk(v)\n    return w\n",
    "reassign": "@guppy\ndef main(v: {A}, e: {E}) -> {E}:\n    w: {E} = e\n    w = v\n    return w + e\n",
}
# operators that convert their operands to float themselves ({ONE} = the value 1 written in v's own type);
# only meaningful for the expected type float
ONE = {"nat": "nat(1)", "int": "1", "float": "1.0"}
FLOAT_ONLY = {
    "truediv-by-one": "@guppy\ndef main(v: {A}, e: {E}) -> {E}:\n    return v / {ONE}\n",
    "truediv-by-one-plus": "@guppy\ndef main(v: {A}, e: {E}) -> {E}:\n    return v / {ONE} + e\n",
    "truediv-by-one-aug": "@guppy\ndef main(v: {A}, e: {E}) -> {E}:\n    w = v / {ONE}\n    w += e\n    return w\n",
    "truediv-reflected": "@guppy\ndef main(v: {A}, e: {E}) -> {E}:\n    return e + v / {ONE}\n",
}
POSITIONS.update(FLOAT_ONLY)
# positions where the program's result is (coerced v) combined with e == 0
ZERO_COMBINED = {"operand-left", "operand-right", "augassign", "reassign", "truediv-by-one-plus", "truediv-by-one-aug",
                 "truediv-reflected"}
NEGATED = {"operand-sub-right"}


def _fbits(x):
    return struct.unpack("<Q", struct.pack("<d", x))[0]


def eval_case(item):
    pos, a, e = item
    if pos in FLOAT_ONLY and e != "float":
        return {"kind": "skip"}
    src = POSITIONS[pos].replace("{A}", a).replace("{E}", e).replace("{ONE}", ONE[a])
    o, mod = gload.run_src(src)
    out = {"kind": "", "dis": []}
    if o.kind == "crash":
        return {"kind": "crash", "detail": o.exc}
    if pos == "reassign" and a != e:
        # `w = v` after `w: E = e` re-binds w with v's own type; not a coercion position
        if o.kind == "error":
            return {"kind": "rejected-open"}
        return {"kind": "skip"}
    if ORDER[a] > ORDER[e]:
        if o.kind == "ok":
            return {"kind": "bad", "cls": "narrowing-accepted", "detail": f"{a} value accepted where {e} is expected ({pos})"}
        return {"kind": "rejected-ok"}
    if o.kind == "error":
        if a == e:
            return {"kind": "bad", "cls": "same-type-rejected", "detail": f"{a} at {e} rejected ({pos}): {o.title}"}
        return {"kind": "rejected-open"}
    h = o.package.modules[0]
    n = 0
    for v in GRID[a]:
        if a == "nat" and e == "int" and v >= P63:
            continue
        want = float(v) if e == "float" else v
        if pos in NEGATED:
            if e == "nat" and v != 0:
                continue
            want = -want if e != "int" else hugrvm.s64(-want)
        zero = 0.0 if e == "float" else 0
        r = hugrvm.run(h, "main", [hugrvm.to_vm(v), hugrvm.to_vm(zero)])
        if r.status in ("unsupported", "invariant", "budget"):
            raise RuntimeError(f"hugrvm: {r.status} {r.detail}\n{src}")
        n += 1
        if r.status != "ok":
            out["dis"].append(f"{a} {v!r} -> {e} ({pos}): program {r.status} {r.panic}")
            continue
        got = hugrvm.from_vm(r.values[0], e)
        if e == "float":
            same = _fbits(got) == _fbits(want) or (got == want == 0 and pos in ZERO_COMBINED | NEGATED)
        else:
            same = got == want
        if not same:
            out["dis"].append(f"{a} {v!r} -> {e} ({pos}): got {got!r}, expected {want!r}")
    out["kind"] = "accepted"
    out["n"] = n
    return out


def _thorough_grid():
    """every 2^k + d for k <= 64, d in -1..1 that the type can hold; floats: the same magnitudes, both signs"""
    ints, nats, floats = set(GRID["int"]), set(GRID["nat"]), set(GRID["float"])
    for k in range(0, 65):
        for d in (-1, 0, 1):
            v = (1 << k) + d
            if 0 <= v < P64:
                nats.add(v)
            for w in (v, -v):
                if -P63 <= w < P63:
                    ints.add(w)
            floats.update((float(v), -float(v), float(v) + 0.5))
    floats.update((1e-300, -1e-300, 5e-324, 1.7976931348623157e308))
    return {"int": sorted(ints), "nat": sorted(nats), "float": sorted(floats)}


def run(ctx):
    if not ctx.quick:
        GRID.update(_thorough_grid())          # inherited by the forked workers
    items = [(p, a, e) for p in POSITIONS for a in ORDER for e in ORDER]
    res = ctx.pmap(eval_case, items, chunk=4)
    evals = nontriv = rej_ok = rej_open = acc = 0
    samples = []
    for it, r in zip(items, res):
        evals += 1
        if r["kind"] == "crash":
            ctx.violation(f"compiler-crash:{it[0]}", f"{it}: {r['detail']}", {"item": list(it)})
        elif r["kind"] == "bad":
            ctx.violation(f"{r['cls']}:{it[0]}:{it[1]}->{it[2]}", r["detail"], {"item": list(it)})
        elif r["kind"] == "rejected-ok":
            rej_ok += 1
            nontriv += 1
        elif r["kind"] == "rejected-open":
            rej_open += 1
        elif r["kind"] == "accepted":
            acc += 1
            evals += r["n"]
            nontriv += r["n"]
            for d in r["dis"][:1]:
                ctx.violation(f"value-changed:{it[0]}:{it[1]}->{it[2]}", d, {"item": list(it)})
            if len(samples) < 6:
                samples.append({"position": it[0], "actual": it[1], "expected": it[2], "values_checked": r["n"]})
    return {
        "evaluations": evals, "distinct_nontrivial": nontriv,
        "rule": "16 positions x {nat,int,float}^2; narrowing must be rejected; accepted widenings evaluated on the boundary grids",
        "samples": samples, "programs": len(items), "accepted": acc, "narrowing_rejected": rej_ok,
        "widening_rejected_open": rej_open,
    }


def replay(ctx, item):
    r = eval_case(tuple(item["item"]))
    return {"violation": r["kind"] in ("bad", "crash") or bool(r.get("dis")), "result": r}
