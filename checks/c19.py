"""C19 — Array access is bounds-safe and alias-free.

Bounded-exhaustive enumeration of operation sequences on arrays of length 0..3 with
element types int, tuple[int,int] and qubit: read / write / aug-assign at an index,
swap of two places, borrow-calls on one element and on two elements at once, copy(),
iteration, comprehension, unpacking and starred unpacking.  Indices are runtime
parameters i, j ranging over {-2, …, n} (all pairs) and, in a second family, literals.
Oracle: CPython on the same source with a list model that accepts only 0 <= i < n (any
other index => panic) and panics when one element is lent twice at once.  For literal
indices a compile-time rejection is as good as a panic.
"""
from __future__ import annotations

import itertools

from vlib import gload, hugrvm, pyoracle

ID = "C19"
LEVEL = "exploration"

HEADER = '''
from guppylang.std.quantum import measure_array

@guppy
def bump(a: array[int, 1]) -> None:
    a[0] = a[0] + 5

@guppy
def bump2(a: array[int, 2]) -> None:
    a[0] = a[0] + 5
    a[1] = a[1] * 2

@guppy
def take(cur: array[int, 1]) -> int:
    v = cur[0]
    cur[0] = v + 1
    result("take", v)
    return v

@guppy
def gswap[T](u: T, w: T) -> None:
    mem_swap(u, w)
'''


def elem(ty, k):
    return str(k) if ty == "int" else f"({k}, {k + 1})"


def rd(ty, e):
    return e if ty == "int" else f"{e}[0]"


def classical_ops(ty, n, idx):
    """ops as lists of lines; idx: index expression strings available."""
    ops = []
    for a in idx:
        ops.append(("read", [f'result("r", {rd(ty, f"xs[{a}]")})']))
        ops.append(("write", [f"xs[{a}] = {elem(ty, 90)}"]))
        if ty == "int":
            ops.append(("augassign", [f"xs[{a}] += 7"]))
        ops.append(("copy-write", ["ys = xs.copy()", f"ys[{a}] = {elem(ty, 70)}", f'result("c", {rd(ty, f"ys[{a}]")})']))
    if len(idx) >= 2:
        a, b = idx[0], idx[1]
        ops.append(("swap", [f"xs[{a}], xs[{b}] = xs[{b}], xs[{a}]"]))
        # elements lent to a GENERICALLY borrowing callee (mem_swap, user generic) must receive what it wrote
        ops.append(("mem-swap-elements", [f"mem_swap(xs[{a}], xs[{b}])"]))
        ops.append(("generic-swap-elements", [f"gswap(xs[{a}], xs[{b}])"]))
    if ty != "int":
        # the two COMPONENTS of one element lent in the same call: the swap must happen (or the double lend must panic);
        # what must not happen is that one of the two write-backs is silently lost
        for a in idx[:1]:
            ops.append(("swap-components-of-element", [f"mem_swap(xs[{a}][0], xs[{a}][1])"]))
    for a in idx[:1]:
        ops.append(("mem-swap-element-with-local", [f"t = {elem(ty, 77)}", f"mem_swap(xs[{a}], t)", f'result("t", {rd(ty, "t")})']))
    ops.append(("iterate", ["for e in xs.copy():", f'    result("e", {rd(ty, "e")})']))
    if ty == "int":
        ops.append(("comprehension", ["zs = array(e + 1 for e in xs.copy())", "for e in zs:", '    result("z", e)']))
    if n >= 1:
        names = ", ".join(f"u{k}" for k in range(n))
        ops.append(("unpack", [f"{names}{',' if n == 1 else ''} = xs.copy()"] + [f'result("u", {rd(ty, f"u{k}")})' for k in range(n)]))
        ops.append(("starred-unpack", ["h0, *rest = xs.copy()", f'result("h", {rd(ty, "h0")})', "for e in rest:",
                                       f'    result("t", {rd(ty, "e")})']))
    if ty == "int":
        ops.append(("starred-unpack-range", ["rh, *rt = range(3)", 'result("rh", rh)', "for e in rt:", '    result("rt", e)']))
        ops.append(("unpack-range", ["r0, r1, r2 = range(3)", 'result("rr", r0 * 100 + r1 * 10 + r2)']))
        ops.append(("tuple-starred-to-array", ["t0, *tm, t1 = (1, 2, 3, 4)", 'result("t", t0 * 10 + t1)', "for e in tm:", '    result("tm", e)']))
        ops.append(("tuple-starred-last-to-array", ["t0, *tm = (1, 2, 3)", "for e in tm:", '    result("tm", e)']))
        ops.append(("tuple-starred-first-to-array", ["*tm, t1 = (1, 2, 3)", "for e in tm:", '    result("tm", e)']))
    # every split of the targets around the star: k names before, m names after
    for k, m in ((0, 1), (0, 2), (1, 1), (1, 2), (2, 1), (0, 3), (2, 0)):
        if n >= k + m and (k, m) != (1, 0):
            before = [f"b{i}" for i in range(k)]
            after = [f"a{i}" for i in range(m)]
            tg = ", ".join(before + ["*mid"] + after)
            ops.append((f"starred-unpack-{k}-{m}", [f"{tg} = xs.copy()"] + [f'result("b", {rd(ty, v)})' for v in before] +
                        ["for e in mid:", f'    result("m", {rd(ty, "e")})'] + [f'result("a", {rd(ty, v)})' for v in after]))
    return ops


def quantum_ops(n, idx):
    ops = []
    for a in idx:
        ops.append(("gate", [f"x(qs[{a}])"]))
    if len(idx) >= 2:
        ops.append(("two-place-borrow", [f"cx(qs[{idx[0]}], qs[{idx[1]}])"]))
        ops.append(("two-place-borrow", [f"cx(qs[{idx[1]}], qs[{idx[0]}])"]))
    return ops


def classical_src(ty, n, seq, params):
    init = ", ".join(elem(ty, 10 + k) for k in range(n))
    ety = "int" if ty == "int" else "tuple[int, int]"
    body = [f"xs: array[{ety}, {n}] = array({init})"]
    for _, lines in seq:
        body += lines
    body += [f'result("f{k}", {rd(ty, f"xs[{k}]")})' for k in range(n)]
    return HEADER + f"\n@guppy\ndef main({params}) -> None:\n" + "\n".join("    " + l for l in body) + "\n"


def quantum_src(n, seq, params):
    body = [f"qs = array(qubit() for _ in range({n}))"]
    for _, lines in seq:
        body += lines
    body += ["bs = measure_array(qs)", 'result("m", bs)']
    return HEADER + f"\n@guppy\ndef main({params}) -> None:\n" + "\n".join("    " + l for l in body) + "\n"


def programs(tier):
    maxlen = 2 if tier == "quick" else 3
    out = []
    rt_params = "i: int, j: int"
    for n in (0, 1, 2, 3):
        vals = list(range(-2, n + 1))
        for ty in ("int", "tuple"):
            ops = classical_ops(ty, n, ["i", "j"])
            for L in range(1, maxlen + 1):
                if L == 3 and ty == "tuple":
                    continue
                for seq in itertools.product(ops, repeat=L):
                    out.append(("rt", f"{ty}[{n}]", "+".join(k for k, _ in seq), classical_src(ty, n, seq, rt_params), vals))
            # literal indices: single operations
            for lit in vals:
                for op in classical_ops(ty, n, [str(lit), str(lit)]):
                    out.append(("lit", f"{ty}[{n}]", op[0], classical_src(ty, n, [op], ""), None))
        if n >= 1:
            ops = quantum_ops(n, ["i", "j"])
            for L in range(1, maxlen + 1):
                for seq in itertools.product(ops, repeat=L):
                    out.append(("rt", f"qubit[{n}]", "+".join(k for k, _ in seq), quantum_src(n, seq, rt_params), vals))
            for a, b in itertools.product(vals, repeat=2):
                for op in quantum_ops(n, [str(a), str(b)]):
                    out.append(("lit", f"qubit[{n}]", op[0], quantum_src(n, [op], ""), None))
    # NESTED arrays: element places two and three levels deep, lent to a callee or assigned, with an index
    # expression that has an effect and yields a different value when evaluated again (a cursor)
    out += nested_programs(tier)
    return out


NESTED_OPS = {
    # 2 levels: xss: array[array[int, 2], 2]
    "n2": [
        ("lend-row", ["bump2(xss[i])"]),
        ("lend-row-impure-index", ["bump2(xss[take(cur)])"]),
        ("write-row", ["xss[i] = array(90, 91)"]),
        ("write-row-from-variable", ["nr = array(92, 93)", "xss[j] = nr"]),
        ("write-elem", ["xss[i][j] = 90"]),
        ("write-elem-impure-index", ["xss[take(cur)][j] = 90"]),
        ("augassign-elem", ["xss[i][j] += 7"]),
        ("augassign-elem-impure-index", ["xss[take(cur)][j] += 7"]),
        ("read-elem", ['result("r", xss[i][j])']),
        ("swap-rows", ["mem_swap(xss[i], xss[j])"]),
        ("swap-elems-across-rows", ["mem_swap(xss[i][j], xss[j][i])"]),
        ("lend-two-rows", ["both2(xss[i], xss[j])"]),
        # a comprehension nested in the element expression of another one (each needs its own slot counter)
        ("nested-comprehension", ["yss = array(array(10 * a + b + i for b in range(3)) for a in range(2))",
                                  'result("y02", yss[0][2])', 'result("y10", yss[1][0])', 'result("y12", yss[1][2])']),
        ("nested-comprehension-reading-rows", ["zss = array(array(v + 100 * a for v in array(1, 2, 3)) for a in range(3))",
                                               'result("z01", zss[0][1])', 'result("z22", zss[2][2])']),
    ],
    # arrays of non-copyable AGGREGATES with a classical part: rs: array[R, 2] (R = struct of an int array and an int),
    # ts: array[tuple[array[int, 2], int], 2]
    "agg": [
        ("read-field-elem", ['result("r", rs[i].inner[j])']),
        ("read-classical-field", ['result("t", rs[i].tag)']),
        ("copy-classical-field", ["tg = rs[i].tag", 'result("t", tg)']),
        ("write-field-elem", ["rs[i].inner[j] = 90"]),
        ("lend-field", ["bump2(rs[i].inner)"]),
        ("read-classical-component", ['result("t", ts[i][1])']),
        ("read-component-elem", ['result("r", ts[i][0][j])']),
        ("lend-component", ["bump2(ts[i][0])"]),
    ],
    # 3 levels: xsss: array[array[array[int, 2], 2], 2]
    "n3": [
        ("lend-inner-row", ["bump2(xsss[i][j])"]),
        ("lend-inner-row-impure-outer-index", ["bump2(xsss[take(cur)][j])"]),
        ("lend-inner-row-impure-inner-index", ["bump2(xsss[i][take(cur)])"]),
        ("lend-two-inner-rows-impure", ["both2(xsss[take(cur)][1], xsss[take(cur)][1])"]),
        ("write-elem", ["xsss[i][j][1] = 90"]),
        ("write-elem-impure-outer-index", ["xsss[take(cur)][j][1] = 90"]),
        ("augassign-elem-impure-outer-index", ["xsss[take(cur)][j][0] += 7"]),
        ("read-elem", ['result("r", xsss[i][j][0])']),
    ],
}
NESTED_HDR = '''
@guppy
def both2(a: array[int, 2], b: array[int, 2]) -> None:
    a[0] = a[0] + 100
    b[1] = b[1] + 200

@guppy.struct
class R:
    inner: array[int, 2]
    tag: int
'''


def nested_src(level, seq):
    if level == "n2":
        body = ["xss = array(array(1, 2), array(3, 4))"]
        fin = [f'result("f{a}{b}", xss[{a}][{b}])' for a in range(2) for b in range(2)]
    elif level == "agg":
        body = ["rs = array(R(array(1, 2), 5), R(array(3, 4), 6))", "ts = array((array(11, 12), 15), (array(13, 14), 16))"]
        fin = ([f'result("f{a}{b}", rs[{a}].inner[{b}])' for a in range(2) for b in range(2)] +
               [f'result("g{a}{b}", ts[{a}][0][{b}])' for a in range(2) for b in range(2)])
    else:
        body = ["xsss = array(array(array(1, 2), array(3, 4)), array(array(5, 6), array(7, 8)))"]
        fin = [f'result("f{a}{b}{c}", xsss[{a}][{b}][{c}])' for a in range(2) for b in range(2) for c in range(2)]
    body.append("cur = array(i)")
    for _, lines in seq:
        body += lines
    body += ['result("cur", cur[0])'] + fin
    return HEADER + NESTED_HDR + "\n@guppy\ndef main(i: int, j: int) -> None:\n" + "\n".join("    " + l for l in body) + "\n"


def nested_programs(tier):
    out = []
    vals = [-1, 0, 1, 2]
    for level, ops in NESTED_OPS.items():
        for L in (1, 2):
            if L == 2 and tier == "quick" and level == "n3":
                continue
            for seq in itertools.product(ops, repeat=L):
                out.append(("rt", f"{level}[2]", "+".join(k for k, _ in seq), nested_src(level, seq), vals))
    return out


class _Oracle(pyoracle.Oracle):
    def namespace(self):
        ns = super().namespace()
        base_cx = ns["cx"]

        def cx(a, b):
            if a is b:
                raise pyoracle.Panic("element lent twice")
            base_cx(a, b)

        def measure_array(qs):
            return pyoracle.PyArray(*[ns["measure"](q) for q in qs])

        def _alias_check(a, b):
            if a == b:
                raise pyoracle.Panic("element lent twice")

        ns["_alias_check"] = _alias_check
        ns["cx"] = cx
        ns["measure_array"] = measure_array
        return ns


def _norm(events):
    out = []
    for e in events:
        if e[0] == "result":
            out.append((e[1], e[2]))
    return out


import re as _re

_SWAPC = _re.compile(r"^(\s*)mem_swap\((\w+)\[([^\]]+)\]\[0\], \2\[\3\]\[1\]\)$", _re.M)
_SWAP2 = _re.compile(r"^(\s*)(?:mem_swap|gswap)\((\w+(?:\[[^\]]+\])+), (\w+(?:\[[^\]]+\])+)\)$", _re.M)
_SWAP1 = _re.compile(r"^(\s*)mem_swap\((\w+(?:\[[^\]]+\])+), (\w+)\)$", _re.M)


# two ROWS (non-copyable elements) of one nested array lent in the same call: one element lent twice at
# once must panic.  Only for pure index expressions (the impure ones never alias: the cursor advances).
_LEND2 = _re.compile(r"^(\s*)((?:mem_swap|both2)\((xss\[(\w+)\]|xsss\[(\w+)\]\[(\w+)\]), (xss\[(\w+)\]|xsss\[(\w+)\]\[(\w+)\])\))$", _re.M)


def _lend2_sub(m):
    ind, call = m.group(1), m.group(2)
    a = [g for g in (m.group(4), m.group(5), m.group(6)) if g]
    b = [g for g in (m.group(8), m.group(9), m.group(10)) if g]
    if len(a) != len(b):
        return m.group(0)
    # evaluate both places first (bounds panics come first, left to right), then the alias rule
    return (f"{ind}_pl_a = {m.group(3)}; _pl_b = {m.group(7)}; _alias_check(({', '.join(a)},), ({', '.join(b)},))\n{ind}{call}")


def py_variant(src: str) -> str:
    """CPython cannot swap through arguments: `mem_swap(P, Q)` on places is rewritten, for the oracle only,
    into the reads and write-backs the statement implies: both places are read (left to right), then both
    are written (left to right) with the exchanged values."""
    src = _LEND2.sub(_lend2_sub, src)
    src = _SWAPC.sub(lambda m: f"{m.group(1)}_sw_e = {m.group(2)}[{m.group(3)}]; {m.group(2)}[{m.group(3)}] = (_sw_e[1], _sw_e[0])", src)
    src = _SWAP2.sub(lambda m: f"{m.group(1)}_sw_a = {m.group(2)}; _sw_b = {m.group(3)}; {m.group(2)} = _sw_b; {m.group(3)} = _sw_a", src)
    src = _SWAP1.sub(lambda m: f"{m.group(1)}_sw_a = {m.group(2)}; {m.group(2)} = {m.group(3)}; {m.group(3)} = _sw_a", src)
    return src


def _is_oob_panic(r):
    return r.status == "panic"


def eval_program(item):
    fam, ty, kinds, src, vals = item
    res = {"status": "", "dis": None, "runs": 0, "panics": 0, "harness": None}
    o, mod = gload.run_src(src)
    code = pyoracle.prepare(gload.PRELUDE + py_variant(src))
    inputs = [()] if fam == "lit" else list(itertools.product(vals, repeat=2))
    if o.kind == "crash":
        res["status"] = "crash"
        res["dis"] = {"cls": "compiler-crash", "detail": o.exc}
        return res
    if o.kind == "error":
        res["status"] = "rejected"
        if fam == "lit":
            st, _, _ = _Oracle(4000).run(code, "main", [])
            if st == "panic":
                res["status"] = "rejected-static-ok"
                return res
        if ty.startswith("agg") and o.title in ("Subscript consumed", "Subscript moved"):
            # a classical part of a non-copyable array element cannot be read without lending the whole element:
            # the checker refuses that (safe); the statement only speaks about programs that run
            res["status"] = "rejected-move-out-of-subscript"
            return res
        res["dis"] = {"cls": "valid-program-rejected", "detail": o.title}
        return res
    res["status"] = "accepted"
    h = o.package.modules[0]
    for args in inputs:
        st, _, trace = _Oracle(4000).run(code, "main", list(args))
        if st == "undefined":
            res["harness"] = f"oracle undefined on {args}: {_}"
            return res
        r = hugrvm.run(h, "main", [hugrvm.to_vm(a) for a in args], step_budget=200000)
        if r.status in ("unsupported", "invariant"):
            res["harness"] = f"{r.status}: {r.detail}"
            return res
        res["runs"] += 1
        want = _norm(trace)
        got = _norm(r.events)
        if st == "panic":
            res["panics"] += 1
            # the model says "panic": the program must panic, and everything reported before must agree
            if r.status != "panic":
                res["dis"] = {"cls": "no-panic-on-bad-index-or-alias", "input": list(args), "python": [st, want], "guppy": [r.status, got]}
                return res
            if got != want[:len(got)] and want != got[:len(want)]:
                res["dis"] = {"cls": "effects-before-panic-differ", "input": list(args), "python": [st, want], "guppy": [r.status, got]}
                return res
        else:
            if "swap-components-of-element" in kinds and r.status == "panic" and got == want[:len(got)]:
                continue        # refusing the double lend at run time is as good as performing it
            if r.status != "ok" or got != want:
                res["dis"] = {"cls": "wrong-element", "input": list(args), "python": [st, want], "guppy": [r.status, r.panic, got]}
                return res
    return res


def run(ctx):
    progs = programs(ctx.tier)
    results = ctx.pmap(eval_program, progs, chunk=16)
    acc = rej_static = runs = panics = 0
    samples = []
    for it, r in zip(progs, results):
        fam, ty, kinds, src, vals = it
        if r["harness"]:
            raise RuntimeError(f"harness problem: {r['harness']}\n{src}")
        if r["status"] == "rejected-static-ok":
            rej_static += 1
            continue
        if r["status"] == "accepted":
            acc += 1
        runs += r["runs"]
        panics += r["panics"]
        if r["dis"]:
            d = r["dis"]
            ctx.violation(f"{d['cls']}:{ty.split('[')[0]}:{kinds}:{fam}",
                          f"array {ty}, ops {kinds} ({fam} index): {d}", {"item": [fam, ty, kinds, src, vals]})
        if len(samples) < 5 and acc % 499 == 3:
            samples.append({"array": ty, "ops": kinds, "index_family": fam, "inputs": r["runs"]})
    return {
        "evaluations": runs, "distinct_nontrivial": acc,
        "rule": "all op sequences (length <= 2 quick / 3 thorough) over read, write, aug-assign, copy-write, swap, iterate, comprehension, "
                "unpack, starred unpack, gate on element, two-place borrow; arrays of length 0..3 of int / tuple / qubit; indices i, j over "
                "all pairs of {-2..n} (runtime) and all literals; non-trivial = accepted program executed on every index pair",
        "samples": samples, "programs": len(progs), "accepted": acc, "literal_index_rejected_statically": rej_static,
        "executions_where_model_panics": panics,
    }


def replay(ctx, item):
    it = item["item"]
    r = eval_program((it[0], it[1], it[2], it[3], it[4]))
    return {"violation": bool(r["dis"]), "result": r}
