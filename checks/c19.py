"""C19 — Array access is bounds-safe and alias-free.

Bounded-exhaustive enumeration of operation sequences on arrays of length 0..3 with
element types int, tuple[int,int] and qubit: read / write / aug-assign at an index,
swap of two places, borrow-calls on one element and on two elements at once, copy(),
iteration, comprehension, unpacking and starred unpacking.  Indices are runtime
parameters i, j ranging over {-2, …, n} (all pairs) and, in a second family, literals.
Oracle: CPython on the same source with a list model that accepts only 0 <= i < n (any
other index => panic) and panics when one element is lent twice at once.  For literal
indices a compile-time rejection is as good as a panic.
"""
from __future__ import annotations

import itertools

from vlib import gload, hugrvm, pyoracle

ID = "C19"
LEVEL = "exploration"

HEADER = '''
from guppylang.std.quantum import measure_array

@guppy
def bump(a: array[int, 1]) -> None:
    a[0] = a[0] + 5
'''


def elem(ty, k):
    return str(k) if ty == "int" else f"({k}, {k + 1})"


def rd(ty, e):
    return e if ty == "int" else f"{e}[0]"


def classical_ops(ty, n, idx):
    """ops as lists of lines; idx: index expression strings available."""
    ops = []
    for a in idx:
        ops.append(("read", [f'result("r", {rd(ty, f"xs[{a}]")})']))
        ops.append(("write", [f"xs[{a}] = {elem(ty, 90)}"]))
        if ty == "int":
            ops.append(("augassign", [f"xs[{a}] += 7"]))
        ops.append(("copy-write", ["ys = xs.copy()", f"ys[{a}] = {elem(ty, 70)}", f'result("c", {rd(ty, f"ys[{a}]")})']))
    if len(idx) >= 2:
        a, b = idx[0], idx[1]
        ops.append(("swap", [f"xs[{a}], xs[{b}] = xs[{b}], xs[{a}]"]))
    ops.append(("iterate", ["for e in xs.copy():", f'    result("e", {rd(ty, "e")})']))
    if ty == "int":
        ops.append(("comprehension", ["zs = array(e + 1 for e in xs.copy())", "for e in zs:", '    result("z", e)']))
    if n >= 1:
        names = ", ".join(f"u{k}" for k in range(n))
        ops.append(("unpack", [f"{names}{',' if n == 1 else ''} = xs.copy()"] + [f'result("u", {rd(ty, f"u{k}")})' for k in range(n)]))
        ops.append(("starred-unpack", ["h0, *rest = xs.copy()", f'result("h", {rd(ty, "h0")})', "for e in rest:",
                                       f'    result("t", {rd(ty, "e")})']))
    # every split of the targets around the star: k names before, m names after
    for k, m in ((0, 1), (0, 2), (1, 1), (1, 2), (2, 1), (0, 3), (2, 0)):
        if n >= k + m and (k, m) != (1, 0):
            before = [f"b{i}" for i in range(k)]
            after = [f"a{i}" for i in range(m)]
            tg = ", ".join(before + ["*mid"] + after)
            ops.append((f"starred-unpack-{k}-{m}", [f"{tg} = xs.copy()"] + [f'result("b", {rd(ty, v)})' for v in before] +
                        ["for e in mid:", f'    result("m", {rd(ty, "e")})'] + [f'result("a", {rd(ty, v)})' for v in after]))
    return ops


def quantum_ops(n, idx):
    ops = []
    for a in idx:
        ops.append(("gate", [f"x(qs[{a}])"]))
    if len(idx) >= 2:
        ops.append(("two-place-borrow", [f"cx(qs[{idx[0]}], qs[{idx[1]}])"]))
        ops.append(("two-place-borrow", [f"cx(qs[{idx[1]}], qs[{idx[0]}])"]))
    return ops


def classical_src(ty, n, seq, params):
    init = ", ".join(elem(ty, 10 + k) for k in range(n))
    ety = "int" if ty == "int" else "tuple[int, int]"
    body = [f"xs: array[{ety}, {n}] = array({init})"]
    for _, lines in seq:
        body += lines
    body += [f'result("f{k}", {rd(ty, f"xs[{k}]")})' for k in range(n)]
    return HEADER + f"\n@guppy\ndef main({params}) -> None:\n" + "\n".join("    " + l for l in body) + "\n"


def quantum_src(n, seq, params):
    body = [f"qs = array(qubit() for _ in range({n}))"]
    for _, lines in seq:
        body += lines
    body += ["bs = measure_array(qs)", 'result("m", bs)']
    return HEADER + f"\n@guppy\ndef main({params}) -> None:\n" + "\n".join("    " + l for l in body) + "\n"


def programs(tier):
    maxlen = 2 if tier == "quick" else 3
    out = []
    rt_params = "i: int, j: int"
    for n in (0, 1, 2, 3):
        vals = list(range(-2, n + 1))
        for ty in ("int", "tuple"):
            ops = classical_ops(ty, n, ["i", "j"])
            for L in range(1, maxlen + 1):
                if L == 3 and ty == "tuple":
                    continue
                for seq in itertools.product(ops, repeat=L):
                    out.append(("rt", f"{ty}[{n}]", "+".join(k for k, _ in seq), classical_src(ty, n, seq, rt_params), vals))
            # literal indices: single operations
            for lit in vals:
                for op in classical_ops(ty, n, [str(lit), str(lit)]):
                    out.append(("lit", f"{ty}[{n}]", op[0], classical_src(ty, n, [op], ""), None))
        if n >= 1:
            ops = quantum_ops(n, ["i", "j"])
            for L in range(1, maxlen + 1):
                for seq in itertools.product(ops, repeat=L):
                    out.append(("rt", f"qubit[{n}]", "+".join(k for k, _ in seq), quantum_src(n, seq, rt_params), vals))
            for a, b in itertools.product(vals, repeat=2):
                for op in quantum_ops(n, [str(a), str(b)]):
                    out.append(("lit", f"qubit[{n}]", op[0], quantum_src(n, [op], ""), None))
    # nested borrow through a callee on a sub-array
    return out


class _Oracle(pyoracle.Oracle):
    def namespace(self):
        ns = super().namespace()
        base_cx = ns["cx"]

        def cx(a, b):
            if a is b:
                raise pyoracle.Panic("element lent twice")
            base_cx(a, b)

        def measure_array(qs):
            return pyoracle.PyArray(*[ns["measure"](q) for q in qs])

        ns["cx"] = cx
        ns["measure_array"] = measure_array
        return ns


def _norm(events):
    out = []
    for e in events:
        if e[0] == "result":
            out.append((e[1], e[2]))
    return out


def _is_oob_panic(r):
    return r.status == "panic"


def eval_program(item):
    fam, ty, kinds, src, vals = item
    res = {"status": "", "dis": None, "runs": 0, "panics": 0, "harness": None}
    o, mod = gload.run_src(src)
    code = pyoracle.prepare(gload.PRELUDE + src)
    inputs = [()] if fam == "lit" else list(itertools.product(vals, repeat=2))
    if o.kind == "crash":
        res["status"] = "crash"
        res["dis"] = {"cls": "compiler-crash", "detail": o.exc}
        return res
    if o.kind == "error":
        res["status"] = "rejected"
        if fam == "lit":
            st, _, _ = _Oracle(4000).run(code, "main", [])
            if st == "panic":
                res["status"] = "rejected-static-ok"
                return res
        res["dis"] = {"cls": "valid-program-rejected", "detail": o.title}
        return res
    res["status"] = "accepted"
    h = o.package.modules[0]
    for args in inputs:
        st, _, trace = _Oracle(4000).run(code, "main", list(args))
        if st == "undefined":
            res["harness"] = f"oracle undefined on {args}: {_}"
            return res
        r = hugrvm.run(h, "main", [hugrvm.to_vm(a) for a in args], step_budget=200000)
        if r.status in ("unsupported", "invariant", "budget"):
            res["harness"] = f"{r.status}: {r.detail}"
            return res
        res["runs"] += 1
        want = _norm(trace)
        got = _norm(r.events)
        if st == "panic":
            res["panics"] += 1
            # the model says "panic": the program must panic, and everything reported before must agree
            if r.status != "panic":
                res["dis"] = {"cls": "no-panic-on-bad-index-or-alias", "input": list(args), "python": [st, want], "guppy": [r.status, got]}
                return res
            if got != want[:len(got)] and want != got[:len(want)]:
                res["dis"] = {"cls": "effects-before-panic-differ", "input": list(args), "python": [st, want], "guppy": [r.status, got]}
                return res
        else:
            if r.status != "ok" or got != want:
                res["dis"] = {"cls": "wrong-element", "input": list(args), "python": [st, want], "guppy": [r.status, r.panic, got]}
                return res
    return res


def run(ctx):
    progs = programs(ctx.tier)
    results = ctx.pmap(eval_program, progs, chunk=16)
    acc = rej_static = runs = panics = 0
    samples = []
    for it, r in zip(progs, results):
        fam, ty, kinds, src, vals = it
        if r["harness"]:
            raise RuntimeError(f"harness problem: {r['harness']}\n{src}")
        if r["status"] == "rejected-static-ok":
            rej_static += 1
            continue
        if r["status"] == "accepted":
            acc += 1
        runs += r["runs"]
        panics += r["panics"]
        if r["dis"]:
            d = r["dis"]
            ctx.violation(f"{d['cls']}:{ty.split('[')[0]}:{kinds}:{fam}",
                          f"array {ty}, ops {kinds} ({fam} index): {d}", {"item": [fam, ty, kinds, src, vals]})
        if len(samples) < 5 and acc % 499 == 3:
            samples.append({"array": ty, "ops": kinds, "index_family": fam, "inputs": r["runs"]})
    return {
        "evaluations": runs, "distinct_nontrivial": acc,
        "rule": "all op sequences (length <= 2 quick / 3 thorough) over read, write, aug-assign, copy-write, swap, iterate, comprehension, "
                "unpack, starred unpack, gate on element, two-place borrow; arrays of length 0..3 of int / tuple / qubit; indices i, j over "
                "all pairs of {-2..n} (runtime) and all literals; non-trivial = accepted program executed on every index pair",
        "samples": samples, "programs": len(progs), "accepted": acc, "literal_index_rejected_statically": rej_static,
        "executions_where_model_panics": panics,
    }


def replay(ctx, item):
    it = item["item"]
    r = eval_program((it[0], it[1], it[2], it[3], it[4]))
    return {"violation": bool(r["dis"]), "result": r}
