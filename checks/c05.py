"""C05 — Side effects happen once each, in Python's evaluation order.

Bounded-exhaustive enumeration of expression trees (grammar G-expr) over result-reporting
leaf calls, placed in several statement contexts.  Each program is compiled by the real
compiler; for every input of a grid, hugrvm explores EVERY legal schedule of the effectful
nodes of the emitted HUGR (any topological order of value + order edges is a legal
execution) and every measurement outcome; on each execution the event trace (results,
panics, qubit allocations, measurements) must equal CPython's trace of the same source.
A missing order edge therefore shows up deterministically as a second schedule with a
different trace; a doubly evaluated operand as a duplicated event.
"""
from __future__ import annotations

import functools
import itertools

from vlib import gload, hugrvm, pyoracle

ID = "C05"
LEVEL = "model_checking"

NLEAF = 4
HEADER = "from guppylang.std.option import Option, some, nothing\nfrom collections.abc import Callable\n" + "".join(f'''
@guppy
def f{i}(v: int) -> int:
    result("f{i}", v)
    return v

@guppy
def g{i}(v: int) -> bool:
    result("g{i}", v)
    return v > 0

@guppy
def pg{i}(v: int) -> bool:
    result("pg{i}", v)
    if v > 1:
        panic("pg{i}")
    return v > 0
''' for i in range(NLEAF)) + '''
@guppy
def h2(a: int, b: int) -> int:
    result("h2", a * 10 + b)
    return a - b

@guppy
def opt(v: int) -> Option[int]:
    if v > 1:
        return nothing()
    return some(v)

@guppy
def idf(v: int) -> int:
    result("idf", v)
    return v

@guppy.struct
class Acc:
    base: int

    @guppy
    def add(self: "Acc", v: int) -> int:
        result("add", self.base * 10 + v)
        return self.base + v

@guppy
def touch(a: array[int, 1]) -> None:
    result("touch", a[0])

@guppy
def mkacc(v: int) -> Acc:
    result("mkacc", v)
    return Acc(v)
''' + "".join(f'''
@guppy
def pk{i}(v: int) -> Callable[[int], int]:
    result("pk{i}", v)
    return idf

@guppy
def pk2_{i}(v: int) -> Callable[[int, int], int]:
    result("pk2_{i}", v)
    return h2
''' for i in range(NLEAF))

# expression templates use {L} for an int leaf and {B} for a bool leaf slot; numbering is
# assigned afterwards in textual order.


class G:
    def __init__(self, bool_leaves):
        self.bool_leaves = bool_leaves

    @functools.lru_cache(maxsize=None)
    def E(self, n):
        """int expressions with exactly n leaves: (kinds, text)"""
        out = []
        if n == 1:
            return (("", "{L}"),)
        for a in range(1, n):
            b = n - a
            for (ka, ta), (kb, tb) in itertools.product(self.E(a), self.E(b)):
                out.append((f"{ka}{kb}binop,", f"({ta} + {tb})"))
                out.append((f"{ka}{kb}binop,", f"({ta} - {tb})"))
                out.append((f"{ka}{kb}call-args,", f"h2({ta}, {tb})"))
                out.append((f"{ka}{kb}tuple,", f"({ta}, {tb})[1]"))
        for a, b, c in _splits3(n):
            for (ka, ta), (kb, tb), (kc, tc) in itertools.product(self.E(a), self.E(b), self.E(c)):
                out.append((f"{ka}{kb}{kc}array-index,", f"array({ta}, {tb})[{tc}]"))
            for (ka, ta), (kb, tb), (kc, tc) in itertools.product(self.E(a), self.B(b), self.E(c)):
                out.append((f"{ka}{kb}{kc}ifexp,", f"({ta} if {tb} else {tc})"))
        return tuple(out)

    @functools.lru_cache(maxsize=None)
    def B(self, n):
        out = []
        if n == 1:
            return tuple(self.bool_leaves)
        for a in range(1, n):
            b = n - a
            for (ka, ta), (kb, tb) in itertools.product(self.E(a), self.E(b)):
                out.append((f"{ka}{kb}compare,", f"({ta} < {tb})"))
            for (ka, ta), (kb, tb) in itertools.product(self.B(a), self.B(b)):
                out.append((f"{ka}{kb}and,", f"({ta} and {tb})"))
                out.append((f"{ka}{kb}or,", f"({ta} or {tb})"))
        for a, b, c in _splits3(n):
            for (ka, ta), (kb, tb), (kc, tc) in itertools.product(self.E(a), self.E(b), self.E(c)):
                out.append((f"{ka}{kb}{kc}chained-compare,", f"({ta} < {tb} <= {tc})"))
            for (ka, ta), (kb, tb), (kc, tc) in itertools.product(self.B(a), self.B(b), self.B(c)):
                out.append((f"{ka}{kb}{kc}bool-ifexp,", f"({ta} if {tb} else {tc})"))
        return tuple(out)


def _splits3(n):
    return [(a, b, n - a - b) for a in range(1, n - 1) for b in range(1, n - a)]


def _number(text):
    """Assign leaf indices in textual order.  Returns (text, n_leaves)."""
    out = []
    k = 0
    i = 0
    while i < len(text):
        if text.startswith("{L}", i):
            out.append(f"f{k}(p{k})")
            k += 1
            i += 3
        elif text.startswith("{K}", i):
            out.append(f"pk{k}(p{k})")
            k += 1
            i += 3
        elif text.startswith("{K2}", i):
            out.append(f"pk2_{k}(p{k})")
            k += 1
            i += 4
        elif text.startswith("{B:", i):
            j = text.index("}", i)
            kind = text[i + 3:j]
            if kind == "g":
                out.append(f"g{k}(p{k})")
            elif kind == "notg":
                out.append(f"(not g{k}(p{k}))")
            elif kind == "pg":
                out.append(f"pg{k}(p{k})")
            elif kind == "mq":
                out.append("measure(qubit())")
            k += 1
            i = j + 1
        else:
            out.append(text[i])
            i += 1
    return "".join(out), k


# statement contexts: (name, kind of hole, lines with {X})
CONTEXTS_E = [
    ("assign-result", ["r = {X}", 'result("out", r)']),
    ("return-stmt", ['result("out", {X})']),
    # effects with NO data dependency on a possibly panicking subscript / unwrap next to it
    ("effects-around-subscript", ['result("before", 1)', "r = array(10, 20)[{X}]", 'result("after", 2)', 'result("out", r)']),
    ("effects-around-array-write", ["xs = array(10, 20)", 'result("before", 1)', "xs[{X}] = 5", 'result("after", 2)', 'result("a0", xs[0])']),
    ("effects-around-unwrap", ["o = opt({X})", 'result("before", 1)', "r = o.unwrap()", 'result("after", 2)', 'result("out", r)']),
    # every KIND of reporting op next to the others: array-valued results (int / bool / float elements), bool,
    # float and nat results
    ("array-results", ['result("before", 1)', 'result("arr", array({X}, 2))', 'result("mid", True)',
                       'result("barr", array({X} > 0, False))', 'result("farr", array(1.5, 2.5))', 'result("after", 2.5)',
                       'result("nat", nat(3))']),
]
CONTEXTS_B = [
    ("if-cond", ["if {X}:", '    result("then", 1)', "else:", '    result("else", 0)']),
    ("assign-bool", ["c = {X}", 'result("out", c)']),
]
# contexts with two int holes: evaluation order between target and value
CONTEXTS_EE = [
    ("subscript-assign", ["xs = array(10, 20)", "xs[{X}] = {Y}", 'result("a0", xs[0])', 'result("a1", xs[1])']),
    ("subscript-augassign", ["xs = array(10, 20)", "xs[{X}] += {Y}", 'result("a0", xs[0])', 'result("a1", xs[1])']),
    # a NESTED subscript place lent to a callee: the place is visited again for the write-back (3 x 3, so that every
    # leaf value is in bounds and the only difference Python can see is order / multiplicity)
    ("nested-subscript-borrow", ["xss = array(array(array(1), array(2), array(3)), array(array(4), array(5), array(6)), array(array(7), array(8), array(9)))", "touch(xss[{X}][{Y}])",
                                 'result("after", 1)', "touch(xss[0][1])"]),
    ("nested-subscript-read", ["xss = array(array(array(1), array(2), array(3)), array(array(4), array(5), array(6)), array(array(7), array(8), array(9)))", 'result("v", xss[{X}][{Y}][0])',
                               'result("after", 1)']),
    ("tuple-assign", ["a, b = {X}, {Y}", 'result("a", a)', 'result("b", b)']),
    ("while-cond", ["n = 0", "while n < {X} - {Y}:", "    n += 1", '    result("it", n)']),
]


def programs(tier):
    bl = [("", "{B:g}"), ("not,", "{B:notg}"), ("panic-leaf,", "{B:pg}")]
    if tier != "quick":
        bl.append(("measure-leaf,", "{B:mq}"))
    g = G(tuple(bl))
    nmax = 3 if tier == "quick" else 4
    progs = []
    for n in range(1, nmax + 1):
        for kinds, t in g.E(n):
            for cn, lines in CONTEXTS_E:
                progs.append((kinds + cn, [l.replace("{X}", t) for l in lines]))
        for kinds, t in g.B(n):
            for cn, lines in CONTEXTS_B:
                progs.append((kinds + cn, [l.replace("{X}", t) for l in lines]))
    emax = 2 if tier == "quick" else 3
    for n in range(2, emax + 1):
        for a in range(1, n):
            for (ka, ta), (kb, tb) in itertools.product(g.E(a), g.E(n - a)):
                for cn, lines in CONTEXTS_EE:
                    progs.append((ka + kb + cn, [l.replace("{X}", ta).replace("{Y}", tb) for l in lines]))
    # short-circuit / assignment expressions nested as a LATER operand (size 3-4 shapes that the quick
    # size bound would otherwise miss)
    extra_e = [
        ("binop,ifexp,", "({L} + ({L} if {B:g} else {L}))"),
        ("call-args,ifexp,", "h2({L}, ({L} if {B:g} else {L}))"),
        ("tuple,ifexp,", "({L}, ({L} if {B:g} else {L}))[1]"),
        ("binop,walrus,", "({L} + (w := {L}))"),
        ("binop,walrus,", "(({L} + (w := {L})) + w)"),
        ("call-args,walrus,", "h2({L}, (w := {L}))"),
        ("binop,ifexp,and,", "({L} + ({L} if ({B:g} and {B:g}) else 7))"),
        # calls whose CALLEE is itself an effectful expression (indirect calls), method calls on an
        # effectful receiver, struct construction
        ("indirect-call,", "{K}({L})"),
        ("indirect-call,binop,", "{K}(({L} + {L}))"),
        ("indirect-call,binop,", "({L} + {K}({L}))"),
        ("indirect-call,call-args,", "h2({L}, {K}({L}))"),
        ("indirect-call,indirect-call,", "{K}({K}({L}))"),
        ("indirect-call2,", "{K2}({L}, {L})"),
        ("indirect-call2,binop,", "({L} + {K2}({L}, {L}))"),
        ("method-call,", "mkacc({L}).add({L})"),
        ("method-call,binop,", "({L} + mkacc({L}).add({L}))"),
        ("method-call,call-args,", "h2(mkacc({L}).add({L}), {L})"),
        ("struct-construction,", "Acc({L}).add({L})"),
        ("struct-construction,binop,", "(Acc({L}).base + Acc({L}).base)"),
        # effects inside comprehensions and around constant conditions (provably dead branches)
        ("comprehension,", "array(h2({L}, i) for i in range(2))[1]"),
        ("comprehension,binop,", "({L} + array(h2({L}, i) for i in range(2))[0])"),
        ("comprehension,comprehension-condition,", "array(h2({L}, i) for i in range(3) if idf(i) != 1)[1]"),
        ("ifexp,constant-condition,", "({L} if True else {L})"),
        ("ifexp,constant-condition,", "({L} if False else {L})"),
        ("binop,ifexp,constant-condition,", "({L} + ({L} if False else {L}))"),
    ]
    for kinds, t in extra_e:
        for cn, lines in CONTEXTS_E:
            progs.append((kinds + cn, [l.replace("{X}", t) for l in lines]))
    for kinds, t in [("or,or-chain3,", "({B:g} or {B:g} or {B:g})"), ("and,and-chain3,", "({B:g} and {B:g} and {B:g})"),
                     ("or,and,mixed-chain3,", "({B:g} or {B:g} and {B:g})"), ("or,and,mixed-chain3,", "({B:g} and {B:g} or {B:g})"),
                     ("or,or-chain4,", "({B:g} or {B:g} or {B:g} or {B:g})"), ("and,and-chain4,", "({B:g} and {B:g} and {B:g} and {B:g})"),
                     ("or,not,or-chain3,", "({B:notg} or {B:g} or {B:notg})"),
                     ("and,constant-operand,", "({B:g} and True and {B:g})"), ("or,constant-operand,", "({B:g} or False or {B:g})"),
                     ("and,constant-operand,", "(False and {B:g})"), ("or,constant-operand,", "(True or {B:g})"),
                     ("and,or,constant-operand,", "({B:g} and (True or {B:g}))"), ("not,constant-operand,", "(not True or {B:g})")]:
        for cn, lines in CONTEXTS_B:
            progs.append((kinds + cn, [l.replace("{X}", t) for l in lines]))
    progs.append(("compare,ifexp,if-cond", ["if ({L} < ({L} if {B:g} else {L})):", '    result("then", 1)', "else:", '    result("else", 0)']))
    out = []
    for kinds, lines in progs:
        text, n = _number("\n".join(lines))
        if n > NLEAF:
            continue
        out.append((kinds, text.split("\n"), n))
    return out


def source(lines):
    params = ", ".join(f"p{i}: int" for i in range(NLEAF))
    return HEADER + f"\n@guppy\ndef main({params}) -> None:\n" + "\n".join("    " + l for l in lines) + "\n"


TRACE_KINDS = ("result", "panic", "exit", "alloc", "measure")


def _norm(events):
    out = []
    for e in events:
        if e[0] == "result":
            out.append(("result", e[1], e[2]))
        elif e[0] in ("panic", "exit"):
            out.append((e[0], e[2]))
        elif e[0] == "alloc":
            out.append(("alloc",))
        elif e[0] == "measure":
            out.append(("measure", bool(e[2])))
    return out


class _Oracle(pyoracle.Oracle):
    """Oracle whose qubit()/measure() log allocation and measurement events."""

    def namespace(self):
        ns = super().namespace()
        trace = self.trace
        base_qubit, base_measure = ns["qubit"], ns["measure"]

        def qubit():
            trace.append(("alloc", 0))
            return base_qubit()

        def measure(q):
            r = base_measure(q)
            trace.append(("measure", 0, r))
            return r

        ns["qubit"], ns["measure"] = qubit, measure

        class _Opt:
            def __init__(self, has, v=None):
                self.has, self.v = has, v

            def unwrap(self):
                if not self.has:
                    raise pyoracle.Panic("Option.unwrap: value is `Nothing`")
                return self.v

        ns["some"] = lambda v: _Opt(True, v)
        ns["nothing"] = lambda: _Opt(False)
        ns["Option"] = _Opt
        return ns


import re as _re
# results reported by the leaf functions and helper callees of HEADER (not the observations of the statement contexts)
_CALLEE_TAG = _re.compile(r"^(?:(?:f|g|pg|pk|pk2_)\d|h2|idf|add|mkacc|touch)$")


def eval_program(item):
    kinds, lines, nleaf = item
    src = source(lines)
    res = {"status": "", "dis": None, "dis_all": [], "execs": 0, "inputs": 0, "undef": 0, "harness": None,
           "max_sched": 1, "states": 0, "transitions": 0, "capped": 0}
    o, mod = gload.run_src(src)
    if o.kind == "error":
        res["status"] = "rejected"
        res["title"] = o.title
        return res
    if o.kind == "crash":
        res["status"] = "crash"
        res["dis"] = {"class": "compiler-crash", "detail": o.exc}
        return res
    res["status"] = "accepted"
    h = o.package.modules[0]
    code = pyoracle.prepare(gload.PRELUDE + src)
    for vals in itertools.product((0, 1, 2), repeat=nleaf):
        args = list(vals) + [0] * (NLEAF - nleaf)
        orc = _Oracle(step_budget=4000)
        st, val, trace = orc.run(code, "main", args)
        if st == "undefined":
            res["undef"] += 1
            continue
        want = _norm(trace)
        res["inputs"] += 1
        runs, capped = hugrvm.explore(h, "main", [hugrvm.to_vm(a) for a in args], explore_sched=True,
                                      max_runs=400, step_budget=100000)
        res["capped"] += capped
        res["execs"] += len(runs)
        res["max_sched"] = max(res["max_sched"], len(runs))
        res["states"] += sum(len(r.events) + 1 for r in runs)
        res["transitions"] += sum(len(r.events) for r in runs)
        traces = set()
        for r in runs:
            if r.status in ("unsupported", "invariant"):
                res["harness"] = f"{r.status}: {r.detail}"
                return res
            got = _norm(r.events)
            traces.add(repr(got))
            if r.status != st or got != want:
                if len(runs) > 1 and any(_norm(x.events) == want and x.status == st for x in runs):
                    cls = "order-not-enforced"     # some legal schedule deviates from Python's order
                elif sorted(map(repr, got)) != sorted(map(repr, want)):
                    # "duplicated-effect": the compiled program's trace is Python's trace plus repeated
                    # copies of events Python has too (an operand evaluated twice), same final outcome;
                    # anything else (missing effect, other value, other branch) is "different-effects"
                    extra = list(got)
                    for e in want:
                        if e in extra:
                            extra.remove(e)
                        else:
                            extra = None
                            break
                    if extra and r.status == st and all(e in want and e[0] == "result" and _CALLEE_TAG.match(str(e[1])) for e in extra):
                        cls = "duplicated-effect"
                    else:
                        cls = "different-effects"
                else:
                    cls = "wrong-order"
                if not any(d["class"] == cls for d in res["dis_all"]):
                    res["dis_all"].append({"class": cls, "input": args, "python": [st, want], "guppy": [r.status, got],
                                           "schedules": len(runs), "choices": [c[1] for c in r.choices]})
                break
    # One root cause, one class: when a program shows a pure ORDER (or multiplicity) deviation on inputs that run to the
    # end, the same deviation cut short by a panic on other inputs (an effect missing or extra in front of the panic)
    # is that deviation, not a further one.  Programs that only ever differ in the presence of a panic keep the class.
    base = {d["class"] for d in res["dis_all"]} & {"wrong-order", "order-not-enforced", "duplicated-effect"}
    if base:
        res["dis_all"] = [d for d in res["dis_all"] if not (d["class"] == "different-effects" and "panic" in (d["python"][0], d["guppy"][0]))]
    res["dis"] = res["dis_all"][0] if res["dis_all"] else None
    return res


def run(ctx):
    progs = programs(ctx.tier)
    results = ctx.pmap(eval_program, progs, chunk=16)
    acc = rej = execs = inputs = undef = states = trans = capped = 0
    max_sched = 1
    rej_titles: dict = {}
    samples = []
    multi = 0
    for (kinds, lines, n), r in zip(progs, results):
        if r["harness"]:
            raise RuntimeError(f"hugrvm could not execute: {r['harness']}\n{source(lines)}")
        if r["status"] == "rejected":
            rej += 1
            rej_titles[r["title"]] = rej_titles.get(r["title"], 0) + 1
            continue
        if r["status"] == "crash":
            ctx.violation("compiler-crash:" + kinds.split(",")[-1],
                          f"compiler crashed: {r['dis']['detail']} on " + " | ".join(lines), {"lines": lines, "n": n})
            continue
        acc += 1
        execs += r["execs"]
        inputs += r["inputs"]
        undef += r["undef"]
        states += r["states"]
        trans += r["transitions"]
        capped += r["capped"]
        if r["max_sched"] > 1:
            multi += 1
        max_sched = max(max_sched, r["max_sched"])
        for d in r["dis_all"]:
            ks = [k for k in kinds.split(",") if k]
            # defect class = the outermost constructs involved + the kind of disagreement
            key = f"{d['class']}:{'+'.join(sorted(set(ks)))}"
            ctx.violation(key, f"{d['class']} on input {d['input']} ({d['schedules']} legal schedule(s)): python={d['python']} "
                          f"guppy={d['guppy']}; body: " + " | ".join(lines), {"lines": lines, "n": n})
        if len(samples) < 6 and acc % 211 == 3:
            samples.append({"body": lines, "leaves": n, "executions": r["execs"]})
    return {
        "states": states, "transitions": trans, "traces_validated_against_impl": execs,
        "evaluations": execs, "distinct_nontrivial": acc,
        "rule": "all expression trees of grammar G-expr with <= N leaf calls in 8 statement contexts; per program all 3^leaves inputs; per "
                "input ALL legal schedules of effectful HUGR nodes and all measurement outcomes; states = trace prefixes visited",
        "samples": samples,
        "programs": len(progs), "accepted": acc, "rejected_by_checker": rej, "rejection_titles": rej_titles,
        "inputs_run": inputs, "inputs_skipped_python_undefined": undef,
        "executions": execs, "max_schedules_per_input": max_sched, "programs_with_more_than_one_schedule": multi,
        "schedule_cap_hits": capped,
        "exhaustive": capped == 0,
    }


def replay(ctx, item):
    r = eval_program(("", item["lines"], item["n"]))
    return {"violation": bool(r["dis"]) or r["status"] == "crash", "result": r, "source": source(item["lines"])}
