"""C15 — Overloaded calls pick the first applicable variant.

All overload lists of length <= 3 (thorough: <= 4) drawn WITH ORDER from a pool of 8
variants (different arity, int / float / nat / bool parameters, a generic T, a variant
differing only in result type, a declared-only variant), each returning its own constant
id; x argument lists from a type pool; x call position (synthesis, checking against int,
checking against float, return, argument of a typed function).

Differential oracle (no hand-written expectations): for each variant v_i, does the DIRECT
call v_i(args) type-check in the same position?  The overloaded call must be accepted iff
some listed variant does, and must then behave like the direct call to the FIRST such
variant (same value under hugrvm).
"""
from __future__ import annotations

import itertools

from vlib import gload, hugrvm

ID = "C15"
LEVEL = "exploration"

POOL = {
    "v_int": "@guppy\ndef v_int(x: int) -> int:\n    return 10\n",
    "v_float": "@guppy\ndef v_float(x: float) -> int:\n    return 11\n",
    "v_nat": "@guppy\ndef v_nat(x: nat) -> int:\n    return 12\n",
    "v_bool": "@guppy\ndef v_bool(x: bool) -> int:\n    return 13\n",
    "v_int2": "@guppy\ndef v_int2(x: int, y: int) -> int:\n    return 14\n",
    "v_gen": "@guppy\ndef v_gen[T](x: T) -> int:\n    return 15\n",
    "v_retf": "@guppy\ndef v_retf(x: int) -> float:\n    return 16.5\n",
    "v_decl": "@guppy.declare\ndef v_decl(x: float) -> int: ...\n",
    "v_none": "@guppy\ndef v_none() -> int:\n    return 18\n",
    # variants that are generic ONLY in their result type (the parameter is inferred from the expected type
    # in checking positions), next to a monomorphic one with the same result type
    "v_genarr": "@guppy\ndef v_genarr[n: nat](x: int) -> array[int, n]:\n    return array(22 for _ in range(n))\n",
    "v_arr2": "@guppy\ndef v_arr2(x: float) -> array[int, 2]:\n    return array(23, 23)\n",
    "v_genpair": "@guppy\ndef v_genpair[n: nat](x: float) -> tuple[int, array[int, n]]:\n    return 24, array(0 for _ in range(n))\n",
    # a variant that is itself an overloaded function
    "v_nested": "@guppy.overload(v_bool, v_float)\ndef v_nested(): ...\n",
    # two variants whose Python-level function name is the same (defined in different scopes)
    "v_same1": "def _mk1():\n    @guppy\n    def conv(x: bool) -> int:\n        return 20\n    return conv\n\nv_same1 = _mk1()\n",
    "v_same2": "def _mk2():\n    @guppy\n    def conv(x: float) -> int:\n        return 21\n    return conv\n\nv_same2 = _mk2()\n",
}
ALL_DEFS = "".join(POOL.values())
CORE8 = ["v_int", "v_float", "v_nat", "v_bool", "v_int2", "v_gen", "v_retf", "v_decl"]
DECL_ID = 17

ARGS = {
    "int-var": "a",
    "float-var": "fl",
    "nat-var": "n",
    "bool-var": "b",
    "int-literal": "3",
    "two-ints": "a, 4",
    "no-args": "",
    "tuple": "(a, b)",
}

# positions: template with {CALL}; the value is reported through a typed return so that no
# second overload (result) is involved.  main returns tuple (int-ish id as float)
POSITIONS = {
    "synthesis": "    r = {CALL}\n    return r + 0\n",
    "check-int": "    r: int = {CALL}\n    return r + 0\n",
    "check-float": "    r: float = {CALL}\n    return r\n",
    "return": "    return {CALL}\n",
    "argument": "    return takes_int({CALL})\n",
    # the expected type fixes a type parameter that occurs in the RESULT only
    "check-array": "    r: array[int, 2] = {CALL}\n    return r[0]\n",
    "check-pair": "    r: tuple[int, array[int, 3]] = {CALL}\n    return r[0]\n",
    "argument-array": "    return takes_arr({CALL})\n",
}
RET = {"synthesis": None, "check-int": "int", "check-float": "float", "return": "int", "argument": "int",
       "check-array": "int", "check-pair": "int", "argument-array": "int"}
PARAMS = "a: int, fl: float, n: nat, b: bool"


def program(defs, callee_expr, args, pos):
    ret = RET[pos]
    body = POSITIONS[pos].replace("{CALL}", f"{callee_expr}({ARGS[args]})")
    outs = []
    for rt in ([ret] if ret else ["int", "float"]):
        outs.append(defs + f"\n@guppy\ndef takes_int(v: int) -> int:\n    return v + 100\n\n"
                    f"@guppy\ndef takes_arr(v: array[int, 2] @owned) -> int:\n    return v[0] + 200\n\n@guppy\ndef main({PARAMS}) -> {rt}:\n{body}")
    return outs


def observe(src_list):
    """Try the program at its candidate result types; return ('rejected',) or ('ok', value) / ('crash', msg)."""
    last = None
    for src in src_list:
        o, mod = gload.run_src(src)
        if o.kind == "crash":
            return ("crash", o.exc)
        if o.ok:
            r = hugrvm.run(o.package.modules[0], "main", [hugrvm.to_vm(5), 2.5, hugrvm.to_vm(7), True],
                           externs={"v_decl": lambda *a: [hugrvm.to_vm(DECL_ID)]})
            if r.status in ("unsupported", "invariant", "budget"):
                raise RuntimeError(f"hugrvm: {r.status} {r.detail}\n{src}")
            if r.status != "ok":
                return ("ok", f"{r.status}")
            v = r.values[0]
            return ("ok", float(v) if isinstance(v, float) else float(hugrvm.s64(v)))
        last = o.title
    return ("rejected", last)


def eval_direct(item):
    v, args, pos = item
    return observe(program(ALL_DEFS, v, args, pos))


def eval_overload(item):
    variants, args, pos = item
    defs = ALL_DEFS + f"\n@guppy.overload({', '.join(variants)})\ndef f(): ...\n"
    return observe(program(defs, "f", args, pos))


ARRAY_VARIANTS = {"v_genarr", "v_arr2", "v_genpair"}
ARRAY_POSITIONS = {"check-array", "check-pair", "argument-array"}


def _applies(variants, a, p):
    """Which (list, args, position) combinations are enumerated.  Variants with an array result are only
    used where the call is CHECKED against an expected type: in the synthesis template the surrounding
    `r + 0` would reject the program for a reason that has nothing to do with overload resolution."""
    if ARRAY_VARIANTS & set(variants):
        return p != "synthesis" and a in ("int-var", "float-var", "int-literal")
    return p not in ARRAY_POSITIONS


def lists(tier):
    names = list(POOL)
    out = list(itertools.permutations(names, 2))
    if tier == "quick":
        out += list(itertools.permutations(CORE8, 3))
        # the nested / same-named variants in every position of a 3-list with two core variants
        extra = ["v_nested", "v_same1", "v_same2"]
        for e in extra:
            for a, b in itertools.permutations(["v_int", "v_gen"], 2):
                out += [(e, a, b), (a, e, b), (a, b, e)]
        out += [("v_same1", "v_same2", "v_int"), ("v_same2", "v_same1", "v_gen"), ("v_int2", "v_same1", "v_same2")]
        out += list(itertools.permutations(["v_genarr", "v_arr2", "v_genpair", "v_int", "v_float"], 3))
        return out
    out += list(itertools.permutations(names, 3))
    core = ["v_int", "v_float", "v_nat", "v_gen", "v_retf", "v_int2"]
    out += list(itertools.permutations(core, 4))
    return out


def run(ctx):
    names = list(POOL)
    direct_items = [(v, a, p) for v in names for a in ARGS for p in POSITIONS]
    direct = dict(zip(direct_items, ctx.pmap(eval_direct, direct_items, chunk=8)))
    for k, d in direct.items():
        if d[0] == "crash":
            ctx.violation(f"compiler-crash:direct:{k[0]}:{k[2]}", f"direct call {k}: {d[1]}", {"kind": "direct", "item": list(k)})
    ls = lists(ctx.tier)
    items = [(l, a, p) for l in ls for a in ARGS for p in POSITIONS if _applies(l, a, p)]
    res = ctx.pmap(eval_overload, items, chunk=32)
    acc = rej = 0
    samples = []
    nontriv = 0
    for it, r in zip(items, res):
        l, a, p = it
        first = next((v for v in l if direct[(v, a, p)][0] == "ok"), None)
        applicable = [v for v in l if direct[(v, a, p)][0] == "ok"]
        if len(applicable) >= 1:
            nontriv += 1
        if r[0] == "crash":
            ctx.violation(f"compiler-crash:overload:{p}", f"overload {l} args {a} position {p}: {r[1]}", {"kind": "ovl", "item": [list(l), a, p]})
            continue
        if first is None:
            if r[0] == "ok":
                ctx.violation(f"accepted-without-applicable-variant:{a}:{p}",
                              f"overload {l} with args `{ARGS[a]}` in position {p} accepted (value {r[1]}) although no listed variant accepts a direct call",
                              {"kind": "ovl", "item": [list(l), a, p]})
            rej += 1
            continue
        if r[0] == "rejected":
            ctx.violation(f"rejected-although-variant-applies:{first}:{a}:{p}",
                          f"overload {l} with args `{ARGS[a]}` in position {p} rejected ({r[1]}) although the direct call {first}({ARGS[a]}) type-checks",
                          {"kind": "ovl", "item": [list(l), a, p]})
            continue
        acc += 1
        want = direct[(first, a, p)][1]
        if r[1] != want:
            chosen = [v for v in l if direct[(v, a, p)][0] == "ok" and direct[(v, a, p)][1] == r[1]]
            ctx.violation(f"not-first-applicable:{a}:{p}",
                          f"overload {l} with args `{ARGS[a]}` in position {p}: behaves like {chosen or r[1]} (value {r[1]}) but the first applicable "
                          f"variant is {first} (value {want})", {"kind": "ovl", "item": [list(l), a, p]})
        if len(samples) < 6 and acc % 997 == 5:
            samples.append({"overloads": list(l), "args": ARGS[a], "position": p, "first_applicable": first, "value": r[1]})
    return {
        "evaluations": len(items) + len(direct_items), "distinct_nontrivial": nontriv,
        "rule": "ordered overload lists (length 2..3 quick / ..4 thorough) from a pool of 9 variants x 8 argument lists x 5 call positions; "
                "oracle = direct calls to each variant in the same position; non-trivial = at least one listed variant applies",
        "samples": samples, "overload_lists": len(ls), "direct_calls": len(direct_items),
        "accepted": acc, "rejected_no_variant": rej,
        "direct_applicability": {f"{k[0]}({ARGS[k[1]]})@{k[2]}": v[0] for k, v in list(direct.items())[:40]},
    }


def replay(ctx, item):
    if item["kind"] == "direct":
        return {"violation": eval_direct(tuple(item["item"]))[0] == "crash"}
    l, a, p = item["item"]
    l = tuple(l)
    r = eval_overload((l, a, p))
    d = {v: eval_direct((v, a, p)) for v in l}
    first = next((v for v in l if d[v][0] == "ok"), None)
    bad = (r[0] == "crash") or (first is None and r[0] == "ok") or (first is not None and (r[0] != "ok" or r[1] != d[first][1]))
    return {"violation": bad, "overload": r, "direct": d}
