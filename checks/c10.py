"""C10 — Compiler output and diagnostics are deterministic.

Part 1 (this file; model checking): identity-hashed worklists.  For every program of a
fixed corpus (accepted and rejected; >= 2 variables live across joins, loops with
break/continue, dead code behind return/break/continue/constant conditions, nested
functions, linear values, two competing errors) the WHOLE real pipeline
(`compile_function`, i.e. ENGINE.check + lowering + `Package.to_bytes()`) is run under
the worklist orders of every dataflow-analysis invocation it makes, via hook H1 and
`vlib.schedx.explore_program_schedules`:
  * every order, when no explored CFG has more than FULL_LIMIT blocks (quick 6,
    thorough 7),
  * otherwise every order with at most K (quick 2, thorough 3) deviations from the
    default order (the budget is shared by all invocations of one pipeline run).
The product over invocations is explored (an invocation's distinct returned values —
variable order and evidence block included — each continue the pipeline).
Outcome of a run = sha256 of `to_bytes()` | the rendered diagnostic | the crash text.
Violation: more than one distinct outcome for one program.

Parts 2 (PYTHONHASHSEED) and 3 (fresh processes) are placeholders for now.
"""
from __future__ import annotations

ID = "C10"
LEVEL = "model_checking"

BOUNDS = {"quick": (6, 2), "thorough": (7, 3)}   # (FULL_LIMIT blocks, K deviations)
CROSSCHECK_STATES = 120   # programs explored with both explorer strategies (see schedx)

CORPUS: dict = {}


def P(name, src):
    CORPUS[name] = src.strip("\n") + "\n"



# ------------------------------------------------------------------ accepted
P("ok_join2", '''
@guppy
def main(a: int, b: bool) -> int:
    x = a
    y = a + 1
    if b:
        x = x + y
    else:
        y = y * 2
    return x + y
''')
P("ok_join3_nested", '''
@guppy
def main(a: int, b: bool, c: bool) -> int:
    x = a
    y = 2
    z = 3
    if b:
        if c:
            x = y
        else:
            z = x
        y = z + x
    else:
        z = y
    return x + y + z
''')
P("ok_while_break_continue", '''
@guppy
def main(n: int) -> int:
    i = 0
    acc = 0
    while i < n:
        i += 1
        if i % 2 == 0:
            continue
        if acc > 100:
            break
        acc += i
    return acc + i
''')
P("ok_while_true_break", '''
@guppy
def main(n: int) -> int:
    i = 0
    j = n
    while True:
        if i >= j:
            break
        i += 1
        j -= 1
    return i - j
''')
P("ok_nested_loops", '''
@guppy
def main(n: int) -> int:
    s = 0
    i = 0
    while i < n:
        j = 0
        while j < i:
            if j == 3:
                break
            s += j
            j += 1
        i += 1
    return s
''')
P("ok_for_range", '''
@guppy
def main(n: int) -> int:
    s = 0
    p = 1
    for i in range(n):
        if i == 2:
            continue
        s += i
        p = p + s
    return s + p
''')
P("ok_early_return_loop", '''
@guppy
def main(n: int) -> int:
    i = 0
    k = 7
    while i < n:
        if i == k:
            return i
        i += 1
    return k
''')
P("ok_dead_after_return_uses_var", '''
@guppy
def main(a: int) -> int:
    x = a
    if a > 0:
        return 1
        y = x
    return 2
''')
P("ok_dead_after_return_two_vars", '''
@guppy
def main(a: int) -> int:
    x = a
    z = a + 1
    if a > 0:
        return x
        y = x + z
        z = y
    return z
''')
P("ok_dead_after_break", '''
@guppy
def main(n: int) -> int:
    i = 0
    t = 5
    while i < n:
        i += 1
        break
        t = t + i
    return i + t
''')
P("ok_dead_after_continue", '''
@guppy
def main(n: int) -> int:
    i = 0
    t = 5
    while i < n:
        i += 1
        continue
        t = t + i
    return i + t
''')
P("ok_if_true", '''
@guppy
def main(a: int) -> int:
    x = a
    if True:
        y = x + 1
    else:
        y = x - 1
    return y
''')
P("ok_if_false_dead_branch_uses", '''
@guppy
def main(a: int) -> int:
    x = a
    w = 3
    if False:
        w = x + w
    return x + w
''')
P("ok_while_false", '''
@guppy
def main(a: int) -> int:
    x = a
    y = 1
    while False:
        y = y + x
    return x + y
''')
P("ok_while_true_noexit", '''
@guppy
def main(a: int) -> int:
    x = a
    while True:
        x += 1
''')
P("ok_dead_loop_after_return", '''
@guppy
def main(a: int) -> int:
    x = a
    y = 0
    return x
    while y < x:
        y += 1
    return y
''')
P("ok_shortcircuit", '''
@guppy
def main(a: int, b: bool, c: bool) -> int:
    x = a
    y = 1
    if b and c or a > 3:
        x = y
    elif not b:
        y = x
    return x - y
''')
P("ok_ternary", '''
@guppy
def main(a: int, b: bool) -> int:
    x = a if b else a + 1
    y = x if a > 2 else 0
    return x + y
''')
P("ok_tuple_swap_loop", '''
@guppy
def main(n: int) -> int:
    a, b = 0, 1
    i = 0
    while i < n:
        a, b = b, a + b
        i += 1
    return a
''')
P("ok_nested_function", '''
@guppy
def main(a: int, b: bool) -> int:
    def inc(v: int) -> int:
        if v > 10:
            return v
        return v + 1
    x = a
    if b:
        x = inc(x)
    return inc(x)
''')
P("ok_two_functions", '''
@guppy
def helper(a: int, b: bool) -> int:
    r = 0
    s = a
    if b:
        r = s
    else:
        s = 1
    return r + s

@guppy
def main(a: int, b: bool) -> int:
    t = helper(a, b)
    u = a
    while u < t:
        u += 2
    return u
''')
P("ok_qubit_branch", '''
@guppy
def main(b: bool) -> bool:
    q = qubit()
    r = qubit()
    if b:
        h(q)
    else:
        x(r)
    cx(q, r)
    m = measure(q)
    discard(r)
    return m
''')
P("ok_qubit_loop", '''
@guppy
def main(n: int) -> bool:
    q = qubit()
    r = qubit()
    i = 0
    while i < n:
        h(q)
        cx(q, r)
        i += 1
    discard(r)
    return measure(q)
''')
P("ok_qubit_owned_inout", '''
@guppy
def main(q: qubit, b: bool) -> None:
    if b:
        h(q)
        return
    x(q)
''')
P("ok_inout_infinite_loop", '''
@guppy
def main(q: qubit) -> None:
    while True:
        h(q)
''')
P("ok_qubit_measure_reset_loop", '''
@guppy
def main(n: int) -> int:
    c = 0
    i = 0
    while i < n:
        q = qubit()
        h(q)
        if measure(q):
            c += 1
        i += 1
    return c
''')
P("ok_float_int_mix", '''
@guppy
def main(a: int, b: bool) -> float:
    x = 1.5
    y = 2.5
    if b:
        x = y + 1.0
    else:
        y = x
    return x + y
''')
P("ok_many_live", '''
@guppy
def main(a: int, b: bool) -> int:
    p = a
    q = a + 1
    r = a + 2
    s = a + 3
    if b:
        p, q = q, p
    else:
        r, s = s, r
    while p < s:
        p += 1
        if p == r:
            continue
        q += 1
    return p + q + r + s
''')

# ------------------------------------------------------------------ rejected
P("err_two_undefined_branches", '''
@guppy
def main(b: bool) -> int:
    if b:
        x = 1
    else:
        y = 2
    return x + y
''')
P("err_two_undefined_sequential_uses", '''
@guppy
def main(b: bool) -> int:
    if b:
        x = 1
    else:
        y = 2
    z = y
    return x + z
''')
P("err_two_never_defined", '''
@guppy
def main(b: bool) -> int:
    if b:
        return u
    return v
''')
P("err_undefined_in_loop_and_after", '''
@guppy
def main(n: int) -> int:
    i = 0
    while i < n:
        if i == 1:
            p = i
        i += q
    return p
''')
P("err_two_type_mismatch_join", '''
@guppy
def main(b: bool) -> int:
    if b:
        x = 1
        y = 1.0
    else:
        x = 1.0
        y = 1
    if x == y:
        return 0
    return 1
''')
P("err_three_type_mismatch_join", '''
@guppy
def main(b: bool) -> int:
    if b:
        u = 1
        v = 1.0
        w = True
    else:
        u = 1.0
        v = True
        w = 1
    if b:
        return 0
    result("u", u)
    result("v", v)
    result("w", w)
    return 1
''')
P("err_type_mismatch_loop_carried", '''
@guppy
def main(n: int) -> int:
    x = 0
    y = 0
    i = 0
    while i < n:
        x = 1.0
        y = True
        i += 1
    result("x", x)
    result("y", y)
    return i
''')
P("err_return_type_two_branches", '''
@guppy
def main(b: bool) -> int:
    if b:
        return 1.0
    else:
        return True
''')
P("err_two_leaked_qubits", '''
@guppy
def main(b: bool) -> None:
    q = qubit()
    r = qubit()
    if b:
        discard(q)
    else:
        discard(r)
''')
P("err_qubit_used_twice_and_leak", '''
@guppy
def main(b: bool) -> None:
    q = qubit()
    r = qubit()
    if b:
        discard(q)
        discard(q)
    else:
        discard(q)
''')
P("err_qubit_loop_reuse", '''
@guppy
def main(n: int) -> None:
    q = qubit()
    r = qubit()
    i = 0
    while i < n:
        discard(q)
        i += 1
    discard(r)
''')
P("err_dead_code_type_error", '''
@guppy
def main(a: int) -> int:
    x = a
    return x
    y = x + True
    z = y + 1.5
    return z
''')
P("err_dead_code_undefined_two", '''
@guppy
def main(a: int) -> int:
    return a
    y = p
    z = q
    return y + z
''')
P("err_missing_return_and_undefined", '''
@guppy
def main(b: bool) -> int:
    if b:
        k = 1
    else:
        m = 2
    if b:
        return k
    return m
''')
P("err_undefined_in_both_nested", '''
@guppy
def main(b: bool, c: bool) -> int:
    if b:
        if c:
            s = 1
        else:
            t = 2
    else:
        s = 3
        t = 4
    return s + t
''')
P("err_call_arg_types_two", '''
@guppy
def f(a: int, b: bool) -> int:
    return a

@guppy
def main(b: bool) -> int:
    if b:
        return f(1.0, b)
    return f(1, 2)
''')
P("err_inout_moved_two_branches", '''
@guppy
def main(q: qubit, r: qubit, b: bool) -> None:
    if b:
        discard(q)
    else:
        discard(r)
''')
P("err_drop_two_in_loop", '''
@guppy
def main(n: int) -> None:
    i = 0
    while i < n:
        q = qubit()
        r = qubit()
        if i == 2:
            continue
        discard(q)
        discard(r)
        i += 1
''')
P("err_nested_fn_maybe_captured", '''
@guppy
def main(b: bool) -> int:
    if b:
        y = 1
    def inner() -> int:
        return y
    return inner()
''')
P("err_dead_after_return_in_branch_undefined", '''
@guppy
def main(a: int) -> int:
    x = a
    if a > 0:
        return 1
        y = x + w1
    else:
        return 2
        y = x + w2
''')

P("err_maybe_undefined_used_in_three_blocks", '''
@guppy
def main(b: bool, c: bool) -> int:
    if b:
        x = 1
    if c:
        y = x + 1
    else:
        y = x + 2
    z = x + y
    return z
''')
P("err_maybe_undefined_used_in_loop_and_after", '''
@guppy
def main(b: bool, n: int) -> int:
    if b:
        x = 1
    s = 0
    while n > 0:
        if n == 3:
            s += x
        else:
            s -= x
        n -= 1
    return s + x
''')
P("err_two_maybe_undefined_used_in_several_blocks", '''
@guppy
def main(b: bool, c: bool) -> int:
    if b:
        u = 1
        v = 2
    if c:
        w = v + u
    else:
        w = u - v
    return w + v + u
''')
P("err_leak_used_in_two_later_blocks", '''
@guppy
def main(b: bool, c: bool) -> None:
    q = qubit()
    if b:
        discard(q)
    if c:
        h(q)
    else:
        x(q)
    discard(q)
''')
P("ok_str_comptime_instances_pull_in_definitions", '''
@guppy
def label(x: int, s: str @comptime) -> int:
    result(s, x)
    return x + 1

@guppy
def tag(x: int, s: str @comptime) -> int:
    return label(x, s) * 2

@guppy
def main(x: int) -> int:
    return tag(x, "alpha") + tag(x, "beta") + tag(x, "gamma") + tag(x, "delta")
''')
P("ok_mixed_comptime_instances", '''
@guppy
def leaf(x: int, s: str @comptime, k: int @comptime) -> int:
    result(s, x + k)
    return x

@guppy
def mid(x: int, s: str @comptime) -> int:
    return leaf(x, s, 1) + leaf(x, s, 2)

@guppy
def main(x: int) -> int:
    return mid(x, "pq") + mid(x, "rs") + mid(x, "tu")
''')
P("ok_closure_captures_used_in_several_blocks", '''
@guppy
def main(a: int, b: int, c: int, f: bool) -> int:
    def inner(v: int) -> int:
        if v > 0:
            s = b + a
        else:
            s = c + a
        return s + b + c
    return inner(1)
''')
P("ok_closure_captures_used_in_loop", '''
@guppy
def main(a: int, b: int, c: int) -> int:
    def inner(v: int) -> int:
        while v > 0:
            v -= c
            if v == 3:
                v += b
        return v + a
    return inner(5)
''')
P("ok_dead_after_both_returns", '''
@guppy
def main(b: bool) -> int:
    x = 1
    w = 2
    if b:
        return x
    else:
        return w
    y = x + w
    return y
''')
P("ok_dead_if_false_else_uses", '''
@guppy
def main(a: int) -> int:
    x = a
    u = 0
    if False:
        u = x
    else:
        u = x + 1
    return u
''')
P("ok_dead_loop_uses_outer_vars", '''
@guppy
def main(n: int) -> int:
    s = n
    t = 1
    while s > 0:
        s -= 1
        if s == 3:
            return t
            t = t + s
            s = t
    return s + t
''')
P("ok_dead_nested_return_chain", '''
@guppy
def main(a: int, b: bool) -> int:
    p = a
    q = a * 2
    if b:
        return p
        if q > p:
            p = q
        return p + q
    return q
''')
P("err_dead_join_type_mismatch_two", '''
@guppy
def main(b: bool) -> int:
    return 0
    if b:
        u = 1
        v = 1.0
    else:
        u = 1.0
        v = 1
    result("u", u)
    result("v", v)
    return 1
''')
P("err_dead_two_undefined_after_loop", '''
@guppy
def main(n: int) -> int:
    i = 0
    while True:
        i += 1
    return g1 + i
    return g2
''')


# ============================================================================ part 1


def _first_line(o):
    if o[0] == "ok":
        return f"ok sha256={o[1][:16]}"
    text = o[2] if len(o) > 2 else ""
    lines = [ln.strip() for ln in str(text).splitlines() if ln.strip()]
    head = lines[0] if lines else ""
    tail = lines[-1] if len(lines) > 1 else ""
    return f"{o[0]}@{o[1]}: {head} … {tail}"


def _classify(outcomes):
    kinds = sorted({o[0] for o in outcomes})
    if "RAISED" in kinds or "EXC" in kinds:
        return "analysis-raises-under-some-order"
    if kinds == ["error", "ok"]:
        return "accepted-or-rejected-depending-on-order"
    if kinds == ["error"]:
        return "diagnostic-depends-on-order"
    if kinds == ["ok"]:
        return "hugr-bytes-depend-on-order"
    return "outcome-kind-depends-on-order:" + "+".join(kinds)


def explore_program(task):
    """Worker: one program.  Never lets a BaseException escape (it would kill the pool)."""
    name, src, full_limit, kdev = task
    try:
        return _explore_program(name, src, full_limit, kdev)
    except BaseException as e:  # noqa: BLE001 - reported as a harness error by run()
        import traceback
        return {"name": name, "harness_error": f"{type(e).__name__}: {e}",
                "tb": traceback.format_exc()[-1500:]}


def _explore_program(name, src, full_limit, kdev):
    import time
    from vlib import schedx
    t0 = time.process_time()
    # size of the largest CFG the pipeline analyses (default order only)
    probe = schedx.explore_program_schedules(src, "main", 0, strategy="inplace")
    sizes = [r.n_queue0 for r in probe["result"].invocations]
    maxq = max(sizes or [0])
    k = None if maxq <= full_limit else kdev
    out = schedx.explore_program_schedules(src, "main", k, strategy="inplace")
    res = out["result"]
    outcomes = out["outcomes"]
    crosscheck = None
    if k is None and res.states <= CROSSCHECK_STATES:
        # small program: the stateless replay strategy must see the same outcomes
        alt = schedx.explore_program_schedules(src, "main", None, strategy="replay")
        if set(alt["outcomes"]) != set(outcomes):
            # the same program explored twice in ONE process over the same set of worklist orders gives
            # different outcomes: something other than the input decides the output
            crosscheck = "outcomes-differ"
            extra = sorted(set(alt["outcomes"]) ^ set(outcomes))
            outcomes = dict(outcomes)
            for o in extra:
                outcomes.setdefault(o, alt["outcomes"].get(o, ()))
        else:
            crosscheck = (alt["result"].states == res.states
                          and alt["result"].transitions == res.transitions)
    ordered = sorted(outcomes.items(), key=lambda kv: (sum(len(w) for w in kv[1]),
                                                        sum(c != 0 for w in kv[1] for c in w), kv[1]))
    return {
        "name": name, "k": k, "max_blocks": maxq, "invocations_default_run": len(sizes),
        "states": res.states, "transitions": res.transitions, "leaves": res.leaves,
        "explored_invocations": len(res.invocations), "thunk_runs": res.thunk_runs,
        "distinct_fine_results_max": max([r.distinct_fine for r in res.invocations] or [0]),
        "outcomes": [(list(o), [list(w) for w in script]) for o, script in ordered],
        "kinds": sorted({o[0] for o in outcomes}),
        "crosscheck": crosscheck,
        "cpu": time.process_time() - t0,
    }


def part1_worklists(ctx):
    full_limit, kdev = BOUNDS[ctx.tier]
    tasks = [(n, s, full_limit, kdev) for n, s in sorted(CORPUS.items())]
    results = ctx.pmap(explore_program, tasks, chunk=1)
    cov = {"programs": len(tasks), "states": 0, "transitions": 0, "leaves": 0,
           "explored_invocations": 0, "thunk_runs": 0, "accepted": 0, "rejected": 0,
           "order_dependent_programs": 0, "full": 0, "bounded": 0, "nontrivial": 0,
           "crosschecked": 0, "cpu": 0.0, "samples": [], "per_program": {}}
    errors = []
    for r in results:
        if "harness_error" in r:
            errors.append(r)
            continue
        for key in ("states", "transitions", "leaves", "explored_invocations", "thunk_runs", "cpu"):
            cov[key] += r[key]
        cov["full" if r["k"] is None else "bounded"] += 1
        # (since the analyses were made canonical, every order gives ONE analysis result, so "several
        # distinct results reached the pipeline" can no longer serve as the measure of non-triviality)
        cov["nontrivial"] += r["transitions"] >= r["states"]
        if r["crosscheck"] is not None:
            cov["crosschecked"] += 1
            if r["crosscheck"] == "outcomes-differ":
                pass        # reported below as an order / history dependent outcome (len(outs) > 1)
            elif not r["crosscheck"]:
                errors.append({"name": r["name"], "harness_error":
                               "replay and in-place strategies disagree", "tb": ""})
        outs = [tuple(o) for o, _ in r["outcomes"]]
        kinds = r["kinds"]
        if kinds == ["ok"]:
            cov["accepted"] += 1
        elif kinds == ["error"]:
            cov["rejected"] += 1
        cov["per_program"][r["name"]] = {"outcomes": len(outs), "leaves": r["leaves"],
                                         "k": r["k"], "max_blocks": r["max_blocks"],
                                         "states": r["states"]}
        if len(cov["samples"]) < 4 and r["transitions"] >= r["states"] and r["states"] > 200:
            cov["samples"].append({"program": r["name"], "max_blocks": r["max_blocks"],
                                   "deviation_bound": r["k"], "states": r["states"],
                                   "pipeline_runs_to_completion": r["leaves"],
                                   "distinct_outcomes": len(outs),
                                   "outcome": _first_line(outs[0])})
        if len(outs) > 1:
            cov["order_dependent_programs"] += 1
            (o1, s1) = r["outcomes"][0]
            (o2, s2) = next(((o, sc) for o, sc in r["outcomes"][1:] if o[0] != o1[0]),
                            r["outcomes"][1])
            ctx.violation(
                _classify(outs),
                f"program {r['name']}: {len(outs)} distinct outcomes over worklist orders "
                f"({'all orders' if r['k'] is None else f'<= {r_k(r)} deviations'}): "
                f"orders {s1} give [{_first_line(tuple(o1))}] but orders {s2} give "
                f"[{_first_line(tuple(o2))}]",
                {"part": 1, "name": r["name"], "src": CORPUS[r["name"]], "scripts": [s1, s2]})
    if errors:
        raise RuntimeError(f"{len(errors)} harness error(s) in C10 part 1, e.g. "
                           f"{errors[0]['name']}: {errors[0]['harness_error']}\n{errors[0]['tb']}")
    ctx.say(f"  [1] {cov['programs']} programs, {cov['states']} states, {cov['leaves']} complete "
            f"pipeline runs, cpu {cov['cpu']:.0f}s")
    del cov["cpu"]
    return cov


def r_k(r):
    return r["k"]


# ============================================================================ parts 2, 3


def part2_hashseed(ctx):
    """PLACEHOLDER — string-hashed sets (`check_rows_match`, `mono_params.pop()`,
    `unsolved_vars`): enumerate PYTHONHASHSEED values until every permutation of the
    relevant name set has been realised, compile under one seed per permutation."""
    return {}


def part3_fresh_process(ctx):
    """PLACEHOLDER — fresh processes with varied allocation history (sampled part)."""
    return {}


# ================================================================================= run


def run(ctx):
    import guppylang_internals.experimental as ex
    ex.enable_experimental_features()       # capturing closures (inherited by the forked workers)
    p1 = part1_worklists(ctx)
    from checks import c10b
    p2, p3 = c10b.run_parts(ctx, dict(CORPUS))
    from checks import c10c
    p4 = c10c.run_bbhash(ctx, dict(CORPUS), c10b.EXTRA)
    return {
        "states": p1["states"],
        "transitions": p1["transitions"],
        "traces_validated_against_impl": p1["leaves"],
        "evaluations": p1["programs"],
        "distinct_nontrivial": p1["nontrivial"],
        "rule": "evaluation = one corpus program explored under all worklist orders (bounded as stated); "
                "non-trivial = the explored state graph of the worklists branches (at least as many transitions "
                "as states, i.e. several orders were really explored)",
        "samples": p1["samples"],
        "programs_accepted_under_every_order": p1["accepted"],
        "programs_rejected_under_every_order": p1["rejected"],
        "programs_with_order_dependent_outcome": p1["order_dependent_programs"],
        "programs_explored_fully": p1["full"],
        "programs_explored_with_deviation_bound": p1["bounded"],
        "deviation_bound": BOUNDS[ctx.tier][1],
        "full_exploration_block_limit": BOUNDS[ctx.tier][0],
        "explored_invocations": p1["explored_invocations"],
        "pipeline_runs": p1["thunk_runs"],
        "strategy_crosschecks": p1["crosschecked"],
        "per_program": p1["per_program"],
        "part2_hashseed": p2,
        "part3_fresh_process": p3,
        "part4_block_set_orders": p4,
        "exhaustive": True,
    }


def replay(ctx, item):
    import guppylang_internals.experimental as ex
    ex.enable_experimental_features()
    if item.get("part") == 4:
        from checks import c10c
        return c10c.replay(ctx, item)
    if item.get("part") == 2:
        from checks import c10b
        return c10b.replay(ctx, item)
    from vlib import schedx
    src = item["src"]
    outs = []
    for script in item["scripts"]:
        o = schedx.run_with_schedule(lambda: schedx.pipeline_outcome(src, "main"),
                                     [tuple(w) for w in script])
        outs.append(o)
    return {"violation": len(set(outs)) > 1, "program": item.get("name"),
            "outcomes": [_first_line(o) for o in outs]}
