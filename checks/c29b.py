"""C29 part E — spans that come from the compiler, behind text that is not ASCII.

The grid of checks/c29.py hands Span objects to the renderer whose columns it chose itself.
The spans the compiler produces come from the Python AST, whose column offsets count
UTF-8 BYTES; the snippet is laid out in characters.  Product of
  prefix      text in front of the erroneous expression on the same line: none | a string
              literal of 2-, 3- and 4-byte characters, 1 or 20 of them | an identifier-free
              comment-like string argument | mixed
  position    the prefix in an earlier statement on the line (`s = "..."; ...`) | in an earlier
              argument of the same call | inside the erroneous expression itself
  error       operator type error on `(zq + "s")` | undefined name | wrong argument type
  extent      the erroneous node on one line | spanning two lines (prefix on the first line) |
              spanning two lines with the non-ASCII text on the LAST line
Every program is compiled by the real compiler, the GuppyError rendered with the real
renderer.  Oracle: (1) rendering returns; (2) on every displayed line of the primary span the
run of `^` stands exactly under the characters of the node's own text on that line (from the
node's first character on its first line, from column 0 on later lines, to its last character
on its last line), computed here from the AST's byte offsets on the UTF-8 encoded source line.
"""
from __future__ import annotations

import itertools

CHARS = {"ascii": "a", "2-byte": "ä", "3-byte": "日", "4-byte": "\U0001F600"}
COUNTS = (1, 20)
ERRORS = {
    "operator": ('(zq + "s")', "zq = 1"),
    "undefined": ("(undefined_name_q)", "zq = 1"),
    "argument": ('takes_int("s")', "zq = 1"),
}


def programs():
    out = []
    for (cn, ch), n, (en, (bad, setup)) in itertools.product(CHARS.items(), COUNTS, ERRORS.items()):
        txt = ch * n
        forms = {
            "earlier-statement": [f'{setup}; s = "{txt}"; r = {bad}'],
            "earlier-argument": [f"{setup}", f'r = two("{txt}", {bad})'],
            "two-lines-prefix-on-first": [f"{setup}", f'r = two("{txt}", ({bad},', "    2))"],
            "two-lines-text-on-last": [f"{setup}", f"r = two(1, ({bad},", f'    "{txt}", {bad}))'],
        }
        if en == "argument":
            # the reported node itself spans two lines and starts behind the text
            forms["two-line-node-behind-prefix"] = [f'{setup}; s = "{txt}"; r = takes_int((1,', "    2))"]
        if en == "operator":
            forms["inside-the-node"] = [f"{setup}", f'r = (zq + "{txt}")']
            forms["inside-the-node-two-lines"] = [f"{setup}", f'r = (zq +', f'     "{txt}")']
        for fn, lines in forms.items():
            out.append((f"{cn}x{n}:{en}:{fn}", lines))
    return out


HEADER = ("from guppylang import guppy\n\n@guppy\ndef takes_int(x: int) -> int:\n    return x\n\n"
          "@guppy.declare\ndef two(a: str, b: tuple[int, int]) -> int: ...\n\n")


def source(lines):
    return HEADER + "@guppy\ndef main() -> None:\n" + "\n".join("    " + l for l in lines) + "\n"


def eval_program(item):
    from guppylang_internals.diagnostic import DiagnosticsRenderer
    from guppylang_internals.engine import DEF_STORE
    from guppylang_internals.error import GuppyError
    from guppylang_internals.span import to_span
    from vlib import gload
    name, lines = item
    src = source(lines)
    mod = gload.load(src, name="c29e_" + str(abs(hash(name)) % 10 ** 8))
    try:
        try:
            mod.main.check()
            return {"bad": "program accepted (generator bug)", "cls": "harness"}
        except GuppyError as e:
            err = e.error
        except BaseException as e:  # noqa: BLE001
            return {"bad": f"compiler crashed: {type(e).__name__}: {e}"[:300], "cls": "compiler-crash"}
        span = to_span(err.span)
        r = DiagnosticsRenderer(DEF_STORE.sources)
        try:
            r.render_diagnostic(err)
        except BaseException as e:  # noqa: BLE001
            return {"bad": f"rendering raised {type(e).__name__}: {e}"[:300], "cls": "render-crash"}
        out = r.buffer
        # the file the span refers to and the text of the spanned node, per line, from the BYTE offsets of the AST
        file_lines = DEF_STORE.sources.sources[span.file] if hasattr(DEF_STORE.sources, "sources") else None
        want = {}
        for ln in range(span.start.line, span.end.line + 1):
            raw = file_lines[ln - 1].rstrip("\n").encode("utf-8")
            a = span.start.column if ln == span.start.line else 0       # later lines are spanned from their first column
            b = span.end.column if ln == span.end.line else len(raw)
            want[ln] = (len(raw[:a].decode("utf-8", "ignore")), raw[a:b].decode("utf-8", "ignore"))
        # rendered gutter lines "<n> | text" followed by a marker line
        shown = {}
        for i, l in enumerate(out):
            head, sep, text = l.partition(" | ")
            if sep and head.strip().isdigit() and i + 1 < len(out):
                nxt = out[i + 1]
                h2, s2, marks = nxt.partition(" | ")
                if s2 and not h2.strip() and set(marks.strip()[:1]) <= {"^"} and "^" in marks:
                    run_start = marks.index("^")
                    run = len(marks[run_start:]) - len(marks[run_start:].lstrip("^"))
                    shown[int(head)] = (text, run_start, run)
        if span.start.line not in shown:
            return {"bad": f"first line {span.start.line} of the span is not shown with a marker line; output: {out}"[:400], "cls": "first-line-not-marked"}
        for ln, (text, start, run) in shown.items():
            if ln not in want:
                continue
            col, seg = want[ln]
            file_text = file_lines[ln - 1].rstrip("\n")
            removed = len(file_text) - len(text)          # leading whitespace the renderer stripped (0 here)
            under = text[start:start + run]
            if under != seg:
                return {"bad": f"line {ln}: markers stand under {under!r} (columns {start}..{start + run}) but the node's text on that line is "
                               f"{seg!r} (character column {col - removed}); source line: {file_text!r}", "cls": "markers-not-under-the-node"}
        return {"bad": None, "cls": "", "lines": len(shown)}
    finally:
        gload.unload(mod)


def run_part(ctx):
    progs = programs()
    res = ctx.pmap(eval_program, progs, chunk=8)
    ok = 0
    for (name, lines), r in zip(progs, res):
        if r["cls"] == "harness":
            raise RuntimeError(f"C29 part E generator: {name}: {r['bad']}\n{source(lines)}")
        if r["bad"]:
            cn, en, fn = name.split(":")
            kind = "ascii" if cn.startswith("ascii") else "non-ascii"
            ctx.violation(f"compiler-span:{r['cls']}:{kind}", f"{name}: {r['bad']}", {"part": "E", "name": name, "lines": lines})
        else:
            ok += 1
    return {"compiler_span_programs": len(progs), "compiler_span_programs_faithful": ok}


def replay(ctx, item):
    r = eval_program((item["name"], item["lines"]))
    return {"violation": bool(r["bad"]), "result": r, "source": source(item["lines"])}
