"""C28 — Emulator configurations are immutable and reproducible.

History exploration on REAL guppylang.emulator.instance.EmulatorInstance objects.

The Selene instance behind an EmulatorInstance is replaced by a recording stub whose
`run_shots(**kw)` computes the EFFECTIVE configuration exactly as Selene would: it
calls the real static helper `selene_sim.instance.SeleneInstance._get_component_config
(component, random_seed)` for simulator / error model / runtime (selene_sim 0.3.2
instance.py:77-99: a component's own `random_seed` wins, the per-run `random_seed`
argument is only the default), and records it together with shots, shot offset /
increment, n_qubits, n_processes, timeout, ... and the identity of the component objects.

Events (each applied to ANY instance created so far, pool <= 4, results of further
derivations are still executed but not tracked):
  with_seed(None|1|2)  with_shots(1|2)  with_shot_offset(0|1)  with_simulator(fresh Quest())
  statevector_sim()  stabilizer_sim()  coinflip_sim()  [ext: with_error_model(fresh)
  with_runtime(fresh)]  run()
All histories to the depth bound are enumerated; every history is rebuilt from a fresh
root (no deepcopy).  After every event of a history every tracked instance is observed
(observation = what run() hands to Selene, + the instance's option fields).

Invariants (statement only)
  (i)  an event never changes the observation or the option fields of an instance that
       existed before the event (deriving never changes an earlier configuration);
  (ii) for an instance with a fixed seed (x.seed is not None) the effective seeds are
       the same on every run whatever was derived or run in between  — the same
       one-step comparison, reported with the suffix ':seeded'.
Every reported witness is re-verified without any observation probes: exactly one
run(x) right after x was created and one at the end of the history.

Conformance (thorough tier): a coin-flip program is compiled by the installed guppylang
1.0.4 in a helper process (no /repo on its path), built with /repo's real
EmulatorBuilder.build and run through /repo's real EmulatorInstance.run on real Selene.
Real shot results must be identical whenever the stub says the effective configuration
of two seeded runs is identical; the minimal witnesses are replayed on real Selene too.
"""
from __future__ import annotations

import dataclasses
import hashlib

ID = "C28"
LEVEL = "model_checking"

POOL_MAX = 4
BASE = ([("seed", s) for s in (None, 1, 2)] + [("shots", n) for n in (1, 2)] + [("offset", o) for o in (0, 1)]
        + [("simobj", None), ("simshared", None), ("simseeded", None), ("sv", None), ("stab", None), ("coin", None)])
EXT = BASE + [("errm", None), ("rt", None)]
METHOD = {"seed": "with_seed", "shots": "with_shots", "offset": "with_shot_offset", "simobj": "with_simulator",
          "simshared": "with_simulator", "simseeded": "with_simulator",
          "sv": "statevector_sim", "stab": "stabilizer_sim", "coin": "coinflip_sim", "errm": "with_error_model",
          "rt": "with_runtime", "run": "run", "runfail": "run-that-fails"}
RUNS = ("run", "runfail")      # events that do not create an instance

OBS_FIELDS = ("simulator_object", "simulator_effective", "error_model_object", "error_model_effective",
              "runtime_object", "runtime_effective", "n_qubits", "n_shots", "shot_offset", "shot_increment",
              "n_processes", "verbose", "timeout", "results_logfile", "event_hook_object",
              "default_seed_argument", "other_arguments")

_CFG_MEMO: dict = {}
_OPT_FIELDS = None
_SCALARS = (int, float, str, bool)


def effective(component, default_seed):
    """(plugin name, init args, effective seed) computed by Selene's own helper."""
    from selene_sim.instance import SeleneInstance
    try:
        key = (type(component), tuple(sorted(vars(component).items())), default_seed)
        hash(key)
    except TypeError:
        key = None
    if key is not None and key in _CFG_MEMO:
        return _CFG_MEMO[key]
    cfg = SeleneInstance._get_component_config(component, default_seed)
    out = (cfg["name"], tuple(cfg["args"]), cfg.get("seed"))
    if key is not None:
        _CFG_MEMO[key] = out
    return out


class Stub:
    """Stands in for selene_sim.instance.SeleneInstance; optionally tees into a real one."""

    def __init__(self, world, real=None):
        self.world = world
        self.real = real
        self.last = None
        self.calls = 0
        self.fail_next = False

    def run_shots(self, **kw):
        self.calls += 1
        w = self.world
        seed = kw.get("random_seed")
        known = {"simulator", "runtime", "n_qubits", "n_shots", "event_hook", "error_model", "verbose", "timeout",
                 "results_logfile", "random_seed", "shot_offset", "shot_increment", "n_processes"}
        sim, em, rt = kw["simulator"], kw["error_model"], kw["runtime"]
        self.last = (
            w.label(sim), effective(sim, seed), w.label(em), effective(em, seed), w.label(rt), effective(rt, seed),
            kw.get("n_qubits"), kw.get("n_shots"), kw.get("shot_offset"), kw.get("shot_increment"),
            kw.get("n_processes"), kw.get("verbose"), repr(kw.get("timeout")), repr(kw.get("results_logfile")),
            w.label(kw.get("event_hook")), seed,
            tuple(sorted((k, repr(v)) for k, v in kw.items() if k not in known)),
        )
        if self.real is not None:
            return self.real.run_shots(**kw)
        eff = self.last[1][2]
        if self.fail_next:
            # the LAST shot of this run dies after its first entry (a panic in the program, a simulator error)
            self.fail_next = False

            def dying():
                yield ("eff_seed", -1 if eff is None else eff)
                raise RuntimeError("shot failed (injected by the C28 stub)")

            n = int(kw.get("n_shots") or 0)
            return iter([iter([("eff_seed", -1 if eff is None else eff)]) for _ in range(max(n - 1, 0))] + [dying()])
        return iter([iter([("eff_seed", -1 if eff is None else eff)]) for _ in range(int(kw.get("n_shots") or 0))])


class ResultMismatch(Exception):
    """run() returned results that no run of this configuration produces."""


def _mk_component(kind):
    if kind == "simobj":
        from selene_sim.backends.bundled_simulators import Quest
        return Quest()
    if kind == "simseeded":
        # same class as `simobj`, different settings: a simulator with its OWN seed (which wins over the
        # configuration's seed)
        from selene_sim.backends.bundled_simulators import Quest
        return Quest(random_seed=99)
    if kind == "errm":
        try:
            from selene_depolarizing_error_model_plugin import DepolarizingPlugin
            return DepolarizingPlugin()
        except ImportError:
            from selene_sim.backends.bundled_error_models import IdealErrorModel
            return IdealErrorModel()
    if kind == "rt":
        from selene_sim.backends.bundled_runtimes import SimpleRuntime
        return SimpleRuntime()
    raise ValueError(kind)


class World:
    """One fresh heap: a root EmulatorInstance and everything derived from it."""

    def __init__(self, real_root=None):
        from guppylang.emulator.instance import EmulatorInstance
        self.objs = []
        self.keep = []
        if real_root is None:
            self.stub = Stub(self)
            root = EmulatorInstance(_instance=self.stub, _n_qubits=2)
        else:
            self.stub = Stub(self, real=real_root._instance)
            from guppylang.emulator.instance import _Options
            root = dataclasses.replace(real_root, _instance=self.stub, _options=_Options())
        self.pool = [root]
        self.created = [-1]
        self.step = 0
        self._label_all(root)

    def _label_all(self, x):
        """Label the component objects of an instance as soon as it exists, so that labels
        do not depend on when observations are taken."""
        o = x._options
        for f in dataclasses.fields(o):
            v = getattr(o, f.name)
            if v is not None and type(v) not in _SCALARS and hasattr(v, "__dict__"):
                self.label(v)

    def label(self, obj):
        if obj is None:
            return None
        for i, o in enumerate(self.objs):
            if o is obj:
                return f"{type(obj).__name__}#{i}"
        self.objs.append(obj)
        return f"{type(obj).__name__}#{len(self.objs) - 1}"

    def apply(self, ev):
        kind, arg, i = ev
        x = self.pool[i]
        self.step += 1
        if kind == "run":
            return x.run()
        if kind == "runfail":
            from guppylang.emulator.exceptions import EmulatorError
            self.stub.fail_next = True
            try:
                x.run()
            except EmulatorError:
                self.failed_runs = getattr(self, "failed_runs", 0) + 1
            finally:
                self.stub.fail_next = False
            return None
        if kind == "seed":
            new = x.with_seed(arg)
        elif kind == "shots":
            new = x.with_shots(arg)
        elif kind == "offset":
            new = x.with_shot_offset(arg)
        elif kind in ("simobj", "simseeded"):
            new = x.with_simulator(_mk_component(kind))
        elif kind == "simshared":
            # ONE user-owned simulator object handed to several configurations
            if getattr(self, "shared_sim", None) is None:
                self.shared_sim = _mk_component("simobj")
            new = x.with_simulator(self.shared_sim)
        elif kind == "errm":
            new = x.with_error_model(_mk_component(kind))
        elif kind == "rt":
            new = x.with_runtime(_mk_component(kind))
        elif kind == "sv":
            new = x.statevector_sim()
        elif kind == "stab":
            new = x.stabilizer_sim()
        elif kind == "coin":
            new = x.coinflip_sim()
        else:
            raise ValueError(kind)
        self._label_all(new)
        if len(self.pool) < POOL_MAX:
            self.pool.append(new)
            self.created.append(self.step - 1)
        else:
            self.keep.append(new)
        return None

    def observe(self, x):
        """What run(x) hands to Selene right now (via the real run() path)."""
        self.stub.last = None
        res = x.run()
        if self.stub.last is None:
            # run() answered without running the simulator (a cache?).  The stub cannot attest such a run, but the
            # returned results carry the effective seed of the run that produced them: it must be this
            # configuration's (own seed of the simulator, else the configured seed)
            got = sorted({v for shot in res.results for k, v in shot.entries if k == "eff_seed"})
            own = vars(x.simulator).get("random_seed") if x.simulator is not None else None
            exp = own if own is not None else x.seed
            if got != [-1 if exp is None else exp]:
                raise ResultMismatch(f"run() did not run the simulator and returned results produced with effective seed(s) {got}, "
                                     f"this configuration's effective seed is {exp}")
            # consistent with the configuration: accepted, but the stub cannot attest what was handed to Selene
            self.unattested = getattr(self, "unattested", 0) + 1
            return tuple(x.seed if i == 15 else "unattested-run" for i in range(len(OBS_FIELDS))), res
        return self.stub.last, res

    def fields(self, x):
        global _OPT_FIELDS
        if _OPT_FIELDS is None:
            _OPT_FIELDS = tuple(f.name for f in dataclasses.fields(x._options))
        out = [("_n_qubits", x._n_qubits), ("_instance", "stub" if x._instance is self.stub else "OTHER")]
        o = x._options
        for name in _OPT_FIELDS:
            v = getattr(o, name)
            if v is None or type(v) in _SCALARS:
                out.append((name, v))
            elif hasattr(v, "__dict__"):
                out.append((name, self.label(v)))
            else:
                out.append((name, repr(v)))
        return tuple(out)

    def snapshot(self):
        """[(obs, fields)] for every tracked instance."""
        return [(self.observe(x)[0], self.fields(x)) for x in self.pool]

    def state_key(self, snap):
        """Canonical form of everything reachable from the tracked instances: objects are
        renamed in order of first appearance, so the key does not depend on the history."""
        canon: dict = {}
        heap = []

        def c(v):
            if type(v) is str and "#" in v:
                if v not in canon:
                    canon[v] = len(canon)
                    o = self.objs[int(v.rsplit("#", 1)[1])]
                    heap.append((type(o).__name__, tuple(sorted(vars(o).items()))))
                return canon[v]
            return v

        body = tuple((tuple(c(v) for v in obs), tuple((k, c(v)) for k, v in flds)) for obs, flds in snap)
        try:
            # PYTHONHASHSEED is pinned by bin/check; only the NUMBER of distinct keys is reported
            return hash((body, tuple(heap)))
        except TypeError:
            return int(hashlib.sha1(repr((body, heap)).encode()).hexdigest()[:15], 16)


def ev_text(ev):
    kind, arg, i = ev
    a = "" if kind in ("run", "runfail", "sv", "stab", "coin") else ("<fresh>" if arg is None and kind != "seed" else repr(arg))
    return f"c{i}.{METHOD[kind]}({a})"


def hist_text(h):
    return "; ".join(ev_text(tuple(e)) for e in h)


def diff_fields(a, b, names):
    return [n for n, u, v in zip(names, a, b) if u != v]


def compare_step(before, after, ev, violations, stats):
    """One-step comparison of every instance that existed before the event.  Appends
    (key, idx, changed-fields text, before text, after text)."""
    kind = ev[0]
    what = "run" if kind in RUNS else "derive"
    for idx, (b, a) in enumerate(zip(before, after)):
        (ob, fb), (oa, fa) = b, a
        seeded = ob[15] is not None          # default_seed_argument == x.seed
        if ob != oa and "unattested-run" not in (ob[0], oa[0]):
            fs = diff_fields(ob, oa, OBS_FIELDS)
            key = f"{what}-changes-earlier-config:by-{METHOD[kind]}:{'seeded' if seeded else 'unseeded'}"
            violations.append((key, idx, ",".join(fs), "; ".join(f"{f}={ob[OBS_FIELDS.index(f)]!r}" for f in fs),
                               "; ".join(f"{f}={oa[OBS_FIELDS.index(f)]!r}" for f in fs)))
            if seeded:
                stats["seeded_reproducibility_breaks"] += 1
        elif fb != fa:
            # option fields that run() does not hand to Selene (e.g. the progress-bar flag)
            names = [n for n, _ in fb]
            fs = diff_fields([v for _, v in fb], [v for _, v in fa], names)
            key = f"{what}-changes-earlier-fields:by-{METHOD[kind]}"
            violations.append((key, idx, ",".join(fs), "; ".join(f"{f}={dict(fb)[f]!r}" for f in fs),
                               "; ".join(f"{f}={dict(fa)[f]!r}" for f in fs)))


def creation_step(history, idx):
    """Index of the event that created tracked instance idx (-1 for the root)."""
    if idx == 0:
        return -1
    n = 0
    for j, ev in enumerate(history):
        if ev[0] not in RUNS and n + 1 < POOL_MAX:
            n += 1
            if n == idx:
                return j
    raise ValueError((history, idx))


def verify_minimal(history, idx, real_root=None):
    """Probe-free scenario for a witness whose LAST event is the culprit:
    <history[:-1]>; r1 = run(x); <last event>; r2 = run(x).
    Returns (changed observation fields, changed option fields, obs1, obs2, results 1, 2)."""
    w = World(real_root)
    for ev in history[:-1]:
        w.apply(tuple(ev))
    x = w.pool[idx]
    f1 = w.fields(x)
    o1, r1 = w.observe(x)
    w.apply(tuple(history[-1]))
    o2, r2 = w.observe(x)
    f2 = w.fields(x)
    return (diff_fields(o1, o2, OBS_FIELDS),
            diff_fields([v for _, v in f1], [v for _, v in f2], [n for n, _ in f1]), o1, o2, r1, r2)


# ------------------------------------------------------------------ enumeration
def events_for(alphabet, pool_size):
    out = []
    for i in range(pool_size):
        for kind, arg in alphabet:
            out.append((kind, arg, i))
        out.append(("run", None, i))
        out.append(("runfail", None, i))
    return out


def pool_after(prefix):
    n = 1
    for ev in prefix:
        if ev[0] not in RUNS and n < POOL_MAX:
            n += 1
    return n


def prefixes(alphabet, length):
    out = [()]
    for _ in range(length):
        nxt = []
        for p in out:
            for ev in events_for(alphabet, pool_after(p)):
                nxt.append(p + (ev,))
        out = nxt
    return out


def leaves_below(alphabet, prefix, depth):
    """DFS generator of all histories of exactly `depth` events extending prefix."""
    if len(prefix) == depth:
        yield prefix
        return
    for ev in events_for(alphabet, pool_after(prefix)):
        yield from leaves_below(alphabet, prefix + (ev,), depth)


def _explore_subtree(args):
    """Worker: replay every leaf below one prefix; nodes shared with the previous leaf
    are not re-checked (same deterministic replay)."""
    alph_name, prefix, depth = args
    alphabet = BASE if alph_name == "base" else EXT
    stats = {"leaves": 0, "transitions": 0, "observations": 0, "seeded_reproducibility_breaks": 0,
             "nontrivial": 0, "shared_sim_mutated_no_effect": 0, "seeded_instances_observed": 0}
    states = set()
    found = {}           # key -> [count, (len, history), idx, field, before, after]
    impure = set()
    prev = None
    cache = (None, None)     # (history prefix, snapshot taken after it) of the previous leaf
    for leaf in leaves_below(alphabet, tuple(prefix), depth):
        if prev is None:
            c = len(prefix)      # edges of the prefix itself are checked by _upper_edges
        else:
            c = 0
            while c < depth and prev[c] == leaf[c]:
                c += 1
        prev = leaf
        stats["leaves"] += 1
        w = World()
        try:
            for ev in leaf[:c]:
                w.apply(ev)
            if cache[0] == leaf[:c]:
                snap = cache[1]          # same deterministic prefix: observed while replaying the previous leaf
            else:
                snap = w.snapshot()
                stats["observations"] += len(snap)
        except ResultMismatch as e:
            _note(found, "run-returns-results-of-another-configuration", leaf[:c], 0, "results", "", str(e))
            prev = None
            cache = (None, None)
            continue
        for j in range(c, depth):
            ev = leaf[j]
            if j == depth - 1:
                cache = (leaf[:j], snap)
            own_before = [vars(o).get("random_seed", None) for o in w.objs]
            try:
                w.apply(ev)
                after = w.snapshot()
            except ResultMismatch as e:
                _note(found, "run-returns-results-of-another-configuration", leaf[:j + 1], 0, "results", "", str(e))
                break
            stats["observations"] += len(after)
            stats["transitions"] += 1
            states.add(w.state_key(after))
            vio = []
            compare_step(snap, after, ev, vio, stats)
            if not vio and own_before != [vars(o).get("random_seed", None) for o in w.objs[:len(own_before)]]:
                stats["shared_sim_mutated_no_effect"] += 1
            for key, idx, f, b, a in vio:
                if key.startswith("derive-") and (key in impure or (key not in found and _probe_impure(leaf[:j], idx))):
                    # the observation itself (a run) changes what the next run does: blame run(), not
                    # the derivation that happened to sit between two observations
                    impure.add(key)
                    key = "run-changes-earlier-config:by-run:" + key.rsplit(":", 1)[1] if "-config:" in key \
                        else "run-changes-earlier-fields:by-run"
                    _note(found, key, leaf[:j] + (("run", None, idx),), idx, f, b, a)
                    continue
                _note(found, key, leaf[:j + 1], idx, f, b, a)
            snap = after
        # non-trivial history: some instance is (re)used after a sibling/child was derived from it or its ancestor
        if any(e[0] not in RUNS for e in leaf[:-1]):
            stats["nontrivial"] += 1
        stats["seeded_instances_observed"] += sum(1 for o, _ in snap if o[15] is not None)
    return stats, sorted(states), found


def _probe_impure(history, idx):
    """True if two consecutive runs of instance idx after `history` are observed differently."""
    w = World()
    for ev in history:
        w.apply(ev)
    x = w.pool[idx]
    try:
        a = (w.observe(x)[0], w.fields(x))
        b = (w.observe(x)[0], w.fields(x))
    except ResultMismatch:
        return False
    return a != b


def _note(found, key, hist, idx, f, b, a, count=1):
    """Keep the shortest (then lexicographically first) witness per key."""
    cand = (len(hist), repr(hist))
    if key not in found:
        found[key] = [count, cand, idx, f, str(b), str(a), hist]
    else:
        found[key][0] += count
        if cand < found[key][1]:
            found[key][1:] = [cand, idx, f, str(b), str(a), hist]


def explore(ctx, plan, agg):
    """All plans in ONE fork pool; work items are subtrees below prefixes of length depth-2."""
    items = []
    for alph_name, depth in plan:
        alphabet = BASE if alph_name == "base" else EXT
        items += [(alph_name, p, depth) for p in prefixes(alphabet, max(1, depth - 2))]
    for stats, states, found in ctx.pmap(_explore_subtree, items, chunk=1, recycle=100000):
        for k, v in stats.items():
            agg["stats"][k] = agg["stats"].get(k, 0) + v
        agg["states"].update(states)
        for key, rec in found.items():
            if key not in agg["found"]:
                agg["found"][key] = rec
            else:
                cur = agg["found"][key]
                cur[0] += rec[0]
                if rec[1] < cur[1]:
                    cur[1:] = rec[1:]
    return len(items)


def _upper_edges(args):
    """Edges of the tree above the work-item prefixes (depth < plen), each checked once."""
    alph_name, path = args
    stats = {"seeded_reproducibility_breaks": 0}
    w = World()
    try:
        for ev in path[:-1]:
            w.apply(ev)
        snap = w.snapshot()
        w.apply(path[-1])
        after = w.snapshot()
    except ResultMismatch as e:
        return path, [("run-returns-results-of-another-configuration", 0, "results", "", str(e))], ("mismatch", repr(path))
    vio = []
    compare_step(snap, after, path[-1], vio, stats)
    return path, vio, w.state_key(after)


# ------------------------------------------------------------------ conformance
HELPER = r'''
import sys, base64
from guppylang import guppy
from guppylang.std.quantum import qubit, h, measure
from guppylang.std.builtins import result
@guppy
def main() -> None:
    for i in range(16):
        q = qubit()
        h(q)
        result("c", measure(q).read())
sys.stdout.write("PKG:" + base64.b64encode(main.compile().to_bytes()).decode())
'''

CONF = [("seed", 1), ("seed", 2), ("seed", None), ("coin", None), ("stab", None), ("shots", 2)]


def _bits(res):
    return ["".join(str(int(v)) for _, v in shot.entries) for shot in res.results]


def conformance(ctx, witnesses):
    import base64
    import os
    import shutil
    import subprocess
    import tempfile
    import time
    from pathlib import Path
    out = {}
    tmp = tempfile.mkdtemp(prefix="c28_selene_")
    t0 = time.time()
    try:
        env = {k: v for k, v in os.environ.items() if k not in ("PYTHONPATH", "CQCL_GUPPYLANG_VERIF")}
        helper = Path(tmp) / "c28_helper.py"     # @guppy needs the source in a real file
        helper.write_text(HELPER)
        p = subprocess.run(["/venv/bin/python", str(helper)], env=env, capture_output=True, text=True,
                           timeout=300, cwd=tmp)
        if p.returncode != 0 or "PKG:" not in p.stdout:
            return {"conformance": "skipped: helper (installed guppylang 1.0.4) failed: " + p.stderr[-300:]}
        from hugr.package import Package
        from guppylang.emulator.builder import EmulatorBuilder
        pkg = Package.from_bytes(base64.b64decode(p.stdout.split("PKG:", 1)[1]))
        try:
            real_root = EmulatorBuilder().with_build_dir(Path(tmp) / "build").build(pkg, n_qubits=2)
        except Exception as e:  # noqa: BLE001
            return {"conformance": f"skipped: selene build failed: {type(e).__name__}: {str(e)[:300]}"}
        out["conformance_build_s"] = round(time.time() - t0, 1)
        # ---- (a) stub-equal effective configuration => equal real results (seeded only)
        groups: dict = {}
        hs = [()]
        for n in range(1, 4):
            hs += [h for h in _conf_histories(n)]
        for h in hs:
            w = World()
            for ev in h:
                w.apply(ev)
            for idx, x in enumerate(w.pool):
                o = w.observe(x)[0]
                if o[15] is None:
                    continue
                eff = tuple(v for n, v in zip(OBS_FIELDS, o) if not n.endswith("_object") and n != "default_seed_argument")
                groups.setdefault(eff, []).append((h, idx))
        picked = []
        for eff, members in groups.items():
            seen_h = []
            for h, idx in members:            # first 2 members from different histories
                if h not in seen_h:
                    seen_h.append(h)
                    picked.append((eff, h, idx))
                if len(seen_h) == 2:
                    break
        results: dict = {}
        runs = 0
        for eff, h, idx in picked:
            w = World(real_root)
            for ev in h:
                w.apply(ev)
            x = w.pool[idx]
            o1, r1 = w.observe(x)
            o2, r2 = w.observe(x)
            runs += 2
            b1, b2 = _bits(r1), _bits(r2)
            if b1 != b2:
                ctx.violation("real-selene:seeded-run-not-repeatable",
                              f"real Selene: {hist_text(h)}; two consecutive runs of c{idx} (seed {o1[15]}) gave "
                              f"{b1} and {b2}", {"mode": "real-repeat", "history": [list(e) for e in h], "idx": idx})
            results.setdefault(eff, []).append((h, idx, b1))
        mismatching_groups = 0
        for eff, lst in results.items():
            if len({tuple(b) for _, _, b in lst}) > 1:
                mismatching_groups += 1
                (h1, i1, b1), (h2, i2, b2) = lst[0], next(t for t in lst if t[2] != lst[0][2])
                ctx.violation("real-selene:equal-effective-config-different-results",
                              f"stub says equal effective configuration {eff} but real Selene gives {b1} after "
                              f"[{hist_text(h1)}] (c{i1}) and {b2} after [{hist_text(h2)}] (c{i2}): the stub's "
                              f"notion of effective configuration does not determine real behaviour",
                              {"mode": "real-group", "h1": [list(e) for e in h1], "i1": i1,
                               "h2": [list(e) for e in h2], "i2": i2})
        distinct_results = len({tuple(lst[0][2]) for lst in results.values()})
        out.update({"conformance": "done", "conformance_effective_configs": len(groups),
                    "conformance_histories": len(hs), "conformance_real_runs": runs,
                    "conformance_groups_with_mismatch": mismatching_groups,
                    "conformance_distinct_real_results": distinct_results})
        # ---- (b) the minimal witnesses on real Selene (informational: the violation is
        # already established on the real EmulatorInstance; this shows the user-visible effect)
        shown = []
        for key, rec in sorted(witnesses.items()):
            h, idx = rec[6], rec[2]
            if len(h) > 3 or not key.endswith(":seeded"):
                continue
            _, _, o1, o2, r1, r2 = verify_minimal(h, idx, real_root)
            shown.append({"key": key, "history": hist_text(h), "instance": f"c{idx}", "seed": o1[15],
                          "first_run": _bits(r1), "run_after_history": _bits(r2),
                          "real_results_changed": _bits(r1) != _bits(r2)})
            runs += 2
        out["witnesses_on_real_selene"] = shown
        out["conformance_real_runs"] = runs
        out["conformance_wall_s"] = round(time.time() - t0, 1)
        return out
    finally:
        shutil.rmtree(tmp, ignore_errors=True)


def _conf_histories(n):
    out = [()]
    for _ in range(n):
        nxt = []
        for p in out:
            ps = min(pool_after(p), 3)
            for i in range(ps):
                for kind, arg in CONF:
                    nxt.append(p + ((kind, arg, i),))
        out = nxt
    return out


# --------------------------------------------------------------------------- run
def run(ctx):
    quick = ctx.quick
    plan = [("base", 4), ("ext", 3)] if quick else [("base", 5), ("ext", 4)]
    agg = {"stats": {}, "states": set(), "found": {}}
    w0 = World()
    agg["states"].add(w0.state_key(w0.snapshot()))      # the root state
    upper_checked = 0
    explore(ctx, plan, agg)
    for alph_name, depth in plan:
        alphabet = BASE if alph_name == "base" else EXT
        plen = max(1, depth - 2)
        # edges above the work-item prefixes (a worker starts checking below its prefix):
        # every edge of depth <= plen is checked here, once, in the parent
        for n in range(1, plen + 1):
            for p in prefixes(alphabet, n):
                path, vio, sk = _upper_edges((alph_name, p))
                upper_checked += 1
                agg["states"].add(sk)
                agg["stats"]["transitions"] = agg["stats"].get("transitions", 0) + 1
                for key, idx, f, b, a in vio:
                    if key.startswith("derive-") and _probe_impure(path[:-1], idx):
                        key = "run-changes-earlier-config:by-run:" + key.rsplit(":", 1)[1] if "-config:" in key \
                            else "run-changes-earlier-fields:by-run"
                        path = path[:-1] + (("run", None, idx),)
                    _note(agg["found"], key, path, idx, f, b, a)
    ctx.say(f"C28 {plan}: leaves {agg['stats'].get('leaves', 0)}, states {len(agg['states'])}, "
            f"violation keys {len(agg['found'])}")

    # report: every witness re-verified without probes
    unverified = 0
    samples = []
    for key, rec in sorted(agg["found"].items()):
        count, _, idx, f, b, a, h = rec
        ofs, ffs, o1, o2, _, _ = verify_minimal(h, idx)
        if not ofs and not ffs:
            unverified += 1
            what = f"[only with observation runs in between] {hist_text(h)}: c{idx} changed: {b} -> {a}"
        else:
            seeded = o1[15] is not None
            pre = hist_text(h[:-1])
            what = (f"{pre + '; ' if pre else ''}r1 = c{idx}.run(); {ev_text(tuple(h[-1]))}; r2 = c{idx}.run()  =>  "
                    f"c{idx} (seed={o1[15]}) ran with [{b}] for r1 but with [{a}] for r2"
                    + (" — a configuration with a fixed seed does not reproduce" if seeded and ofs else ""))
        ctx.violation(key, what, {"mode": "minimal", "history": [list(e) for e in h], "idx": idx, "field": f})
        if len(samples) < 4:
            samples.append({"key": key, "history": hist_text(h), "instance": f"c{idx}", "field": f,
                            "before": b, "after": a, "occurrences": count})
        ctx.violations[key]["count"] = count
    st = agg["stats"]
    cov = {
        "states": len(agg["states"]),
        "transitions": st.get("transitions", 0),
        "traces_validated_against_impl": st.get("leaves", 0),
        "samples": samples or [{"history": hist_text((("seed", 1, 0), ("shots", 2, 1), ("run", None, 0)))}],
        "evaluations": st.get("observations", 0),
        "distinct_nontrivial": st.get("nontrivial", 0),
        "rule": "non-trivial history = at least one derivation happens before the last event (so an earlier "
                "configuration exists that can be affected)",
        "plan": [f"{a}:depth{d}" for a, d in plan],
        "pool_max": POOL_MAX,
        "events_per_instance_base": len(BASE) + 1, "events_per_instance_ext": len(EXT) + 1,
        "upper_edges_checked": upper_checked,
        "seeded_instances_observed": st.get("seeded_instances_observed", 0),
        "seeded_reproducibility_breaks": st.get("seeded_reproducibility_breaks", 0),
        "shared_component_seed_mutated_without_behaviour_change_not_a_violation":
            st.get("shared_sim_mutated_no_effect", 0),
        "witnesses_only_reproducible_with_probe_runs": unverified,
        "effective_seed_rule": "selene_sim.instance.SeleneInstance._get_component_config (real helper, called)",
    }
    if not quick:
        cov.update(conformance(ctx, agg["found"]))
    else:
        cov["conformance"] = "thorough tier only"
    from checks import c28b
    cov.update(c28b.run_part(ctx))
    return cov


def replay(ctx, item):
    if item.get("part") == "builder":
        from checks import c28b
        return c28b.replay(ctx, item)
    mode = item.get("mode")
    if mode == "minimal":
        h = tuple(tuple(e) for e in item["history"])
        fields, ffs, o1, o2, _, _ = verify_minimal(h, item["idx"])
        w = World()
        snap = w.snapshot()
        vio = []
        for ev in h:
            w.apply(ev)
            after = w.snapshot()
            compare_step(snap, after, ev, vio, {"seeded_reproducibility_breaks": 0})
            snap = after
        return {"violation": bool(fields) or bool(ffs) or bool(vio), "changed_fields_probe_free": fields + ffs,
                "run1": dict(zip(OBS_FIELDS, map(str, o1))), "run2": dict(zip(OBS_FIELDS, map(str, o2))),
                "stepwise": [v[0] for v in vio]}
    return {"violation": False, "note": "real-Selene items are re-run by the thorough tier only"}
