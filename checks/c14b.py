"""C14 part 3: drops of values whose type mentions a TYPE VARIABLE, several generic
functions per module.

Inside a generic function the compiler sees `T`, `Option[T]`, `tuple[T, int]`,
`array[T, 2]` with T a variable whose copy/drop bound is all that is known.  One module
is built per (shape of a copyable-variable function, shape of an affine-variable function,
call order, arrangement): both functions leave their parameter unused.  The variables have
the SAME index in their functions and different bounds, which is exactly what a cache keyed
on the printed HUGR type would confuse.  Oracle: the program is accepted, the HUGR
validates, and every function whose unused parameter is droppable-not-copyable contains
>= 1 `tket.guppy.drop`.
"""
from __future__ import annotations

import itertools

HEAD = '''
from guppylang.std.option import Option

C = guppy.type_var("C", copyable=True, droppable=True)
A = guppy.type_var("A", copyable=False, droppable=True)
C2 = guppy.type_var("C2", copyable=True, droppable=True)
A2 = guppy.type_var("A2", copyable=False, droppable=True)
'''

# shape -> (type text with {T}, is the shape copyable when T is copyable)
SHAPES = {
    "var": ("{T}", True),
    "option": ("Option[{T}]", True),
    "tuple": ("tuple[{T}, int]", True),
    "tuple-nested": ("tuple[int, tuple[{T}, bool]]", True),
    "array": ("array[{T}, 2]", False),
    "option-array": ("Option[array[{T}, 2]]", False),
}
AFF = "array[int, 3]"


def _own(copyable):
    return "" if copyable else " @owned"


def program(item):
    """item = (cshape, ashape, order, arrangement) -> (source, {function: min drops})"""
    cs, as_, order, arr = item
    ct, ccopy = SHAPES[cs]
    at, _ = SHAPES[as_]
    need = {}
    if arr == "two-functions":
        fns = (f"@guppy\ndef ign(x: {ct.format(T='C')}{_own(ccopy)}) -> None:\n    pass\n\n"
               f"@guppy\ndef eat(y: {at.format(T='A')} @owned) -> None:\n    pass\n\n")
        calls = ["ign(p)", "eat(q)"]
        need["eat"] = 1
        if not ccopy:
            need["ign"] = 1
    elif arr == "swapped-binders":
        # both[C, A] and both2[A2, C2]: index 0 is copyable in one and affine in the other
        fns = (f"@guppy\ndef ign(x: {ct.format(T='C')}{_own(ccopy)}, y: {at.format(T='A')} @owned) -> None:\n    pass\n\n"
               f"@guppy\ndef eat(y: {at.format(T='A2')} @owned, x: {ct.format(T='C2')}{_own(ccopy)}) -> None:\n    pass\n\n")
        calls = ["ign(p, q)", "eat(q2, p2)"]
        need["ign"] = need["eat"] = 2 if not ccopy else 1
    elif arr == "local-rebinding":
        # the unused value is a LOCAL that is overwritten (drop of the first value) in both functions
        fns = (f"@guppy\ndef ign(x: {ct.format(T='C')}{_own(ccopy)}, z: {ct.format(T='C')}{_own(ccopy)}) -> None:\n    v = x\n    v = z\n\n"
               f"@guppy\ndef eat(y: {at.format(T='A')} @owned, z: {at.format(T='A')} @owned) -> None:\n    v = y\n    v = z\n\n")
        calls = ["ign(p, p2)", "eat(q, q2)"]
        need["eat"] = 2
        if not ccopy:
            need["ign"] = 2
    else:
        raise ValueError(arr)
    if order == "affine-first":
        calls.reverse()
    pt, qt = ct.format(T="int"), at.format(T=AFF)
    src = (HEAD + fns + f"@guppy\ndef main(p: {pt}{_own(ccopy)}, p2: {pt}{_own(ccopy)}, q: {qt} @owned, q2: {qt} @owned) -> None:\n"
           + "".join(f"    {c}\n" for c in calls))
    return src, need


def items():
    return [(c, a, o, r) for r in ("two-functions", "swapped-binders", "local-rebinding")
            for c, a in itertools.product(SHAPES, SHAPES) for o in ("copyable-first", "affine-first")]


def run_item(item):
    from vlib import gload
    from checks.c14 import count_drops
    src, need = program(item)
    o, mod = gload.run_src(src)
    try:
        if o.kind == "error":
            return ("rejected", o.title, {})
        if o.kind == "crash":
            return ("crash", o.exc[:200], {})
        bad = gload.validate(o.package)
        drops = count_drops(o.package)
        if bad is not None:
            msg = bad.split("Stack backtrace")[0].split("Caused by:")[-1]
            return ("invalid-hugr", " ".join(msg.split())[:200], drops)
        miss = {f: (drops.get(f, 0), n) for f, n in need.items() if drops.get(f, 0) < n}
        if miss:
            return ("missing-drop", "; ".join(f"{f}: {g} drop op(s), need >= {n}" for f, (g, n) in miss.items()), drops)
        return (None, "", drops)
    finally:
        if mod is not None:
            gload.unload(mod)


def run_part(ctx):
    its = items()
    out = ctx.pmap(run_item, its, chunk=8)
    hist = {}
    bad = 0
    for it, (prob, detail, drops) in zip(its, out):
        k = prob or "ok"
        hist[k] = hist.get(k, 0) + 1
        if prob:
            bad += 1
            ctx.violation(f"generic-drop:{prob}:{it[3]}",
                          f"module with a copyable-variable function over {SHAPES[it[0]][0]} and an affine-variable function over "
                          f"{SHAPES[it[1]][0]} ({it[2]}, {it[3]}): {prob}: {detail}",
                          {"part": "generic-drop", "item": list(it)})
    return {"p3_programs": len(its), "p3_outcomes": hist, "p3_shapes": list(SHAPES)}


def replay(ctx, item):
    prob, detail, drops = run_item(tuple(item["item"]))
    return {"violation": prob is not None, "problem": prob, "detail": detail, "drops": drops,
            "source": program(tuple(item["item"]))[0]}
