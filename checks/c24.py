"""C24 — Unitary contexts reject non-unitary quantum operations.

Bounded-exhaustive product of small generated programs (no sampling):

  context  F ⊆ {dagger, control, power}
           given by decorator arguments of the enclosing function (all 8 subsets, plus
           `unitary=True`), or by a `with` block inside an unflagged function: every
           non-empty subset, every order of its modifiers, written as one item list
           `with a, b, c:` and as nested `with` blocks
  callee   user function (defined `@guppy(G)` or declared `@guppy.declare(G)`) for all
           8 flag sets G, `barrier`, `state_result`
  argument mix {qubit only, classical only, qubit + classical}
  position {expression statement, `if` condition, `while` condition,
            conditional-expression test, argument of another call}
  plus the constructs that are forbidden under dagger {for, while, assignment,
  annotated assignment, augmented assignment, loop / assignment nested in an `if`,
  subscripted place `xs[0]` as a call argument}, in every context.

Oracle (transcribed from the property statement)
  REJECT  <=>  (the call passes at least one qubit  and  F is not a subset of G  and
                the callee is not barrier/state_result)
            or (dagger in F  and  the body contains a loop / assignment / subscripted
                place)
  otherwise ACCEPT.  A rejection must be a GuppyError (never a crash) and must carry
  the diagnostic belonging to one of the applicable reasons.  A rejection for any other
  reason means the generator produced an ill-formed program: counted, and the run fails
  with an exception if the count is non-zero.
  Accepted programs are compiled; every compiled FuncDefn must record its flags in the
  `unitary` metadata entry (decoded with UnitaryFlags; must be exactly the declared
  flags; for flag-less functions a missing entry and 0 are both fine).

Boundary case the statement does not settle (accepted either way, counted):
  a conditional expression under dagger whose call is allowed — the implementation
  rejects it as an "Assignment" because desugaring introduces a temporary.
"""
from __future__ import annotations

import itertools

ID = "C24"
LEVEL = "exploration"

FLAGS = ("dagger", "control", "power")
POSITIONS = ("stmt", "if", "while", "ifexp", "arg", "arg-after-qubit")
MIXES = ("q", "a", "qa", "gq", "ga", "gxs")   # g*: GENERIC callee (x: T) instantiated with a qubit / int / qubit array
CONSTRUCTS = ("for", "while", "assign", "annassign", "augassign", "for_in_if",
              "assign_in_if", "subscript")

T_UNITARY = "Unitary constraint violation"
T_DAGGER = "Invalid expression in dagger"
T_UNSUPPORTED = "Unsupported"

HEADER = (
    "from collections.abc import Callable\n"
    "from guppylang import guppy, qubit, array\n"
    "from guppylang.std.builtins import barrier, nat\n"
    "from guppylang.std.debug import state_result\n"
)


# --------------------------------------------------------------------------- generator
def subsets(xs):
    out = []
    for r in range(len(xs) + 1):
        out.extend(itertools.combinations(xs, r))
    return out


def contexts():
    """All ways the context flags are given.  Each: dict(kind, mods=ordered flags)."""
    out = []
    for f in subsets(FLAGS):
        out.append({"kind": "dec", "mods": list(f)})
    out.append({"kind": "dec_unitary", "mods": list(FLAGS)})
    for f in subsets(FLAGS):
        out.append({"kind": "dec_explicit_false", "mods": list(f)})
    for f in subsets(FLAGS):
        if not f:
            continue
        for perm in itertools.permutations(f):
            out.append({"kind": "with_items", "mods": list(perm)})
            if len(perm) >= 2:
                out.append({"kind": "with_nested", "mods": list(perm)})
    return out


def deco(name, flags, unitary_kw=False, explicit_false=False):
    if unitary_kw:
        return f"@{name}(unitary=True)"
    if explicit_false:
        # every flag spelled out, the absent ones as False
        return f"@{name}(" + ", ".join(f"{f}={f in flags}" for f in FLAGS) + ")"
    if not flags:
        return f"@{name}"
    return f"@{name}(" + ", ".join(f"{f}=True" for f in flags) + ")"


MOD_TEXT = {"dagger": "dagger", "control": "control(c)", "power": "power(2)"}


def indent(lines, n):
    return [" " * n + ln for ln in lines]


def wrap_context(ctx, body_lines, params):
    """Returns the source lines of `main` with the body placed in the context."""
    sig = f"def main({params}) -> None:"
    kind = ctx["kind"]
    if kind == "dec":
        return [deco("guppy", ctx["mods"]), sig, *indent(body_lines, 4)]
    if kind == "dec_unitary":
        return [deco("guppy", (), unitary_kw=True), sig, *indent(body_lines, 4)]
    if kind == "dec_explicit_false":
        return [deco("guppy", ctx["mods"], explicit_false=True), sig, *indent(body_lines, 4)]
    if kind == "with_items":
        w = "with " + ", ".join(MOD_TEXT[m] for m in ctx["mods"]) + ":"
        return ["@guppy", sig, "    " + w, *indent(body_lines, 8)]
    assert kind == "with_nested"
    lines = ["@guppy", sig]
    ind = 4
    for m in ctx["mods"]:
        lines.append(" " * ind + f"with {MOD_TEXT[m]}:")
        ind += 4
    return [*lines, *indent(body_lines, ind)]


RET = {"stmt": ("None", "pass"), "if": ("bool", "return True"),
       "while": ("bool", "return True"), "ifexp": ("bool", "return True"),
       "arg": ("int", "return 1"), "arg-after-qubit": ("int", "return 1")}
MIX_PARAMS = {"q": "q: qubit", "a": "a: int", "qa": "q: qubit, a: int", "gq": "x: T", "ga": "x: T", "gxs": "x: T"}
MIX_ARGS = {"q": "q", "a": "a", "qa": "q, a", "gq": "q", "ga": "a", "gxs": "qs2"}
QUBIT_MIXES = ("q", "qa", "gq", "gxs")


def place_call(position, call):
    if position == "stmt":
        return [call]
    if position == "if":
        return [f"if {call}:", "    pass"]
    if position == "while":
        return [f"while {call}:", "    pass"]
    if position == "ifexp":
        return [f"1 if {call} else 2"]
    if position == "arg-after-qubit":
        # the call is a LATER argument of a fully flagged callee whose first argument is a qubit
        return [f"sinkq(q2, {call})"]
    assert position == "arg"
    return [f"sink({call})"]


def callee_src(kind, g, mix, position, name="callee", params=None):
    ret, body = RET[position]
    params = params or MIX_PARAMS[mix]
    gen = "[T]" if mix.startswith("g") else ""
    if kind == "def":
        return [deco("guppy", g), f"def {name}{gen}({params}) -> {ret}:", "    " + body]
    if kind == "def_shared":
        # ONE decorator object applied to two functions; the callee is the second
        d = deco("guppy", g)[1:]
        d = d if "(" in d else d + "()"
        return [f"_shared_deco = {d}", "@_shared_deco", f"def earlier_{name}{gen}({params}) -> {ret}:", "    " + body,
                "@_shared_deco", f"def {name}{gen}({params}) -> {ret}:", "    " + body]
    if kind == "def_explicit":
        return [deco("guppy", g, explicit_false=True), f"def {name}{gen}({params}) -> {ret}:", "    " + body]
    assert kind == "decl"
    return [deco("guppy.declare", g), f"def {name}{gen}({params}) -> {ret}: ..."]


SINK = ["@guppy", "def sink(a: int) -> None:", "    pass"]
SINKQ = ["@guppy.declare(dagger=True, control=True, power=True)", "def sinkq(t: qubit, a: int) -> None: ..."]
MAIN_PARAMS = "q: qubit, c: qubit, a: int"
MAIN_PARAMS_XS = "xs: array[qubit, 2], c: qubit, a: int"


def build(item):
    """item -> (source text, oracle facts)."""
    ctx = item["ctx"]
    F = set(ctx["mods"])
    fam = item["fam"]
    pre = []
    params = MAIN_PARAMS
    passes_qubit = False
    special = False
    G = None
    construct = None
    position = item.get("position", "stmt")
    if fam == "user":
        G = set(item["g"])
        pre += callee_src(item["ckind"], item["g"], item["mix"], position)
        if position == "arg":
            pre += SINK
        if position == "arg-after-qubit":
            pre += SINKQ
            params = MAIN_PARAMS + ", q2: qubit"
        body = place_call(position, f"callee({MIX_ARGS[item['mix']]})")
        passes_qubit = item["mix"] in QUBIT_MIXES
        if item["mix"] == "gxs":
            params = params + ", qs2: array[qubit, 2]"
        if position == "while":
            construct = "while"
    elif fam == "special":
        special = True
        if item["callee"] == "barrier":
            body = [f"barrier({MIX_ARGS[item['mix']]})"]
        else:
            body = ['state_result("t", q)']
        passes_qubit = "q" in item["mix"]
    elif fam == "indirect":
        # the same quantum call made through a function VALUE or a function TENSOR
        G = set(item["g"])
        mech = item["mech"]
        if mech == "param-value":
            G = set()                                   # a Callable parameter declares no flags
            params = MAIN_PARAMS + ", fp: Callable[[qubit], None]"
            body = ["fp(q)"]
        elif mech == "tensor":
            pre += callee_src("def", item["g"], "q", "stmt")
            params = MAIN_PARAMS + ", q2: qubit"
            body = ["(callee, callee)(q, q2)"]
        else:
            assert mech == "local-value"
            pre += callee_src("def", item["g"], "q", "stmt")
            body = ["fv = callee", "fv(q)"]
            construct = "assign"
        passes_qubit = True
    else:
        assert fam == "construct"
        construct = item["construct"]
        body = {
            "for": ["for _ in range(2):", "    pass"],
            "while": ["while a > 5:", "    pass"],
            "assign": ["y = a"],
            "annassign": ["y: int = a"],
            "augassign": ["a += 1"],
            "for_in_if": ["if a > 5:", "    for _ in range(2):", "        pass"],
            "assign_in_if": ["if a > 5:", "    y = a"],
            "subscript": ["callee(xs[0])"],
        }[construct]
        if construct == "subscript":
            # the callee carries every flag, so the subscript is the only possible reason
            G = set(FLAGS)
            pre += callee_src("def", FLAGS, "q", "stmt")
            params = MAIN_PARAMS_XS
            passes_qubit = True
    lines = [*pre, *wrap_context(ctx, body, params)]
    src = HEADER + "\n".join(lines) + "\n"
    reason1 = passes_qubit and not special and not (F <= (G or set()))
    reason2 = "dagger" in F and construct is not None
    boundary = (fam == "user" and position == "ifexp" and "dagger" in F and not reason1)
    return src, {"reason1": reason1, "reason2": reason2, "boundary": boundary,
                 "soundness_only": fam == "indirect" and item["mech"] != "param-value",
                 "F": sorted(F), "G": None if G is None else sorted(G),
                 "construct": construct, "position": position}


def all_items(quick=False):
    """The full product.  Quick tier: the declared-callee variant (`@guppy.declare(G)`,
    my own extra dimension) is only generated for the expression-statement position;
    everything else is identical in both tiers."""
    items = []
    ctxs = contexts()
    gs = subsets(FLAGS)
    for ctx in ctxs:
        for ckind in ("def", "decl", "def_explicit", "def_shared"):
            for g in gs:
                for mix in MIXES:
                    for pos in POSITIONS:
                        if quick and ckind == "decl" and pos != "stmt":
                            continue
                        if ckind in ("def_explicit", "def_shared") and (pos != "stmt" or mix not in ("q", "a")):
                            continue
                        items.append({"fam": "user", "ctx": ctx, "ckind": ckind,
                                      "g": list(g), "mix": mix, "position": pos})
        for mix in ("q", "a", "qa"):
            items.append({"fam": "special", "ctx": ctx, "callee": "barrier", "mix": mix})
        items.append({"fam": "special", "ctx": ctx, "callee": "state_result", "mix": "q"})
        for cons in CONSTRUCTS:
            items.append({"fam": "construct", "ctx": ctx, "construct": cons})
        # (a function tensor takes its arguments by value, which `main`'s borrowed qubits do not allow: left out)
        for mech in ("param-value", "local-value"):
            for g in (gs if mech != "param-value" else [()]):
                items.append({"fam": "indirect", "ctx": ctx, "g": list(g), "mech": mech})
    return items


# ----------------------------------------------------------------------------- worker
def _flagset_from_value(v):
    from guppylang_internals.tys.ty import UnitaryFlags
    fl = UnitaryFlags(v)
    names = {"dagger": UnitaryFlags.Dagger, "control": UnitaryFlags.Control,
             "power": UnitaryFlags.Power}
    got = {n for n, m in names.items() if m in fl}
    rest = fl
    for m in names.values():
        rest = rest & ~m
    return got, rest.value


def metadata_problems(pkg, item, facts):
    """Compare the `unitary` metadata of every compiled FuncDefn with the flags the
    source declares for it."""
    import hugr.ops as ops
    h = pkg.modules[0]
    ctx = item["ctx"]
    F = set(facts["F"])
    probs = []
    seen = {}
    nested_blocks = []
    for n in h.children(h.module_root if hasattr(h, "module_root") else h.root):
        op = h[n].op
        if not isinstance(op, ops.FuncDefn):
            continue
        name = op.f_name
        if name == "main":
            role, exp = "main", (F if ctx["kind"].startswith("dec") else set())
        elif name == "callee":
            role, exp = "callee", set(facts["G"] or ())
        elif name == "sink":
            role, exp = "sink", set()
        elif "__WithBlock__" in name:
            if ctx["kind"] == "with_items":
                role, exp = "withblock", F
            else:
                role, exp = "withblock-nested", None
        else:
            role, exp = "other", None
        seen[role] = seen.get(role, 0) + 1
        md = h[n].metadata
        has = "unitary" in md
        if exp is None:
            if role == "withblock-nested":
                nested_blocks.append(md.get("unitary"))
            continue
        if not has:
            if exp:
                probs.append((f"metadata:missing:{role}", f"{name}: no 'unitary' entry, declared {sorted(exp)}"))
            continue
        try:
            got, rest = _flagset_from_value(md["unitary"])
        except Exception as e:  # noqa: BLE001
            probs.append((f"metadata:undecodable:{role}", f"{name}: {md['unitary']!r}: {e}"))
            continue
        if got != exp or rest:
            probs.append((f"metadata:wrong-value:{role}",
                          f"{name}: metadata {md['unitary']!r} decodes to {sorted(got)} (+{rest}), declared {sorted(exp)}"))
    if "main" not in seen:
        probs.append(("metadata:no-main-funcdefn", "compiled module has no FuncDefn named main"))
    if ctx["kind"] == "with_items" and seen.get("withblock", 0) != 1:
        probs.append(("metadata:withblock-funcdefn-count", f"expected 1 __WithBlock__ function, found {seen.get('withblock', 0)}"))
    if item["fam"] == "user" and item["ckind"] == "def" and "callee" not in seen:
        probs.append(("metadata:no-callee-funcdefn", "defined callee not in compiled module"))
    return probs, nested_blocks


def evaluate(item):
    """Runs one program through check + compile_function and applies the oracle.
    Returns a small picklable record."""
    from guppylang_internals.experimental import enable_experimental_features
    from vlib import gload
    enable_experimental_features()
    src, facts = build(item)
    o, mod = gload.run_src(src, fn="main", compile=True, with_prelude=False)
    rec = {"kind": o.kind, "title": o.title, "stage": o.stage, "viol": [], "ill": None,
           "expect": "reject" if (facts["reason1"] or facts["reason2"]) else "accept",
           "boundary": False, "facts": facts, "meta_checked": 0, "nested_meta": None}
    pos = facts["construct"] if item["fam"] == "construct" else facts["position"]
    where = f"{item['fam']}:{pos}"
    if o.kind == "crash":
        exc = o.exc.split(":")[0]
        rec["viol"].append((f"crash:{o.stage}:{exc}", f"{o.exc[:200]}"))
    elif rec["expect"] == "reject":
        allowed = set()
        if facts["reason1"]:
            allowed.add(T_UNITARY)
        if facts["reason2"]:
            allowed |= {T_DAGGER, T_UNSUPPORTED}
        if item["fam"] == "user" and facts["position"] == "ifexp" and "dagger" in facts["F"]:
            # boundary (see module docstring): the desugared temporary of a conditional
            # expression is reported as an assignment under dagger
            allowed.add(T_DAGGER)
        if o.kind == "ok":
            if facts["reason2"]:
                key = f"dagger-forbidden-construct-accepted:{facts['construct']}"
            else:
                key = f"non-unitary-call-accepted:{_posname(facts['position'])}"
                ctx = item["ctx"]
                if ctx["kind"] == "with_nested" and {ctx["mods"][-1]} <= set(facts["G"] or ()):
                    key += ":flags-of-outer-with"
            rec["viol"].append((key, "accepted although the statement demands rejection"))
        elif o.title not in allowed and o.title in (T_UNITARY, T_DAGGER):
            # rejected, but with the unitary checker's diagnostic for a reason that does not apply here (e.g. 'invalid
            # under dagger' in a context without dagger): the context / callee flags were misread
            rec["viol"].append((f"rejected-for-inapplicable-reason:{o.title}",
                                f"rejected with {o.title!r}, the applicable reasons allow only {sorted(allowed)}"))
        elif o.title not in allowed:
            rec["ill"] = f"rejected with title {o.title!r}, applicable reasons allow {sorted(allowed)}"
        elif o.title == T_UNSUPPORTED and "dagger context" not in o.rendered:
            rec["ill"] = f"'Unsupported' rejection that is not about the dagger context: {o.rendered[:200]}"
        elif o.stage != "check":
            rec["viol"].append((f"rejected-late:{o.stage}", f"rejection raised in stage {o.stage}, not by check()"))
    else:
        if o.kind == "error":
            if facts["boundary"] and o.title == T_DAGGER:
                rec["boundary"] = True
            elif facts.get("soundness_only") and o.title in (T_UNITARY, T_DAGGER):
                # the statement does not say which flags the type of a function value / tensor carries:
                # rejecting an allowed indirect call is tolerated (counted), accepting a forbidden one is not
                rec["boundary"] = True
            elif o.title in (T_UNITARY, T_DAGGER) or (o.title == T_UNSUPPORTED and "dagger context" in o.rendered):
                slug = {T_UNITARY: "unitary-violation", T_DAGGER: "invalid-under-dagger",
                        T_UNSUPPORTED: "index-access-under-dagger"}[o.title]
                rec["viol"].append((f"allowed-code-rejected:{where}:{slug}",
                                    f"rejected with '{o.title}' although neither rejection condition holds"))
            else:
                rec["ill"] = f"expected accept, rejected for an unrelated reason: {o.title!r}: {o.rendered[-300:]}"
        else:
            probs, nested = metadata_problems(o.package, item, facts)
            rec["meta_checked"] = 1
            rec["nested_meta"] = nested
            rec["viol"].extend(probs)
    if mod is not None:
        gload.unload(mod)
    return rec


def _posname(p):
    return {"stmt": "statement", "if": "if-condition", "while": "while-condition",
            "ifexp": "ifexp-test", "arg": "call-argument", "arg-after-qubit": "call-argument-after-qubit"}[p]


def describe(item, facts):
    ctx = item["ctx"]
    c = f"{ctx['kind']}[{','.join(ctx['mods']) or '-'}]"
    if item["fam"] == "user":
        return (f"context {c}, callee {item['ckind']} G=[{','.join(item['g']) or '-'}], "
                f"args {item['mix']}, position {item['position']}")
    if item["fam"] == "special":
        return f"context {c}, {item['callee']}({item['mix']})"
    if item["fam"] == "indirect":
        return f"context {c}, indirect call ({item['mech']}) of a callee with G=[{','.join(item['g']) or '-'}]"
    return f"context {c}, construct {item['construct']}"


# ------------------------------------------------------------------------------- run
def run(ctx):
    from guppylang_internals.experimental import enable_experimental_features
    enable_experimental_features()
    items = all_items(ctx.quick)
    evaluate(items[0])          # warm-up in the parent: workers inherit the loaded std library
    recs = ctx.pmap(evaluate, items, chunk=24)
    n = len(items)
    counts = {"accepted": 0, "rejected": 0, "crashed": 0, "expected_accept": 0,
              "expected_reject": 0, "boundary_ifexp_under_dagger_rejected_as_assignment": 0,
              "boundary_ifexp_under_dagger_accepted": 0, "metadata_checked_programs": 0,
              "ill_formed_programs": 0, "reject_by_call_rule_only": 0,
              "reject_by_dagger_rule_only": 0, "reject_by_both_rules": 0}
    ill = []
    titles = {}
    nested_meta = {}
    samples = []
    nontrivial = 0
    for it, r in zip(items, recs):
        f = r["facts"]
        counts["accepted" if r["kind"] == "ok" else "rejected" if r["kind"] == "error" else "crashed"] += 1
        counts["expected_" + r["expect"]] += 1
        if f["reason1"] and f["reason2"]:
            counts["reject_by_both_rules"] += 1
        elif f["reason1"]:
            counts["reject_by_call_rule_only"] += 1
        elif f["reason2"]:
            counts["reject_by_dagger_rule_only"] += 1
        if f["boundary"]:
            if r["boundary"]:
                counts["boundary_ifexp_under_dagger_rejected_as_assignment"] += 1
            elif r["kind"] == "ok":
                counts["boundary_ifexp_under_dagger_accepted"] += 1
        counts["metadata_checked_programs"] += r["meta_checked"]
        if r["kind"] == "error":
            titles[r["title"]] = titles.get(r["title"], 0) + 1
        if r["nested_meta"]:
            k = f"{','.join(it['ctx']['mods'])} -> {r['nested_meta']}"
            nested_meta[k] = nested_meta.get(k, 0) + 1
        if r["ill"]:
            counts["ill_formed_programs"] += 1
            if len(ill) < 5:
                ill.append(describe(it, f) + ": " + r["ill"])
        # non-trivial: a flagged context together with a call that passes a qubit, or a
        # dagger-forbidden construct (the cases in which the rules can fire at all)
        if f["F"] and (f["construct"] or (it["fam"] != "construct" and it.get("mix", "") in QUBIT_MIXES)):
            nontrivial += 1
        for key, what in r["viol"]:
            ctx.violation(key, f"{describe(it, f)}: {what}", it)
    for idx in (0, 7, 301, 2222, n - 1):
        if idx < n:
            it, r = items[idx], recs[idx]
            samples.append({"case": describe(it, r["facts"]), "expected": r["expect"],
                            "observed": r["kind"] + (f"[{r['title']}]" if r["title"] else "")})
    if counts["ill_formed_programs"]:
        raise RuntimeError(f"C24 generator produced {counts['ill_formed_programs']} ill-formed programs "
                           f"(rejected for a reason outside the statement), e.g. {ill}")
    return {
        "evaluations": n,
        "distinct_nontrivial": nontrivial,
        "rule": "program is non-trivial if its context has at least one flag and it either passes a qubit "
                "to a callee or contains a dagger-forbidden construct",
        "samples": samples,
        "contexts": len(contexts()),
        "rejection_titles": titles,
        "nested_withblock_metadata_observed": nested_meta,
        **counts,
    }


def replay(ctx, item):
    from guppylang_internals.experimental import enable_experimental_features
    enable_experimental_features()
    r = evaluate(item)
    src, _ = build(item)
    return {"violation": bool(r["viol"]), "violations": r["viol"], "expected": r["expect"],
            "observed": r["kind"], "title": r["title"], "ill_formed": r["ill"], "source": src}
