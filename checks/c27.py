"""C27 — Stack and PriorityQueue follow their reference models.

Explicit-state breadth-first search over the COMPILED methods: thin @guppy wrappers around
Stack / PriorityQueue methods are compiled by the real compiler; hugrvm calls them with
concrete values, so the transition function of the search is the implementation itself.
State = (canonical hugrvm value of the struct, reference model); events = push (fresh
value, every priority of a small domain), pop, peek, len; all sequences up to a depth,
for capacities 1..3.  Reference: a Python list (Stack); a multiset with min-priority
extraction (PriorityQueue).  Over-capacity push / empty pop / empty peek must panic.
"""
from __future__ import annotations

import collections

from vlib import gload, hugrvm

ID = "C27"
LEVEL = "model_checking"

SRC = '''
from guppylang.std.collections.stack import Stack, empty_stack
from guppylang.std.collections.priority_queue import PriorityQueue, empty_priority_queue

@guppy
def s_new() -> Stack[int, {N}]:
    return empty_stack()

@guppy
def s_push(s: Stack[int, {N}] @owned, v: int) -> Stack[int, {N}]:
    return s.push(v)

@guppy
def s_pop(s: Stack[int, {N}] @owned) -> tuple[int, Stack[int, {N}]]:
    return s.pop()

@guppy
def s_peek(s: Stack[int, {N}] @owned) -> tuple[int, Stack[int, {N}]]:
    return s.peek()

@guppy
def s_len(s: Stack[int, {N}] @owned) -> tuple[int, Stack[int, {N}]]:
    n = len(s)
    return n, s

@guppy
def q_new() -> PriorityQueue[int, {N}]:
    return empty_priority_queue()

@guppy
def q_push(s: PriorityQueue[int, {N}] @owned, v: int, p: int) -> PriorityQueue[int, {N}]:
    return s.push(v, p)

@guppy
def q_pop(s: PriorityQueue[int, {N}] @owned) -> tuple[int, int, PriorityQueue[int, {N}]]:
    return s.pop()

@guppy
def q_peek(s: PriorityQueue[int, {N}] @owned) -> tuple[int, int, PriorityQueue[int, {N}]]:
    return s.peek()

@guppy
def q_len(s: PriorityQueue[int, {N}] @owned) -> tuple[int, PriorityQueue[int, {N}]]:
    n = len(s)
    return n, s
'''


def freeze(v):
    if isinstance(v, hugrvm.Sum):
        return ("S", v.tag, tuple(freeze(x) for x in v.vals))
    if isinstance(v, hugrvm.Arr):
        return ("A", tuple(freeze(x) for x in v.slots))
    if v is hugrvm.BORROWED:
        return ("B",)
    return v


def thaw(c):
    if isinstance(c, tuple):
        if c[0] == "S":
            return hugrvm.Sum(c[1], tuple(thaw(x) for x in c[2]))
        if c[0] == "A":
            return hugrvm.Arr([thaw(x) for x in c[1]])
        if c[0] == "B":
            return hugrvm.BORROWED
    return c


class Impl:
    """Compiled wrappers for one capacity."""

    def __init__(self, n):
        self.n = n
        self.h = {}
        src = SRC.replace("{N}", str(n))
        mod = gload.load(gload.PRELUDE + src)
        for name in ("s_new", "s_push", "s_pop", "s_peek", "s_len", "q_new", "q_push", "q_pop", "q_peek", "q_len"):
            o = gload.outcome(mod.__dict__[name])
            if not o.ok:
                raise RuntimeError(f"wrapper {name} does not compile: {o.brief()} {o.rendered}")
            self.h[name] = o.package.modules[0]

    def call(self, name, args):
        r = hugrvm.run(self.h[name], name, args, step_budget=200000)
        if r.status in ("unsupported", "invariant", "budget"):
            raise RuntimeError(f"hugrvm: {r.status} {r.detail} in {name}")
        return r


def explore(kind, cap, depth, prios):
    """BFS.  Returns (states, transitions, sequences_completed, violations list, samples)."""
    impl = Impl(cap)
    pre = "s_" if kind == "stack" else "q_"
    r = impl.call(pre + "new", [])
    init = (freeze(r.values[0]), ())
    seen = {init}
    frontier = collections.deque([(init, [], 0)])
    states, transitions, complete = 1, 0, 0
    viol = []
    samples = []

    def bad(cls, hist, msg):
        viol.append((f"{kind}:{cls}", f"{kind} capacity {cap}: after {hist}: {msg}", {"kind": kind, "cap": cap, "history": hist}))

    while frontier:
        (st, model), hist, d = frontier.popleft()
        if d == depth:
            complete += 1
            if len(samples) < 3 and complete % 101 == 1:
                samples.append({"structure": kind, "capacity": cap, "history": hist})
            continue
        events = []
        # depth >= 1000 selects CLOSURE mode: every pushed value is the same constant, so the state is
        # just the buffer of priorities and the search runs until no new state appears (complete
        # reachable state space for that capacity and priority domain, no depth bound)
        fresh = 100 + d if depth < 1000 else 7
        if kind == "stack":
            events.append(("push", fresh))
        else:
            for p in prios:
                events.append(("push", fresh, p))
        events += [("pop",), ("peek",), ("len",)]
        for ev in events:
            transitions += 1
            h2 = hist + [list(ev)]
            sv = thaw(st)
            m = list(model)
            if ev[0] == "push":
                args = [sv, hugrvm.to_vm(ev[1])] + ([hugrvm.to_vm(ev[2])] if kind == "pq" else [])
                r = impl.call(pre + "push", args)
                if len(m) >= cap:
                    if r.status != "panic":
                        bad("push-beyond-capacity-does-not-panic", h2, f"status {r.status}")
                    complete += 1
                    continue
                if r.status != "ok":
                    bad("push-within-capacity-fails", h2, f"{r.status} {r.panic}")
                    continue
                m.append(ev[1] if kind == "stack" else (ev[2], ev[1]))
                nxt = r.values[0]
            elif ev[0] in ("pop", "peek"):
                r = impl.call(pre + ev[0], [sv])
                if not m:
                    if r.status != "panic":
                        bad(f"{ev[0]}-on-empty-does-not-panic", h2, f"status {r.status}")
                    complete += 1
                    continue
                if r.status != "ok":
                    bad(f"{ev[0]}-fails", h2, f"{r.status} {r.panic}")
                    continue
                if kind == "stack":
                    got = hugrvm.s64(r.values[0])
                    nxt = r.values[1]
                    if got != m[-1]:
                        bad(f"{ev[0]}-not-lifo", h2, f"returned {got}, model top {m[-1]} (model {m})")
                        continue
                    if ev[0] == "pop":
                        m.pop()
                else:
                    got = (hugrvm.s64(r.values[0]), hugrvm.s64(r.values[1]))
                    nxt = r.values[2]
                    if got not in m:
                        bad(f"{ev[0]}-returns-foreign-entry", h2, f"returned {got}, model {sorted(m)}")
                        continue
                    if got[0] != min(x[0] for x in m):
                        bad(f"{ev[0]}-not-minimal-priority", h2, f"returned {got}, model {sorted(m)}")
                        continue
                    if ev[0] == "pop":
                        m.remove(got)
            else:
                r = impl.call(pre + "len", [sv])
                if r.status != "ok":
                    bad("len-fails", h2, f"{r.status} {r.panic}")
                    continue
                got = hugrvm.s64(r.values[0])
                nxt = r.values[1]
                if got != len(m):
                    bad("len-wrong", h2, f"len {got}, model {len(m)}")
                    continue
            key = (freeze(nxt), tuple(m) if kind == "stack" else tuple(sorted(m)))
            if key in seen:
                continue
            seen.add(key)
            states += 1
            frontier.append((key, h2, d + 1))
    # drain check: from every reached state popping everything yields the model in order (stack) /
    # non-decreasing priorities and the exact multiset (pq)
    return states, transitions, complete, viol, samples, seen, impl


def drain(kind, impl, key):
    st, model = key
    pre = "s_" if kind == "stack" else "q_"
    sv = thaw(st)
    out = []
    for _ in range(len(model)):
        r = impl.call(pre + "pop", [sv])
        if r.status != "ok":
            return f"pop fails while draining: {r.status} {r.panic}"
        if kind == "stack":
            out.append(hugrvm.s64(r.values[0]))
            sv = r.values[1]
        else:
            out.append((hugrvm.s64(r.values[0]), hugrvm.s64(r.values[1])))
            sv = r.values[2]
    if kind == "stack":
        if out != list(reversed(model)):
            return f"drained {out}, model (bottom..top) {list(model)}"
    else:
        if sorted(out) != sorted(model) or [p for p, _ in out] != sorted(p for p, _ in out):
            return f"drained {out}, model {sorted(model)}"
    r = impl.call(pre + "pop", [sv])
    if r.status != "panic":
        return "pop after draining does not panic"
    return None


def job(item):
    kind, cap, depth, prios = item
    states, transitions, complete, viol, samples, seen, impl = explore(kind, cap, depth, prios)
    drained = 0
    for key in sorted(seen, key=repr):
        d = drain(kind, impl, key)
        drained += 1
        if d:
            viol.append((f"{kind}:drain-disagrees", f"{kind} capacity {cap}: state with model {key[1]}: {d}",
                         {"kind": kind, "cap": cap, "model": list(key[1])}))
    return {"states": states, "transitions": transitions + drained, "complete": complete, "viol": viol, "samples": samples,
            "drained": drained}


def run(ctx):
    depth_s = 8 if ctx.quick else 10
    depth_q = 7 if ctx.quick else 9
    prios = (0, 1, 2) if ctx.quick else (0, 1, 2, -1)
    caps = (1, 2, 3, 4) if ctx.quick else (1, 2, 3, 4, 5)
    items = [("stack", c, depth_s, ()) for c in caps] + [("pq", c, depth_q, prios) for c in caps]
    # closure mode (see explore): the whole reachable heap-state space for larger capacities
    items += [("pq", 7, 1000, (0, 1, 2)), ("pq", 8, 1000, (0, 1)), ("stack", 8, 1000, ())]
    if not ctx.quick:
        items += [("pq", 9, 1000, (0, 1, 2)), ("pq", 10, 1000, (0, 1)), ("pq", 7, 1000, (0, 1, 2, 3))]
    res = ctx.pmap(job, items, chunk=1)
    states = trans = complete = 0
    samples = []
    for it, r in zip(items, res):
        states += r["states"]
        trans += r["transitions"]
        complete += r["complete"]
        samples += r["samples"]
        for key, what, item in r["viol"]:
            ctx.violation(key, what, item)
    return {
        "states": states, "transitions": trans, "traces_validated_against_impl": complete,
        "evaluations": trans, "distinct_nontrivial": states,
        "rule": "BFS over event sequences (push fresh value x priorities, pop, peek, len) on the compiled methods; state = canonical "
                "struct value + reference model; every reached state additionally drained by pops",
        "samples": samples[:6], "capacities": list(caps), "depth_stack": depth_s, "depth_pq": depth_q, "priorities": list(prios),
    }


def replay(ctx, item):
    impl = Impl(item["cap"])
    kind = item["kind"]
    depth = len(item.get("history", [])) or 6
    states, transitions, complete, viol, *_ = explore(kind, item["cap"], depth, (0, 1, 2))
    return {"violation": bool(viol), "violations": [v[1] for v in viol[:5]]}
