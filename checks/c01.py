"""C01 — Accepted programs lower to valid HUGR.

Enumerated: every program of vlib.gen01 up to the tier's bound (bounded-exhaustive,
no sampling).  Per program:  load -> defn.check()  (a GuppyError here = the program is
outside the property's quantifier: counted as rejected_by_checker, never a violation)
-> defn.compile_function() must return -> hugr-core validator must accept the
serialised package.

Violation keys (one per defect class):
  compile-crash:<ExceptionType>:<innermost /repo function in the traceback>
  compile-error:<GuppyError title>          GuppyError raised by compile of an accepted
                                            program (except the documented entry-point
                                            error "Invalid entry point")
  invalid-hugr:<first 60 chars of the validator message, numbers normalised>

Crashes of the *checker* itself are C02's subject; here they are only counted
(`check_crashed`, with samples) since such a program was not "accepted".
"""
from __future__ import annotations

import re

ID = "C01"
LEVEL = "exploration"

DOCUMENTED_COMPILE_ERRORS = {"Invalid entry point"}

_FRAME = re.compile(r'File "([^"]+)", line (\d+), in (\S+)')


def repo_frame(tb: str) -> str:
    """Innermost traceback frame that lies in guppylang's sources: 'file.py:function'."""
    best = "?"
    for m in _FRAME.finditer(tb or ""):
        path, _line, fn = m.groups()
        if "/guppylang_internals/" in path or "/guppylang/" in path:
            best = f"{path.rsplit('/', 1)[-1]}:{fn}"
    return best


def norm_msg(msg: str) -> str:
    msg = re.sub(r"\s+", " ", msg)
    msg = re.sub(r"\d+", "N", msg)
    return msg[:60]


def set_experimental(on: bool) -> None:
    import guppylang_internals.experimental as ex
    if on:
        ex.enable_experimental_features()
    else:
        ex.disable_experimental_features()


def hugr_features(pkg) -> dict:
    """Measured shape counters of the compiled HUGR (no oracle role)."""
    from hugr import ops, tys
    f = {"drop_ops": 0, "tuple_sum_blocks": 0, "tuple_sum_blocks_with_linear_out": 0,
         "blocks": 0, "cfgs": 0, "func_defns": 0, "poly_funcs": 0, "make_tuple": 0,
         "unpack_tuple": 0, "conditionals": 0, "nodes": 0}
    for mod in pkg.modules:
        for node in mod:
            op = mod[node].op
            f["nodes"] += 1
            if isinstance(op, ops.DataflowBlock):
                f["blocks"] += 1
                rows = op.sum_ty.variant_rows
                # branch-dependent outputs: >1 successor and a non-empty variant row
                if len(rows) > 1 and any(len(r) for r in rows):
                    f["tuple_sum_blocks"] += 1
                    if any(t.type_bound() == tys.TypeBound.Linear for t in op.other_outputs):
                        f["tuple_sum_blocks_with_linear_out"] += 1
            elif isinstance(op, ops.CFG):
                f["cfgs"] += 1
            elif isinstance(op, ops.FuncDefn):
                f["func_defns"] += 1
                if op.params:
                    f["poly_funcs"] += 1
            elif isinstance(op, ops.MakeTuple):
                f["make_tuple"] += 1
            elif isinstance(op, ops.UnpackTuple):
                f["unpack_tuple"] += 1
            elif isinstance(op, ops.Conditional):
                f["conditionals"] += 1
            elif isinstance(op, (ops.ExtOp, ops.Custom)):
                if op.name().startswith("tket.guppy.drop"):
                    f["drop_ops"] += 1
    return f


def run_one(item) -> dict:
    """item = (index, src, entry, exp).  Returns a small picklable record."""
    from vlib import gload
    idx, src, entry, exp = item
    rec = {"i": idx, "status": "", "key": "", "detail": "", "feat": None}
    try:
        set_experimental(exp)
        o, mod = gload.run_src(src, fn=entry)
        try:
            if o.kind == "ok":
                v = gload.validate(o.package)
                if v is None:
                    rec["status"] = "valid"
                    rec["feat"] = hugr_features(o.package)
                else:
                    rec["status"] = "invalid"
                    msg = v.split(":", 1)[1] if ":" in v else v
                    rec["key"] = "invalid-hugr:" + norm_msg(msg.strip())
                    rec["detail"] = v[:400]
            elif o.kind == "error":
                if o.stage in ("check", "define"):
                    rec["status"] = "rejected"
                    rec["detail"] = o.title
                elif o.title in DOCUMENTED_COMPILE_ERRORS:
                    rec["status"] = "entry_error"
                    rec["detail"] = o.title
                else:
                    rec["status"] = "compile_error"
                    rec["key"] = "compile-error:" + o.title
                    rec["detail"] = o.rendered[:400]
            else:
                etype = o.exc.split(":", 1)[0]
                if o.stage == "compile":
                    rec["status"] = "compile_crash"
                    rec["key"] = f"compile-crash:{etype}:{repo_frame(o.tb)}"
                elif etype.startswith("SyntaxError"):
                    rec["status"] = "harness"
                else:
                    rec["status"] = "check_crash"
                    rec["key"] = f"check-crash:{etype}:{repo_frame(o.tb)}"
                rec["detail"] = o.exc[:300]
        finally:
            if mod is not None:
                gload.unload(mod)
    except Exception as e:  # noqa: BLE001  harness bug: surfaced, never a violation
        rec["status"] = "harness"
        rec["detail"] = f"{type(e).__name__}: {e}"[:300]
    return rec


FEATURE_RULES = {
    # counter name -> predicate on (prog, feat)
    "branch_dependent_outputs_tuple_sum": lambda p, f: f["tuple_sum_blocks"] > 0,
    "tuple_sum_with_linear_shared_output": lambda p, f: f["tuple_sum_blocks_with_linear_out"] > 0,
    "drop_insertion": lambda p, f: f["drop_ops"] > 0,
    "struct_or_tuple_places_repacked": lambda p, f: f["make_tuple"] > 0 and f["unpack_tuple"] > 0,
    "struct_place_in_loop": lambda p, f: "struct" in p.tags and bool({"while", "for", "whiletrue"} & set(p.tags))
    and bool({"field-assign", "partial-move"} & set(p.tags)),
    "linear_across_loop": lambda p, f: "linear" in p.tags and bool({"while", "for", "whiletrue"} & set(p.tags)),
    "break_with_linear": lambda p, f: "linear" in p.tags and "break" in p.tags,
    "polymorphic_hugr_function": lambda p, f: f["poly_funcs"] > 0,
    "partial_monomorphisation": lambda p, f: "partial-mono" in p.tags and f["poly_funcs"] > 0,
    "comptime_or_nat_args": lambda p, f: bool({"comptime-arg", "nat-param", "explicit-nat"} & set(p.tags)),
    "nested_function": lambda p, f: "nested" in p.tags and f["func_defns"] > 1,
    "capturing_closure": lambda p, f: "closure" in p.tags,
    "unreachable_exit": lambda p, f: "diverges" in p.tags or "pos:diverge" in p.tags,
    "multi_block_cfg": lambda p, f: f["blocks"] >= 3,
}


def run(ctx) -> dict:
    from vlib import gen01
    progs = gen01.programs(ctx.tier)
    det = gen01.install_deterministic_worklist()
    items = [(i, p.src, p.entry, p.exp) for i, p in enumerate(progs)]
    # warm guppylang's caches in the parent (first check costs ~4 s) so that forked
    # workers inherit them: the first program of every family
    seen = set()
    for it, p in zip(items, progs):
        if p.family not in seen:
            seen.add(p.family)
            run_one(it)
    recs = ctx.pmap(run_one, items, chunk=24)
    counts: dict = {}
    by_family: dict = {}
    shape = {k: 0 for k in FEATURE_RULES}
    reject_titles: dict = {}
    check_crashes: dict = {}
    harness = []
    distinct_shapes = set()
    samples = []
    for p, r in zip(progs, recs):
        st = r["status"]
        counts[st] = counts.get(st, 0) + 1
        fam = by_family.setdefault(p.family, {"programs": 0, "accepted": 0, "rejected": 0})
        fam["programs"] += 1
        if st == "rejected":
            fam["rejected"] += 1
            reject_titles[r["detail"]] = reject_titles.get(r["detail"], 0) + 1
            continue
        if st == "harness":
            harness.append({"src": p.src, "detail": r["detail"]})
            continue
        if st == "check_crash":
            check_crashes.setdefault(r["key"], {"count": 0, "src": p.src, "detail": r["detail"]})["count"] += 1
            continue
        fam["accepted"] += 1
        item = {"src": p.src, "entry": p.entry, "exp": p.exp, "family": p.family}
        if st in ("compile_crash", "compile_error", "invalid"):
            ctx.violation(r["key"], f"[{p.family}] accepted by check(), then {st}: {r['detail'][:160]!r}; "
                          f"program:\n{p.src.split(gen01.HEADER, 1)[-1]}", item)
            continue
        if st == "valid":
            f = r["feat"]
            for k, rule in FEATURE_RULES.items():
                if rule(p, f):
                    shape[k] += 1
            sig = (p.family, f["blocks"], f["tuple_sum_blocks"], f["drop_ops"] > 0, f["poly_funcs"] > 0,
                   f["func_defns"], f["conditionals"])
            if sig not in distinct_shapes:
                distinct_shapes.add(sig)
                if len(samples) < 6 and f["tuple_sum_blocks_with_linear_out"]:
                    samples.append({"family": p.family, "size": list(p.size), "src": p.src.split(gen01.HEADER, 1)[-1],
                                    "features": f})
    if harness:
        raise RuntimeError(f"{len(harness)} harness errors, first: {harness[0]}")
    n = len(progs)
    accepted = n - counts.get("rejected", 0) - counts.get("check_crash", 0)
    rej = counts.get("rejected", 0)
    if rej * 2 > n:
        raise RuntimeError(f"generator coverage hollow: {rej}/{n} programs rejected by the checker")
    if len(samples) < 3:
        for p, r in zip(progs, recs):
            if r["status"] == "valid" and len(samples) < 3:
                samples.append({"family": p.family, "size": list(p.size), "src": p.src.split(gen01.HEADER, 1)[-1]})
    cov = {
        "evaluations": n,
        "distinct_nontrivial": len(distinct_shapes),
        "rule": "non-trivial = accepted, compiled and validated program with a distinct (family, #blocks, "
                "#tuple-sum blocks, has-drop, has-polymorphic-func, #FuncDefn, #Conditional) HUGR shape",
        "samples": samples,
        "programs": n,
        "accepted": accepted,
        "rejected_by_checker": rej,
        "validated": counts.get("valid", 0),
        "compile_crash": counts.get("compile_crash", 0),
        "compile_error": counts.get("compile_error", 0),
        "invalid_hugr": counts.get("invalid", 0),
        "entry_point_errors_documented": counts.get("entry_error", 0),
        "check_crashed": counts.get("check_crash", 0),
        "check_crash_classes": {k: {"count": v["count"], "detail": v["detail"], "src": v["src"]}
                                for k, v in sorted(check_crashes.items())},
        "reject_titles": dict(sorted(reject_titles.items(), key=lambda kv: -kv[1])),
        "shape_counters": shape,
        "by_family": by_family,
        "bound": "quick: <=3 statements (+fixed epilogue), nesting <=2" if ctx.quick
                 else "thorough: <=4 statements (+fixed epilogue), nesting <=3",
        "deterministic_worklist_installed": det,
        "exhaustive": True,
    }
    for k, v in shape.items():
        cov["shape_" + k] = v
    return cov


def replay(ctx, item) -> dict:
    r = run_one((0, item["src"], item.get("entry", "main"), item.get("exp", False)))
    return {"violation": r["status"] in ("compile_crash", "compile_error", "invalid"),
            "status": r["status"], "key": r["key"], "detail": r["detail"]}
