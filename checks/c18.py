"""C18 — range() yields Python's sequence.

One Guppy function per arity is compiled once and executed by hugrvm on EVERY
(start, stop, step) triple of a boundary grid whose Python range has <= L elements
(and the 1-/2-argument forms); the reported sequence must equal list(range(...)).
A step budget turns non-termination into a violation.  Comptime sizes: for n in 0..6,
`array(i for i in range(n))` with n given as a literal, comptime() expression, const
generic or comptime argument must be statically sized n (accepted at array[int, n],
rejected at array[int, n+1]) and contain 0..n-1.
"""
from __future__ import annotations

import itertools

from vlib import gload, hugrvm

ID = "C18"
LEVEL = "exploration"

P63 = 1 << 63
SRC = '''
@guppy
def r1(a: int) -> None:
    for i in range(a):
        result("i", i)

@guppy
def r2(a: int, b: int) -> None:
    for i in range(a, b):
        result("i", i)

@guppy
def r3(a: int, b: int, c: int) -> None:
    for i in range(a, b, c):
        result("i", i)

@guppy
def main() -> None:
    r1(0)
    r2(0, 0)
    r3(0, 0, 1)
'''


def grid(tier):
    small = [0, 1, -1, 2, -2, 3, -3, 5, -5]
    big = [P63 - 1, P63 - 2, P63 - 4, -P63, -P63 + 1, -P63 + 3]
    if tier != "quick":
        small += [4, -4, 7, -7, 8]
        big += [P63 - 3, P63 - 8, -P63 + 2, -P63 + 7, 1 << 62, -(1 << 62)]
    return small + big


def eval_range(h, fn, args, maxlen):
    try:
        want = range(*args)
    except ValueError:
        return "undef", None
    try:
        if len(want) > maxlen:
            return "skip", None
    except OverflowError:
        return "skip", None
    want = list(want)
    r = hugrvm.run(h, fn, [hugrvm.to_vm(a) for a in args], step_budget=40 * (maxlen + 4) * 12)
    if r.status in ("unsupported", "invariant"):
        raise RuntimeError(f"hugrvm: {r.status} {r.detail}")
    got = [v for (_, v) in r.results()]
    if r.status == "budget":
        return "bad", f"does not terminate within budget: yields {got[:maxlen + 3]}…, python {want}"
    if r.status != "ok":
        return "bad", f"{r.status} {r.panic}, python {want}"
    if got != want:
        return "bad", f"yields {got[:12]}, python {want}"
    return "ok", None


def _overflowing(args):
    """Does computing next+step leave the int64 range anywhere along the Python sequence?"""
    a = list(args)
    start, stop, step = (0, a[0], 1) if len(a) == 1 else (a[0], a[1], 1) if len(a) == 2 else a
    rng = range(start, stop, step)
    last = (rng[-1] if len(rng) else start)
    nxt = last + step
    return not (-P63 <= nxt < P63)


COMPTIME_FORMS = {
    "literal": "@guppy\ndef main() -> array[int, {S}]:\n    return array(i for i in range({N}))\n",
    "comptime-expr": "@guppy\ndef main() -> array[int, {S}]:\n    return array(i for i in range(comptime({N} + 0)))\n",
    "const-generic": "@guppy\ndef mk[n: nat]() -> array[int, n]:\n    return array(i for i in range(n))\n\n"
                     "@guppy\ndef main() -> array[int, {S}]:\n    xs: array[int, {N}] = mk()\n    return xs\n",
    "comptime-arg": "@guppy\ndef mk(n: nat @comptime) -> array[int, n]:\n    return array(i for i in range(n))\n\n"
                    "@guppy\ndef main() -> array[int, {S}]:\n    return mk({N})\n",
}


def eval_comptime(item):
    form, n, s = item
    src = COMPTIME_FORMS[form].replace("{N}", str(n)).replace("{S}", str(s))
    o, mod = gload.run_src(src)
    if o.kind == "crash":
        return {"kind": "crash", "detail": o.exc}
    if s != n:
        return {"kind": "ok" if o.kind == "error" else "bad",
                "detail": f"range({n}) accepted where an array of static size {s} is required"}
    if o.kind == "error":
        return {"kind": "bad", "detail": f"range({n}) rejected at array[int, {n}]: {o.title}"}
    r = hugrvm.run(o.package.modules[0], "main", [])
    if r.status in ("unsupported", "invariant", "budget"):
        raise RuntimeError(f"hugrvm: {r.status} {r.detail}\n{src}")
    got = [hugrvm.s64(v) for v in r.values[0].slots] if r.status == "ok" else r.status
    if got != list(range(n)):
        return {"kind": "bad", "detail": f"array from range({n}) is {got}"}
    return {"kind": "ok"}


def run(ctx):
    o, mod = gload.run_src(SRC)
    if not o.ok:
        ctx.violation("range-program-rejected", f"basic range program not accepted: {o.brief()}", {"kind": "src"})
        return {"evaluations": 1, "distinct_nontrivial": 0, "rule": "", "samples": [SRC]}
    h = o.package.modules[0]
    g = grid(ctx.tier)
    maxlen = 8 if ctx.quick else 12
    n = nt = skipped = undef = 0
    samples = []
    for arity, fn in ((1, "r1"), (2, "r2"), (3, "r3")):
        for args in itertools.product(g, repeat=arity):
            n += 1
            st, d = eval_range(h, fn, args, maxlen)
            if st == "undef":
                undef += 1
            elif st == "skip":
                skipped += 1
            else:
                nt += 1
                if len(samples) < 6 and nt % 397 == 5:
                    samples.append({"range_args": list(args), "python": list(range(*args))})
                if st == "bad":
                    cls = "overflow-near-int-bounds" if _overflowing(args) else "value"
                    ctx.violation(f"range{arity}:{cls}", f"range{args}: {d}", {"kind": "rt", "fn": fn, "args": list(args), "maxlen": maxlen})
    items = [(f, k, s) for f in COMPTIME_FORMS for k in range(0, 7 if ctx.quick else 10) for s in (k, k + 1)]
    res = ctx.pmap(eval_comptime, items, chunk=4)
    for (f, k, s), r in zip(items, res):
        n += 1
        nt += 1
        if r["kind"] == "crash":
            ctx.violation(f"comptime-size:{f}:compiler-crash", f"range({k}) via {f}: {r['detail']}", {"kind": "ct", "item": [f, k, s]})
        elif r["kind"] == "bad":
            ctx.violation(f"comptime-size:{f}:{'wrong-size-accepted' if s != k else 'value'}",
                          f"range({k}) via {f}: {r['detail']}", {"kind": "ct", "item": [f, k, s]})
    return {
        "evaluations": n, "distinct_nontrivial": nt,
        "rule": f"all 1-, 2- and 3-argument ranges over a {len(g)}-value boundary grid (step != 0) with Python length <= {maxlen}; "
                "comptime sizes 0..6 in 4 forms at the right and a wrong static size",
        "samples": samples, "grid": [str(v) for v in g],
        "skipped_longer_than_bound": skipped, "skipped_python_undefined": undef, "comptime_cases": len(items),
    }


def replay(ctx, item):
    if item["kind"] == "ct":
        r = eval_comptime(tuple(item["item"]))
        return {"violation": r["kind"] != "ok", "result": r}
    o, mod = gload.run_src(SRC)
    st, d = eval_range(o.package.modules[0], item["fn"], tuple(item["args"]), item["maxlen"])
    return {"violation": st == "bad", "detail": d}
