"""C17 — Integer literals are range-checked and preserved exactly.

Enumerates N over all 2^k + d (k <= 66, d in -1..1, both signs), [-70, 70] and a few
30-digit values, in every syntactic form (literal, -N, -(N), +N, comptime(N),
comptime(N + 0), inside comptime tuples / lists, as argument, as array element) at types
int and nat.  Oracle: accepted iff N is in the type's range; the value the compiled
program computes with (function return, typed) and reports (result()) is exactly N.
"""
from __future__ import annotations

from vlib import gload, hugrvm

ID = "C17"
LEVEL = "exploration"

P63, P64 = 1 << 63, 1 << 64
RANGE = {"int": (-P63, P63 - 1), "nat": (0, P64 - 1)}


def values(tier):
    vs = set(range(-70, 71)) if tier != "quick" else set(range(-3, 4))
    ks = range(0, 67) if tier != "quick" else [0, 1, 7, 31, 32, 52, 53, 62, 63, 64, 65, 66]
    for k in ks:
        for d in (-1, 0, 1):
            vs.add((1 << k) + d)
            vs.add(-((1 << k) + d))
    vs.update([10 ** 29 + 7, -(10 ** 29 + 7), 3 * 10 ** 19, -3 * 10 ** 19])
    return sorted(vs)


def lit(n):
    """Source text of the integer n as Python would write it (negative = unary minus)."""
    return str(n)


# forms: name -> (source template, how the value is observed).  {T} type, {L} literal text.
FORMS = {
    "return":          "@guppy\ndef main() -> {T}:\n    return {L}\n",
    "annassign":       "@guppy\ndef main() -> {T}:\n    v: {T} = {L}\n    return v\n",
    "paren-neg":       "@guppy\ndef main() -> {T}:\n    return -({A})\n",          # only for n <= 0: -(|n|)
    "plus":            "@guppy\ndef main() -> {T}:\n    return +{L}\n",
    "comptime":        "@guppy\ndef main() -> {T}:\n    return comptime({L})\n",
    "comptime-expr":   "@guppy\ndef main() -> {T}:\n    return comptime({L} + 0)\n",
    "comptime-tuple":  "@guppy\ndef main() -> {T}:\n    t: tuple[{T}, int] = comptime(({L}, 1))\n    return t[0]\n",
    "comptime-list":   "from guppylang.std.array import frozenarray\n\n@guppy\ndef main() -> {T}:\n"
                       "    xs: frozenarray[{T}, 1] = comptime([{L}])\n    return xs[0]\n",
    "comptime-list-later": "from guppylang.std.array import frozenarray\n\n@guppy\ndef main() -> {T}:\n"
                           "    xs: frozenarray[{T}, 3] = comptime([0, 1, {L}])\n    return xs[2]\n",
    "comptime-nested-list": "from guppylang.std.array import frozenarray\n\n@guppy\ndef main() -> {T}:\n"
                            "    t: tuple[int, frozenarray[{T}, 2]] = comptime((7, [1, {L}]))\n    return t[1][1]\n",
    "comptime-tuple-later": "@guppy\ndef main() -> {T}:\n    t: tuple[int, {T}] = comptime((1, {L}))\n    return t[1]\n",
    # inside comprehensions (experimental lists): guard and element expressions are desugared separately
    "comprehension-guard":   "@guppy\ndef main() -> {T}:\n    ys = [y for y in range(2) if y != {L}]\n    return {L}\n",
    "comprehension-element": "@guppy\ndef main() -> {T}:\n    ys = [y + {L} for y in range(2)]\n    return {L}\n",
    "array-comprehension-element": "@guppy\ndef main() -> {T}:\n    ys = array({L} for _ in range(2))\n    return ys[1]\n",
    "argument":        "@guppy\ndef idf(v: {T}) -> {T}:\n    return v\n\n@guppy\ndef main() -> {T}:\n    return idf({L})\n",
    "array-element":   "@guppy\ndef main() -> {T}:\n    xs: array[{T}, 2] = array({L}, 0)\n    return xs[0]\n",
    "arith":           "@guppy\ndef main(z: {T}) -> {T}:\n    v: {T} = {L}\n    return v + z\n",
    "report":          "@guppy\ndef main() -> None:\n    v: {T} = {L}\n    result(\"v\", v)\n",
}


def eval_case(item):
    form, ty, n = item
    tmpl = FORMS[form]
    if form in ("comprehension-guard", "comprehension-element", "array-comprehension-element") and ty == "nat":
        return {"kind": "na"}        # the loop variable of range() is an int; an unannotated element literal too
    if form == "paren-neg":
        if n > 0:
            return {"kind": "na"}
        src = tmpl.replace("{T}", ty).replace("{A}", str(-n))
    else:
        src = tmpl.replace("{T}", ty).replace("{L}", lit(n))
    lo, hi = RANGE[ty]
    inrange = lo <= n <= hi
    o, mod = gload.run_src(src)
    if o.kind == "crash":
        return {"kind": "crash", "detail": o.exc, "src": src}
    if o.kind == "error":
        if inrange:
            # -(N) and +N apply a unary operator to a literal: for nat, `-` is not defined at all, and
            # -(2^63) at int needs the out-of-range literal 2^63 first; the statement speaks of "negated
            # literals", which `-N` covers; the parenthesised / plus forms may legitimately be rejected
            if form in ("paren-neg", "plus") :
                return {"kind": "open", "detail": o.title}
            return {"kind": "bad", "cls": "in-range-rejected", "detail": f"{ty} literal {n} rejected: {o.title}", "src": src}
        return {"kind": "ok", "accepted": False}
    if not inrange:
        return {"kind": "bad", "cls": "out-of-range-accepted", "detail": f"{ty} literal {n} accepted although outside [{lo}, {hi}]", "src": src}
    h = o.package.modules[0]
    args = [0] if form == "arith" else []
    r = hugrvm.run(h, "main", args)
    if r.status in ("unsupported", "invariant", "budget"):
        raise RuntimeError(f"hugrvm: {r.status} {r.detail}\n{src}")
    if r.status != "ok":
        return {"kind": "bad", "cls": "value", "detail": f"{ty} literal {n}: program {r.status} {r.panic}", "src": src}
    if form == "report":
        got = r.results()[0][1]
    else:
        got = hugrvm.from_vm(r.values[0], ty)
    if got != n:
        cls = "nat-reported-signed" if (form == "report" and ty == "nat" and n >= P63 and got == n - P64) else "value"
        return {"kind": "bad", "cls": cls, "detail": f"{ty} literal {n} observed as {got}", "src": src}
    return {"kind": "ok", "accepted": True}


def run(ctx):
    import guppylang_internals.experimental as ex
    ex.enable_experimental_features()       # list comprehensions
    vs = values(ctx.tier)
    forms = list(FORMS)
    items = [(f, t, n) for f in forms for t in ("int", "nat") for n in vs]
    res = ctx.pmap(eval_case, items, chunk=24)
    n = acc = rej = opn = 0
    samples = []
    for it, r in zip(items, res):
        if r["kind"] == "na":
            continue
        n += 1
        if r["kind"] == "ok":
            acc += r["accepted"]
            rej += not r["accepted"]
        elif r["kind"] == "open":
            opn += 1
        elif r["kind"] == "crash":
            ctx.violation(f"compiler-crash:{it[0]}:{it[1]}", f"{it}: {r['detail']}", {"item": list(it)})
        else:
            ctx.violation(f"{r['cls']}:{it[0]}:{it[1]}", r["detail"] + f" (form {it[0]})", {"item": list(it)})
        if len(samples) < 6 and n % 977 == 11:
            samples.append({"form": it[0], "type": it[1], "N": str(it[2]), "outcome": r["kind"]})
    return {
        "evaluations": n, "distinct_nontrivial": acc + rej,
        "rule": "N in {+-(2^k + d)} U small range U 30-digit values, x 18 syntactic forms x {int, nat}; non-trivial = decided accept/reject "
                "with value check",
        "samples": samples, "values": len(vs), "forms": forms,
        "accepted_and_value_checked": acc, "rejected_out_of_range": rej, "open_cases_unary_operator_forms": opn,
    }


def replay(ctx, item):
    import guppylang_internals.experimental as ex
    ex.enable_experimental_features()
    f, t, n = item["item"]
    r = eval_case((f, t, int(n)))
    return {"violation": r["kind"] in ("bad", "crash"), "result": r}
