"""C11 — Compiling a definition does not depend on session history.

Model checking with the history explorer `vlib.histx`: the ROOT image is this process
after it has *loaded* the generated pool module (decorators ran; nothing was ever
checked or compiled in the interpreter).  histx forks one process per history branch,
so every history runs in one genuine interpreter session whose state is exactly the
one its prefix produced (ENGINE, DEF_STORE, `tmp_vars`/DefId/GlobalConstId counters,
the tracing-state context variable, experimental flag, linecache ...).

Pool (ONE module): plain function with two compiler temporaries live across a basic
block boundary; a function with nine conditional expressions (nine temporaries, never
two alive at once); PEP-695
generic function + a caller instantiating it at int and float; function with a
`@comptime` int parameter (monomorphised; as an entry point it fails ONLY at compile
time: "Invalid entry point") + a caller instantiating it at two values (the same
checked CFG is lowered twice -> `compile_cfg` return-var guard); struct with a method
+ user (takes the constructor as a value, which puts the generated, per-check numbered
symbol `Pt.__new__.<n>` into the HUGR); nested RECURSIVE capturing closure (`compile_local_func_def`,
`input_tys.append`) alone and inside a monomorphised function instantiated twice; a
comptime function; a comptime function whose body raises a Python exception; a function
failing type checking; a function whose comptime *expression* calls a Guppy function
(fails checking with "Python error").

Operations: check(d), compile(d) (= compile_function) for every d.  No deduplication of
states (no justified canonical state).  Bounds (each enumerated completely):
  quick     ALL sequences of length <= 2 over the 18 operations of the first 9
            definitions (plain, busy, gen_caller, mono, use_struct, mono_closure_caller,
            ct_raises, bad_type, py_call);
  thorough  ALL sequences of length <= 2 over all 22 operations, and ALL sequences of
            length <= 3 over the 14 operations of the 7-definition core pool CORE_DEFS.
Forking compiler images costs ~65-75 ms per history node on the verification VM and does
not parallelise there (see vlib/histx.py), hence these bounds and sequential forking.

Oracle (same run, no recorded baseline): the observation of the last operation of every
history must equal the observation of the ONE-STEP history consisting of that operation
alone (fresh session):
  * compile(d) ok  -> canonical HUGR text equal;
  * failing op     -> same outcome class (GuppyError vs other exception), same error
                      title / exception type, same rendered diagnostic;
  * check(d)       -> same outcome (ok / error title / rendered diagnostic).
Canonical HUGR text = the serialised hugr module (nodes in index order, each node as
key-sorted JSON, its metadata, the edge list in order, the entrypoint), plus extension
names/versions.  Renumbered by first occurrence: ONLY function names of the form
`<base>.<digits>` (GlobalConstId.name, the single documented counter that reaches HUGR
symbol names).  `%tmpN` variable names and DefIds never occur in the HUGR, so nothing
else is renumbered; node order / port order / wiring are compared literally.

Also (sanity of the pool, from the language definition): definitions that are well
typed by construction must compile in the fresh session and pass the real HUGR
validator; the others must fail at the expected stage.
"""
from __future__ import annotations

import hashlib
import os
import json
import re

ID = "C11"
LEVEL = "model_checking"

POOL_SRC = '''\
from guppylang import guppy, qubit, array, comptime, enable_experimental_features
from guppylang.std.builtins import owned, nat, result
from guppylang.std.quantum import h, measure, discard

enable_experimental_features()


@guppy
def plain(x: int, y: int) -> int:
    a = (x if x > y else y) + (y if y > 3 else x + 1)
    return a * 2


@guppy
def busy(x: int, y: int) -> int:
    a = x if x > y else y
    b = y if y > 3 else x
    c = 1 if a > b else 2
    d = a if c > y else b
    e = b if d > a else c
    f = 3 if e > d else 4
    g = d if f > e else e
    i = e if g > f else f
    j = 5 if i > g else 6
    return a + b + c + d + e + f + g + i + j


@guppy
def ident[T](x: T @ owned) -> T:
    return x


@guppy
def gen_caller(a: int, b: float) -> float:
    return ident(b) + ident(a)


@guppy
def mono(x: int, n: int @ comptime) -> int:
    if x > n:
        return x - n
    return x + n


@guppy
def mono_caller(x: int) -> int:
    return mono(x, 1) + mono(x, 2)


@guppy.struct
class Pt:
    x: int
    y: int

    @guppy
    def norm1(self: "Pt") -> int:
        return self.x + self.y


@guppy
def use_struct(a: int) -> int:
    mk = Pt
    p = mk(a, 2)
    return p.norm1()


@guppy
def closure(x: int) -> int:
    def bar(y: int, z: int) -> int:
        if y == 0:
            return z
        return bar(y - 1, z * x)

    return bar(x, 1)


@guppy
def mono_closure(x: int, n: int @ comptime) -> int:
    def bar(y: int, z: int) -> int:
        if y == 0:
            return z
        return bar(y - 1, z * x)

    return bar(x, n)


@guppy
def mono_closure_caller(x: int) -> int:
    return mono_closure(x, 1) + mono_closure(x, 2)


@guppy.comptime
def ct(x: int) -> int:
    y = x
    for i in range(2):
        y = y + plain(y, i)
    return y


@guppy.comptime
def ct_raises(x: int) -> int:
    y = plain(x, 1)
    raise ValueError("user bug in comptime body")


@guppy
def bad_type(x: int) -> int:
    return x + 1.5


@guppy
def py_call(x: int) -> int:
    return x + comptime(plain(1, 2))


@guppy
def rec_nested(n: int) -> int:
    # the nested function has the NAME of the module-level function `plain`
    def plain(k: int) -> int:
        if k <= 1:
            return 1
        return k * plain(k - 1)

    return plain(n)


@guppy
def spin(x: int) -> int:
    while True:
        x += 1


@guppy
def spin_caller(x: int) -> int:
    if x > 0:
        return spin(x)
    return x


@guppy
def bad_sig(x: "NoSuchStruct") -> int:
    return 1


@guppy
def calls_bad_sig(x: int) -> int:
    return bad_sig(x)


@guppy.comptime
def ct_interrupt() -> int:
    q = qubit()
    h(q)
    result("x", measure(q))
    raise KeyboardInterrupt()


@guppy
def qfun(x: int) -> bool:
    q = qubit()
    h(q)
    if x > 0:
        h(q)
    result("x", x)
    return measure(q)


# the module gives its OWN meaning to a name the comptime tracer shadows while it runs
@guppy
def len(x: int) -> int:
    return x + 100


@guppy
def uses_len(x: int) -> int:
    return len(x)


# a loaded pytket circuit with a symbolic parameter (the `angle` type is looked up per session)
from pytket import Circuit as _Circuit
from sympy import Symbol as _Symbol
from guppylang.std.angles import angle

_circ = _Circuit(1)
_circ.Rz(_Symbol("a"), 0)
pk_loaded = guppy.load_pytket("pk_loaded", _circ, use_arrays=False)


@guppy
def uses_circ(q: qubit) -> None:
    pk_loaded(q, angle(0.5))


@guppy
def uses_angle(a: angle) -> angle:
    return a + angle(0.25)
'''

# name -> expected fresh-session behaviour (from the language definition)
#   ok            check ok, compile ok + valid HUGR
#   check-error   GuppyError while checking (so compile fails the same way)
#   compile-error check ok, GuppyError only when compiled as entry point
#   compile-exc   check ok, the user's own Python exception escapes compile
# the first QUICK_DEFS definitions form the quick tier's pool (a forked history node costs
# ~65-75 ms and forking does not parallelise on the verification VM: ~13 nodes/s)
POOL = [
    ("plain", "ok"), ("busy", "ok"), ("gen_caller", "ok"), ("mono", "compile-error"),
    ("use_struct", "ok"), ("mono_closure_caller", "ok"), ("ct_raises", "compile-exc"),
    ("bad_type", "check-error"), ("py_call", "check-error"),
    ("ct", "ok"), ("closure", "ok"),
    ("rec_nested", "ok"), ("spin", "ok"), ("spin_caller", "ok"),
    ("calls_bad_sig", "check-error"), ("ct_interrupt", "compile-exc"), ("qfun", "ok"),
    ("uses_len", "ok"), ("uses_circ", "ok"), ("uses_angle", "ok"),
]
# fourth quick phase: state that lives OUTSIDE the engine - the module's own binding of a name the tracer shadows
# (user of it / a comptime function), and types resolved lazily per session (loaded pytket circuit with a parameter)
LATE3_DEFS = ("uses_len", "ct", "uses_circ", "uses_angle")
# third quick phase: a caller of a definition whose SIGNATURE fails to parse (state kept by the parser
# across a failed parse), a compile aborted by a BaseException that is not an Exception after a
# side-effecting operation was emitted (state restored only on `except Exception` paths), and a function
# with side-effecting operations compiled afterwards
LATE2_DEFS = ("calls_bad_sig", "ct_interrupt", "qfun")
# second quick phase / third thorough phase: a NON-capturing recursive nested function (registered in
# the enclosing frame's locals by check_nested_func_def) and a function whose exit block is
# unreachable (compile_cfg's return-variable guard sees an exit block without predecessors)
LATE_DEFS = ("rec_nested", "spin", "spin_caller", "plain")
QUICK_DEFS = 9
# definitions that are in the module (and reachable as dependencies) but are not
# operated on directly, to keep the history tree affordable: Pt (through use_struct),
# ident (through gen_caller), mono_caller, mono_closure (through mono_closure_caller)
OPS = [(w, n) for n, _ in POOL for w in ("check", "compile")]

_GLOBAL_ID = re.compile(r"^(.*)\.(\d+)$")


def op_str(i) -> str:
    return f"{OPS[i][0]}({OPS[i][1]})"


def hist_str(h) -> str:
    return "[" + ", ".join(op_str(i) for i in h) + "]"


# ---------------------------------------------------------------- canonical text
def canonical(pkg) -> list[str]:
    """Canonical text lines of a compiled package (see module docstring).  Every node
    / edge line carries a derived tag `@<module-level item>@` (the function the node
    lives in; an edge is tagged by its source node) used only to attribute differences."""
    lines = []
    seen: dict[str, str] = {}
    for mi, h in enumerate(pkg.modules):
        d = json.loads(h._to_serial().model_dump_json())
        nodes = d["nodes"]
        meta = d.get("metadata") or []
        for i, n in enumerate(nodes):
            nm = n.get("name")
            if n.get("op") in ("FuncDefn", "FuncDecl") and isinstance(nm, str) and _GLOBAL_ID.match(nm):
                if nm not in seen:
                    seen[nm] = f"{_GLOBAL_ID.match(nm).group(1)}.#{len(seen)}"
                nodes[i] = dict(n, name=seen[nm])
        owner: list[str] = []
        for i, n in enumerate(nodes):
            par = n.get("parent", i)
            if par == i:
                owner.append("<root>")
            elif nodes[par].get("parent", par) == par:
                owner.append(str(n.get("name") or n.get("op")))
            else:
                owner.append(owner[par] if par < i else "<forward-parent>")
        for i, n in enumerate(nodes):
            md = meta[i] if i < len(meta) else None
            lines.append(f"m{mi} n{i} @{owner[i]}@ " + json.dumps(n, sort_keys=True)
                         + (" META " + json.dumps(md, sort_keys=True) if md else ""))
        for e in d["edges"]:
            lines.append(f"m{mi} e @{owner[e[0][0]]}@ " + json.dumps(e))
        lines.append(f"m{mi} entrypoint {d.get('entrypoint')} version {d.get('version')}")
    lines.append("extensions " + json.dumps([[e.name, str(e.version)] for e in pkg.extensions]))
    return lines


def _sha(s: str) -> str:
    return hashlib.sha256(s.encode()).hexdigest()[:20]


# ---------------------------------------------------------------- in-image state
_M = {"mod": None}
REF: dict[int, dict] = {}        # op index -> reference observation (full)


def init(root) -> None:
    from vlib import gload
    import checks.c26  # noqa: F401 - installs the tket.circuit.Tk2Circuit alias the pytket loader of /repo needs
    _M["mod"] = gload.load(POOL_SRC, name="c11pool")


def _tmp_counter() -> int:
    """Peek (without consuming) at the global temporary-variable counter."""
    try:
        from guppylang_internals.cfg.builder import tmp_vars
        return int(re.search(r"\d+", repr(tmp_vars.gi_frame.f_locals[".0"])).group())
    except Exception:  # noqa: BLE001 - coverage counter only
        return -1


def observe(op: int, full: bool) -> dict:
    """Apply operation `op` in this process and describe what happened."""
    from guppylang_internals.error import GuppyError
    from vlib import gload
    what, name = OPS[op]
    defn = _M["mod"].__dict__[name]
    obs: dict = {"tmp": _tmp_counter()}
    try:
        if what == "check":
            defn.check()
            obs.update(kind="ok", text=["checked"])
        else:
            pkg = defn.compile_function() if hasattr(defn, "compile_function") else defn.compile()
            obs.update(kind="ok", text=canonical(pkg))
            obs["renumbered"] = sum(1 for x in obs["text"] if x.startswith("m") and '.#' in x.split(" ", 3)[2])
            if full:
                obs["valid"] = gload.validate(pkg)
    except GuppyError as e:
        try:
            rendered = gload.render_error(e)
        except Exception as e2:  # noqa: BLE001
            rendered = f"<<render failed: {type(e2).__name__}: {e2}>>"
        obs.update(kind="error", title=str(getattr(e.error, "rendered_title", None) or e.error.title),
                   text=rendered.splitlines())
    except RecursionError as e:
        obs.update(kind="exc", title="RecursionError", text=[str(e)])
    except KeyboardInterrupt as e:       # raised by the pool's own comptime function, not by a user
        obs.update(kind="exc", title="KeyboardInterrupt", text=[str(e)])
    except Exception as e:  # noqa: BLE001 - escaping non-Guppy exception
        obs.update(kind="exc", title=type(e).__name__, text=[str(e)])
    obs["sha"] = _sha(obs["kind"] + "\n" + obs.get("title", "") + "\n" + "\n".join(obs["text"]))
    if not full:
        ref = REF.get(op)
        if ref is not None and ref["sha"] != obs["sha"]:
            obs["diff"] = _diff(ref, obs)
        del obs["text"]
    return obs


_TAG = re.compile(r"^m\d+ (?:n\d+|e) @(.*?)@ ")


def _diff(ref: dict, obs: dict) -> dict:
    a, b = ref["text"], obs["text"]
    d: dict = {"ref_kind": ref["kind"], "ref_title": ref.get("title", ""), "n_ref": len(a), "n_got": len(b)}
    for i, (x, y) in enumerate(zip(a, b)):
        if x != y:
            d.update(line=i, ref_line=x[:400], got_line=y[:400])
            break
    else:
        d.update(line=min(len(a), len(b)), ref_line="<end>" if len(a) <= len(b) else a[len(b)][:400],
                 got_line="<end>" if len(b) <= len(a) else b[len(a)][:400])
    if ref["kind"] == "ok" and obs["kind"] == "ok":
        # which module-level items (functions) differ, and how
        def group(lines):
            g: dict[str, list] = {}
            for x in lines:
                m = _TAG.match(x)
                g.setdefault(m.group(1) if m else "<package>", []).append(x)
            return g
        ga, gb = group(a), group(b)
        funcs = sorted(k for k in set(ga) | set(gb) if ga.get(k) != gb.get(k))
        d["where"] = funcs
        na = [x for x in a if not x.split(" ", 2)[1] == "e"]
        nb = [x for x in b if not x.split(" ", 2)[1] == "e"]
        if na == nb:
            d["cls"] = "same-nodes-different-wiring"
        elif sorted(_strip_idx(x) for x in na) == sorted(_strip_idx(x) for x in nb):
            d["cls"] = "same-node-multiset-different-order"
        else:
            d["cls"] = "different-nodes"
    elif ref["kind"] != obs["kind"]:
        d["cls"] = f"outcome-{ref['kind']}-became-{obs['kind']}"
    elif ref.get("title") != obs.get("title"):
        d["cls"] = "different-error"
    else:
        d["cls"] = "same-error-different-diagnostic-text"
    return d


def _strip_idx(line: str) -> str:
    return re.sub(r'^m\d+ n\d+ ', "", re.sub(r'"parent": \d+', '"parent": _', line))


_OPMAP: list[int] = []           # explorer operation index -> index into OPS


def step(root, hist, op) -> dict:
    return observe(_OPMAP[op], full=False)


def _ref_step(root, hist, op) -> dict:
    return observe(_OPMAP[op], full=True)


# ---------------------------------------------------------------- driver
def _expect_ok(exp, what, obs) -> str | None:
    """Pool sanity in the fresh session; returns a complaint or None."""
    k = obs["kind"]
    if exp == "ok":
        if k != "ok":
            return f"expected ok, got {k}:{obs.get('title')}: {' | '.join(obs['text'][:6])[:300]}"
        if what == "compile" and obs.get("valid") is not None:
            return f"fresh-session HUGR rejected by the validator: {obs['valid'][:300]}"
        return None
    if exp == "check-error":
        return None if k == "error" else f"expected a GuppyError, got {k}"
    if exp == "compile-error":
        want = "ok" if what == "check" else "error"
        return None if k == want else f"expected {want}, got {k}:{obs.get('title')}"
    if exp == "compile-exc":
        want = "ok" if what == "check" else "exc"
        return None if k == want else f"expected {want}, got {k}:{obs.get('title')}"
    return f"unknown expectation {exp}"


def _fork_workers(ctx) -> int:
    # measured on the verification VM: forked compiler images cost ~65 ms per node and
    # the total throughput does NOT grow with the number of concurrent forking processes
    # (15 nodes/s with 1, 12 with 2, 9.5 with >= 4: page-table work is serialised), so
    # concurrent unit processes only burn CPU: explore sequentially.
    return max(1, int(os.environ.get("VERIF_FORK_WORKERS", "1")))


# definitions whose operations form the depth-3 tree of the thorough tier: the ones that
# can carry state into later operations (counter consumers busy/ct, failing operations
# ct_raises/py_call/bad_type, the twice-lowered CFG with a recursive closure) + the
# function whose HUGR is sensitive to the temporaries counter
CORE_DEFS = ("plain", "busy", "ct", "ct_raises", "py_call", "mono_closure_caller", "bad_type")


def phases(quick: bool) -> list[tuple[str, list[int], int]]:
    """[(label, operation indices into OPS, depth)].  Every phase explores ALL sequences
    over its operations up to its depth."""
    late = [i for i, (_w, nme) in enumerate(OPS) if nme in LATE_DEFS]
    late2 = [i for i, (_w, nme) in enumerate(OPS) if nme in LATE2_DEFS]
    late3 = [i for i, (_w, nme) in enumerate(OPS) if nme in LATE3_DEFS]
    if quick:
        return [("quick-pool", list(range(2 * QUICK_DEFS)), 2), ("late-pool", late, 2), ("late-pool-2", late2, 2), ("late-pool-3", late3, 2)]
    core = [i for i, (_w, nme) in enumerate(OPS) if nme in CORE_DEFS]
    return [("full-pool", list(range(len(OPS))), 2), ("core-pool", core, 3), ("late-pool", late, 3), ("late-pool-2", late2, 3),
            ("late-pool-3", late3, 3)]


def run(ctx) -> dict:
    from vlib import histx
    plan = phases(ctx.quick)
    used_ops = sorted({i for _l, ops, _d in plan for i in ops})
    n = len(used_ops)
    depth = max(d for _l, _o, d in plan)

    # 1. references: the one-step histories, each in its own fresh image of the root
    _OPMAP[:] = used_ops
    ref_res = histx.explore([None], n, 1, init, _ref_step, workers=_fork_workers(ctx), split=1)
    REF.clear()
    for _ri, h, obs in ref_res.records:
        REF[used_ops[h[0]]] = obs
    expect = dict(POOL)
    pool_problems = []
    for op, obs in sorted(REF.items()):
        what, name = OPS[op]
        bad = _expect_ok(expect[name], what, obs)
        if bad:
            pool_problems.append((op, f"{op_str(op)}: {bad}"))
    for op, p in pool_problems:
        # a well-typed pool member that does not compile to valid HUGR in a FRESH session
        # (or a failing one that fails differently than constructed) is not a history
        # effect; it is surfaced as its own class so that it cannot go unnoticed.
        ctx.violation(f"fresh-session-outcome-unexpected:{op_str(op)}",
                      f"one-step history [{op_str(op)}] in a fresh session: {p}",
                      {"history": [op], "pool_sanity": True})

    # 2. per phase: all histories up to its depth; children compare against REF
    #    (inherited by fork).  Histories are re-keyed to indices into OPS.
    by_node: dict[tuple, dict] = {}
    executed = forks = maximal = 0
    overlap_same = 0
    for _label, ops, d in plan:
        _OPMAP[:] = ops
        res = histx.explore([None], len(ops), d, init, step, workers=_fork_workers(ctx), split=1)
        executed += res.executed
        forks += res.forks
        maximal += len(ops) ** d
        for _ri, h, obs in res.records:
            hh = tuple(ops[i] for i in h)
            if hh in by_node:
                # the same history executed again in another phase (other forked processes)
                if by_node[hh]["sha"] != obs["sha"]:
                    raise RuntimeError(f"harness: history {hist_str(hh)} observed differently by two executions")
                overlap_same += 1
            else:
                by_node[hh] = obs
    records = sorted(by_node.items(), key=lambda kv: (len(kv[0]), kv[0]))

    kinds: dict[str, int] = {}
    mism = 0
    distinct_sha = set()
    compile_nodes = fail_after_fail = ok_after_fail = renumbered_nodes = 0
    tmp_offsets: dict[str, set] = {}
    samples = []
    for h, obs in records:
        op = h[-1]
        what, name = OPS[op]
        kinds[f"{what}:{obs['kind']}"] = kinds.get(f"{what}:{obs['kind']}", 0) + 1
        distinct_sha.add((op, obs["sha"]))
        if what == "compile":
            compile_nodes += 1
            renumbered_nodes += 1 if obs.get("renumbered") else 0
            tmp_offsets.setdefault(name, set()).add(obs["tmp"])
        if len(h) > 1 and by_node[h[:-1]]["kind"] != "ok":
            if obs["kind"] == "ok":
                ok_after_fail += 1
            else:
                fail_after_fail += 1
        if obs["sha"] != REF[op]["sha"]:
            mism += 1
            d = obs.get("diff") or {}
            cls = d.get("cls", "?")
            if "where" in d:      # HUGR differs: key on the function(s) whose HUGR differs
                key = f"history-dependent:hugr:{'+'.join(d['where'])}:{cls}"
            else:                 # outcome / diagnostic differs: key on the definition
                key = f"history-dependent:outcome:{name}:{cls}"
            ctx.violation(
                key,
                f"{op_str(op)} after history {hist_str(h[:-1])} differs from the fresh-session result "
                f"({cls}; first difference at canonical line {d.get('line')}: fresh `{str(d.get('ref_line'))[:160]}` "
                f"vs `{str(d.get('got_line'))[:160]}`)",
                {"history": list(h)})
        if len(samples) < 5 and len(h) == depth and h[0] % 7 == 3 and what == "compile" and h[-1] % 5 == 1:
            samples.append({"history": hist_str(h), "kind": obs["kind"], "sha": obs["sha"],
                            "equals_fresh": obs["sha"] == REF[op]["sha"]})

    nontrivial = sum(1 for h, _o in records if len(h) >= 2)
    cov = {
        "states": len(records),                     # distinct history-prefix nodes executed
        "transitions": executed,                    # operations executed (incl. prefix re-runs)
        "traces_validated_against_impl": maximal,   # maximal histories completed
        "evaluations": len(records),
        "distinct_nontrivial": nontrivial,
        "rule": "a node is non-trivial iff its history has >= 2 operations (the last operation runs in a session that already checked/compiled something)",
        "samples": samples,
        "pool_definitions": n // 2,
        "operations": n,
        "history_depth": depth,
        "phases": [{"label": l, "operations": len(o), "depth": d, "definitions": sorted({OPS[i][1] for i in o})}
                   for l, o, d in plan],
        "histories_executed_twice_identical": overlap_same,
        "reference_one_step_histories": len(REF),
        "compile_steps_compared": compile_nodes,
        "compile_steps_with_renumbered_generated_names": renumbered_nodes,
        "observations_differing_from_fresh": mism,
        "outcome_kinds": dict(sorted(kinds.items())),
        "distinct_observations": len(distinct_sha),
        "steps_after_failed_previous_step_ok": ok_after_fail,
        "steps_after_failed_previous_step_failing": fail_after_fail,
        "tmp_counter_offsets_seen_before_compile": {k: sorted(v) for k, v in sorted(tmp_offsets.items())},
        "pool_sanity_problems": [p for _op, p in pool_problems],
        "forks": forks + ref_res.forks,
        "explorer": "histx: fork per history branch; root image = module loaded, nothing checked/compiled",
        "exhaustive": True,
    }
    return cov


def replay(ctx, item) -> dict:
    from vlib import histx
    hist = item["history"]

    def fresh():
        init(None)
        return observe(hist[-1], full=True)

    def go():
        init(None)
        out = None
        for op in hist:
            out = observe(op, full=True)
        return out

    ref = histx.run_forked(fresh, "replay-ref")
    if item.get("pool_sanity"):
        name = OPS[hist[-1]][1]
        bad = _expect_ok(dict(POOL)[name], OPS[hist[-1]][0], ref)
        return {"violation": bool(bad), "problem": bad, "history": hist_str(hist)}
    got = histx.run_forked(go, "replay-history")
    viol = ref["sha"] != got["sha"]
    out = {"violation": viol, "history": hist_str(hist), "fresh_kind": ref["kind"], "got_kind": got["kind"]}
    if viol:
        out["diff"] = _diff(ref, got)
        import difflib
        out["unified_diff"] = list(difflib.unified_diff(ref["text"], got["text"], "fresh", "after-history", n=0, lineterm=""))[:40]
    return out
