"""C10 part (4): iteration orders of sets of basic blocks (hook H2).

Basic blocks hash by identity, so the iteration order of any set of BBs is an accident of
heap layout.  Hook H2 (cfg/bb.py, guarded by CQCL_GUPPYLANG_VERIF) lets the harness choose
the hashes: hash(bb) = perm[bb.idx].  With distinct small hashes a CPython set iterates in
ascending hash order, so enumerating the permutations enumerates EVERY iteration order of
every BB set the pipeline builds.  All n! permutations for CFGs of <= 5 hashed blocks;
identity and reversal with <= k transpositions applied otherwise (k = 1 quick, 2 thorough).
The outcome (HUGR bytes or rendered diagnostic) must be one value per program.
"""
from __future__ import annotations

import itertools

MORE = {
    "maybe-undefined-two-candidate-branches": '''
@guppy
def main(a: bool, b: bool) -> int:
    if a:
        if b:
            x = 1
    return x
''',
    "maybe-undefined-three-candidate-branches": '''
@guppy
def main(a: bool, b: bool, c: bool) -> int:
    if a:
        if b:
            if c:
                x = 1
    return x
''',
    "maybe-undefined-loop-and-branch": '''
@guppy
def main(n: int, b: bool) -> int:
    while n > 0:
        if b:
            x = n
        n -= 1
    return x
''',
    "maybe-undefined-elif-chain": '''
@guppy
def main(n: int) -> int:
    if n == 0:
        y = 1
    elif n == 1:
        y = 2
    elif n == 2:
        z = 3
    return y
''',
    "maybe-undefined-two-vars-two-branches": '''
@guppy
def main(a: bool, b: bool) -> int:
    if a:
        u = 1
        if b:
            v = 2
    return u + v
''',
    "maybe-moved-two-branches": '''
@guppy
def main(a: bool, b: bool) -> None:
    q = qubit()
    if a:
        if b:
            discard(q)
    discard(q)
''',
    "leak-in-two-nested-branches": '''
@guppy
def main(a: bool, b: bool) -> None:
    q = qubit()
    if a:
        if b:
            discard(q)
''',
    "maybe-undefined-in-nested-function": '''
@guppy
def main(a: bool, b: bool) -> int:
    def inner(c: bool, d: bool) -> int:
        if c:
            if d:
                w = 1
        return w
    return inner(a, b)
''',
}


def _perms(n, k):
    """identity and reversal of range(n), each with <= k transpositions applied; all n! if n <= 5."""
    if n <= 5:
        return [tuple(p) for p in itertools.permutations(range(n))]
    out = {tuple(range(n)), tuple(reversed(range(n)))}
    layer = set(out)
    for _ in range(k):
        nxt = set()
        for p in layer:
            for i, j in itertools.combinations(range(n), 2):
                q = list(p)
                q[i], q[j] = q[j], q[i]
                nxt.add(tuple(q))
        layer = nxt - out
        out |= nxt
    return sorted(out)


def _with_bbhash(perm, src):
    import guppylang_internals.cfg.bb as bbmod
    from vlib import schedx
    bbmod._VERIF_BBHASH = (lambda bb: perm[bb.idx] if bb.idx < len(perm) else bb.idx)
    try:
        return schedx.pipeline_outcome(src, "main")
    finally:
        bbmod._VERIF_BBHASH = None


def _bbhash_job(task):
    name, src, k = task
    import guppylang_internals.cfg.bb as bbmod
    from vlib import schedx
    if not getattr(bbmod, "_VERIF_ON", False):
        return {"name": name, "error": "hook H2 (cfg/bb.py _VERIF_BBHASH) is not present or CQCL_GUPPYLANG_VERIF is off"}
    seen = set()

    def probe(bb):
        seen.add(bb.idx)
        return bb.idx
    bbmod._VERIF_BBHASH = probe
    try:
        schedx.pipeline_outcome(src, "main")
    finally:
        bbmod._VERIF_BBHASH = None
    n = max(seen) + 1 if seen else 0
    perms = _perms(n, k) if n else [()]
    outs = {}
    for perm in perms:
        o = _with_bbhash(perm, src)
        outs.setdefault(o, perm)
    return {"name": name, "blocks_hashed": n, "orders": len(perms), "full": n <= 5,
            "outcomes": [(list(o), list(p)) for o, p in outs.items()]}


def _short(o):
    return " ".join(str(o[-1]).split())[-220:]


def run_bbhash(ctx, corpus: dict, extra: dict):
    k = 1 if ctx.quick else 2
    progs = {f"m:{n}": s for n, s in MORE.items()}
    progs.update({f"x:{n}": s for n, (_, s) in extra.items()})
    progs.update({f"c:{n}": s for n, s in corpus.items()})
    tasks = [(n, s, k) for n, s in sorted(progs.items())]
    res = ctx.pmap(_bbhash_job, tasks, chunk=2)
    cov = {"programs": len(tasks), "programs_hashing_blocks": 0, "orders_run": 0, "fully_enumerated": 0,
           "transposition_bound_otherwise": k, "programs_with_more_than_one_outcome": 0}
    for r in res:
        if "error" in r:
            raise RuntimeError(r["error"])
        cov["programs_hashing_blocks"] += r["blocks_hashed"] > 0
        cov["orders_run"] += r["orders"]
        cov["fully_enumerated"] += bool(r["full"])
        if len(r["outcomes"]) > 1:
            cov["programs_with_more_than_one_outcome"] += 1
            (o1, p1), (o2, p2) = r["outcomes"][0], r["outcomes"][1]
            tag = r["name"].split(":", 1)[1] if not r["name"].startswith("c:") else "corpus-program"
            ctx.violation(f"block-set-order-dependent:{tag}:{o1[0]}-vs-{o2[0]}",
                          f"program {r['name']}: {len(r['outcomes'])} distinct outcomes over iteration orders of basic-block sets; "
                          f"block hashes {p1} give [...{_short(o1)}] but {p2} give [...{_short(o2)}]",
                          {"part": 4, "name": r["name"], "src": progs[r["name"]], "perms": [p1, p2]})
    ctx.say(f"  [4] {cov['programs']} programs, {cov['orders_run']} block-hash assignments, "
            f"{cov['programs_hashing_blocks']} programs hash blocks")
    return cov


def replay(ctx, item):
    outs = [_with_bbhash(tuple(p), item["src"]) for p in item["perms"]]
    return {"violation": len(set(outs)) > 1, "outcomes": [" ".join(str(o[-1]).split())[-300:] for o in outs]}
