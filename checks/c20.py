"""C20 — Quantum operations implement their documented gates.

Every gate function of std.quantum / std.qsystem x every injective assignment of its qubit
parameters to three qubits is compiled by the real compiler and executed by hugrvm on all 8
computational-basis inputs and a generic superposition; the final state must equal the
documented matrix (table below, keyed by the GUPPY function name) applied to the listed
qubits, up to global phase.  Rotation angles: runtime float angles over a grid and all
angle-arithmetic forms.  Program order: all ordered pairs of gate instances.  Measurement,
reset, project_z, discard, measure_array: hugrvm explores both outcomes; probabilities and
post-measurement states are compared with projective Z-basis operations.

hugrvm's own matrices are keyed by HUGR op name and are bound to the real Selene emulator
by CS-3 (vlib/cs3.py), so a wrong binding, swapped control/target wire or angle scaling in
guppylang is a disagreement between two independent tables.
"""
from __future__ import annotations

import itertools
import math

import numpy as np

from vlib import gload, hugrvm

ID = "C20"
LEVEL = "exploration"

PRE = '''
from guppylang.std.angles import angle, pi
from guppylang.std.quantum import rz, rx, ry, crz, cy, ch, toffoli, sdg, tdg, v, vdg, project_z, measure_array, discard_array
from guppylang.std.qsystem import phased_x, zz_phase, zz_max, measure_and_reset
from guppylang.std.qsystem import rz as qrz
from guppylang.std.qsystem import measure as qmeasure
from guppylang.std.qsystem import reset as qreset
'''

# ---------------------------------------------------------------- documented matrices
I2 = np.eye(2, dtype=complex)
X = np.array([[0, 1], [1, 0]], dtype=complex)
Y = np.array([[0, -1j], [1j, 0]], dtype=complex)
Z = np.array([[1, 0], [0, -1]], dtype=complex)
H = np.array([[1, 1], [1, -1]], dtype=complex) / math.sqrt(2)


def Rz(t):
    return np.array([[np.exp(-0.5j * t), 0], [0, np.exp(0.5j * t)]])


def Rx(t):
    return np.array([[math.cos(t / 2), -1j * math.sin(t / 2)], [-1j * math.sin(t / 2), math.cos(t / 2)]])


def Ry(t):
    return np.array([[math.cos(t / 2), -math.sin(t / 2)], [math.sin(t / 2), math.cos(t / 2)]], dtype=complex)


def ctrl(u):
    n = u.shape[0]
    m = np.eye(2 * n, dtype=complex)
    m[n:, n:] = u
    return m


DOC = {  # guppy function name -> (n_qubits, n_angles, matrix builder taking angles in RADIANS)
    "h": (1, 0, lambda: H), "x": (1, 0, lambda: X), "y": (1, 0, lambda: Y), "z": (1, 0, lambda: Z),
    "s": (1, 0, lambda: np.diag([1, 1j])), "sdg": (1, 0, lambda: np.diag([1, -1j])),
    "t": (1, 0, lambda: np.diag([1, np.exp(0.25j * math.pi)])), "tdg": (1, 0, lambda: np.diag([1, np.exp(-0.25j * math.pi)])),
    "v": (1, 0, lambda: np.array([[1, -1j], [-1j, 1]]) / math.sqrt(2)),
    "vdg": (1, 0, lambda: np.array([[1, 1j], [1j, 1]]) / math.sqrt(2)),
    "rz": (1, 1, Rz), "rx": (1, 1, Rx), "ry": (1, 1, Ry), "qrz": (1, 1, Rz),
    "phased_x": (1, 2, lambda t1, t2: Rz(t2) @ Rx(t1) @ Rz(-t2)),
    "cx": (2, 0, lambda: ctrl(X)), "cy": (2, 0, lambda: ctrl(Y)), "cz": (2, 0, lambda: ctrl(Z)), "ch": (2, 0, lambda: ctrl(H)),
    "crz": (2, 1, lambda t: ctrl(Rz(t))),
    "zz_phase": (2, 1, lambda t: np.diag([np.exp(-0.5j * t), np.exp(0.5j * t), np.exp(0.5j * t), np.exp(-0.5j * t)])),
    "zz_max": (2, 0, lambda: np.diag([np.exp(-0.25j * math.pi), np.exp(0.25j * math.pi), np.exp(0.25j * math.pi), np.exp(-0.25j * math.pi)])),
    "toffoli": (3, 0, lambda: ctrl(ctrl(X))),
}
NQ = 3


def apply(mat, qubits, state):
    """Apply a k-qubit matrix (first listed qubit most significant) to an NQ-qubit state tensor."""
    k = len(qubits)
    st = state.reshape((2,) * NQ)
    m = mat.reshape((2,) * (2 * k))
    st = np.tensordot(m, st, axes=(list(range(k, 2 * k)), list(qubits)))
    st = np.moveaxis(st, list(range(k)), list(qubits))
    return st.reshape(-1)


def generic_state():
    st = np.zeros(8, dtype=complex)
    st[0] = 1
    st = apply(H, [0], st)
    st = apply(np.diag([1, np.exp(0.25j * math.pi)]), [0], st)
    st = apply(Rx(0.3 * math.pi), [1], st)
    st = apply(H, [2], st)
    st = apply(np.diag([1, 1j]), [2], st)
    st = apply(Ry(0.2 * math.pi), [2], st)
    st = apply(ctrl(X), [0, 1], st)
    st = apply(Ry(0.37), [1], st)
    return st


def inputs():
    out = []
    for b in range(8):
        v = np.zeros(8, dtype=complex)
        v[b] = 1
        out.append((f"|{b:03b}>", v))
    out.append(("generic", generic_state()))
    return out


def same_up_to_phase(u, v, tol=1e-7):
    k = int(np.argmax(np.abs(u)))
    if abs(v[k]) < 1e-9:
        return False
    ph = u[k] / v[k]
    return abs(abs(ph) - 1) < 1e-6 and np.allclose(u, ph * v, atol=tol)


# ---------------------------------------------------------------- running compiled code
def run_paths(h, fn, vec, extra, owned_free=()):
    """All execution paths (measurement outcomes) of fn(q0,q1,q2,*extra) from state vec.
    Returns list of (weight, values, final state over surviving qubits (ids), machine)."""
    out = []
    stack = [()]
    while stack:
        prefix = stack.pop()
        ch = hugrvm.Chooser(prefix)
        m = hugrvm.Machine(h, ch)
        qs = [m.q.alloc() for _ in range(NQ)]
        m.q.state = vec.reshape((2,) * NQ).copy()
        m.events.clear()
        try:
            vals = m.call(fn, qs + [hugrvm.to_vm(e) for e in extra])
            status = "ok"
        except hugrvm.GuppyPanic as e:
            vals, status = None, f"panic {e}"
        except (hugrvm.VMUnsupported, hugrvm.VMInvariant, hugrvm.VMBudget) as e:
            raise RuntimeError(f"hugrvm: {type(e).__name__} {e}")
        alive = list(m.q.axes)
        out.append({"w": m.q.weight, "vals": vals, "alive": alive, "vec": m.q.vector(alive), "status": status,
                    "events": list(m.events)})
        tr = ch.trace
        for i in range(len(tr) - 1, len(prefix) - 1, -1):
            n, c, _ = tr[i]
            for alt in range(n - 1, c, -1):
                stack.append(tuple([t[1] for t in tr[:i]] + [alt]))
    return out


def check_unitary(h, fn, expected_fn, extra=()):
    """expected_fn(vec) -> expected final vector.  Returns description of first mismatch or None."""
    for name, vec in inputs():
        paths = run_paths(h, fn, vec, extra)
        if len(paths) != 1 or paths[0]["status"] != "ok" or paths[0]["alive"] != [0, 1, 2]:
            return f"input {name}: {len(paths)} paths, status {paths[0]['status']}, alive {paths[0]['alive']}"
        want = expected_fn(vec)
        if not same_up_to_phase(want, paths[0]["vec"]):
            return f"input {name}: state {np.round(paths[0]['vec'], 3)} != documented {np.round(want, 3)}"
    return None


QN = ["q0", "q1", "q2"]


def gate_src(calls, params="", pre_lines=()):
    body = list(pre_lines) + list(calls)
    return PRE + f"\n@guppy\ndef main(q0: qubit, q1: qubit, q2: qubit{params}) -> None:\n" + "\n".join("    " + l for l in body) + "\n"


def call_text(name, qubits, angle_exprs):
    args = [QN[i] for i in qubits] + list(angle_exprs)
    return f"{name}({', '.join(args)})"


LIT_ANGLES = [0.0, 0.25, -0.25, 0.5, -0.5, 1.0, 1.5, 2.0, 1 / 3, -0.7, 2.5, 4.25]


# ---------------------------------------------------------------- work items
def item_single(it):
    """('single', name, qubits, angles(halfturns literal tuple))"""
    _, name, qubits, angs = it
    nq, na, build = DOC[name]
    src = gate_src([call_text(name, qubits, [f"angle({a!r})" for a in angs])])
    o, mod = gload.run_src(src)
    if not o.ok:
        return {"bad": f"program not accepted: {o.brief()}", "cls": "rejected"}
    mat = build(*[a * math.pi for a in angs])
    d = check_unitary(o.package.modules[0], "main", lambda v: apply(mat, qubits, v))
    return {"bad": d, "cls": "wrong-unitary"} if d else {"bad": None, "runs": 9}


ANGLE_FORMS = {
    "angle(a)": lambda a, b: a,
    "angle(a) + angle(b)": lambda a, b: a + b,
    "angle(a) - angle(b)": lambda a, b: a - b,
    "-angle(a)": lambda a, b: -a,
    "angle(a) * b": lambda a, b: a * b,
    "b * angle(a)": lambda a, b: a * b,
    "angle(a) / 2.0": lambda a, b: a / 2,
    "pi * a": lambda a, b: a,
    "pi / 4 + angle(a)": lambda a, b: 0.25 + a,
    "angle(a + b)": lambda a, b: a + b,
    "b / angle(a)": lambda a, b: (b / a) if a != 0 else None,          # reflected division (angle.__rtruediv__)
    "angle(a) - angle(b) * 0.5": lambda a, b: a - b * 0.5,
    "-(angle(a) + pi)": lambda a, b: -(a + 1.0),
}


def item_angle(it):
    """('angle', gate name, form) with runtime floats a, b"""
    _, name, form = it
    nq, na, build = DOC[name]
    qubits = list(range(nq))
    exprs = [form] + ["angle(0.5)"] * (na - 1)
    src = gate_src([call_text(name, qubits, exprs)], params=", a: float, b: float")
    o, mod = gload.run_src(src)
    if not o.ok:
        return {"bad": f"program not accepted: {o.brief()}", "cls": "rejected"}
    h = o.package.modules[0]
    n = 0
    for a in LIT_ANGLES:
        for b in (2.0, -0.5):
            ht = ANGLE_FORMS[form](a, b)
            if ht is None:
                continue
            mat = build(*([ht * math.pi] + [0.5 * math.pi] * (na - 1)))
            d = check_unitary(h, "main", lambda v: apply(mat, qubits, v), extra=(float(a), float(b)))
            n += 9
            if d:
                return {"bad": f"a={a} b={b}: {d}", "cls": "wrong-angle"}
    return {"bad": None, "runs": n}


def gate_instances():
    inst = []
    for name, (nq, na, _) in DOC.items():
        angs = tuple([0.3, 1.2][:na])
        perms = list(itertools.permutations(range(NQ), nq))
        inst.append((name, perms[0], angs))
        if nq >= 2:
            inst.append((name, perms[-1], angs))
    return inst


def item_pair(it):
    _, g1, g2 = it
    calls, mats = [], []
    for name, qubits, angs in (g1, g2):
        calls.append(call_text(name, qubits, [f"angle({a!r})" for a in angs]))
        mats.append((DOC[name][2](*[a * math.pi for a in angs]), qubits))
    o, mod = gload.run_src(gate_src(calls))
    if not o.ok:
        return {"bad": f"program not accepted: {o.brief()}", "cls": "rejected"}

    def exp(v):
        for mat, qubits in mats:
            v = apply(mat, qubits, v)
        return v
    d = check_unitary(o.package.modules[0], "main", exp)
    return {"bad": d, "cls": "wrong-program-order"} if d else {"bad": None, "runs": 9}


MEAS = {
    # name -> (source body using q0 (owned) and q1,q2 borrowed, kind)
    "measure": (["b = measure(q0)", 'result("b", b)'], "measure-free"),
    "qsystem.measure": (["b = qmeasure(q0)", 'result("b", b)'], "measure-free"),
    "discard": (["discard(q0)"], "trace-out"),
    "project_z": (["b = project_z(q0)", 'result("b", b)', "discard(q0)"], "measure-free"),
    "project_z-keep": (["b = project_z(q0)", 'result("b", b)', "x(q1)", "h(q0)", "h(q0)", "b2 = measure(q0)", 'result("b2", b2)'], "measure-twice"),
    "reset": (["reset(q0)", "b = measure(q0)", 'result("b", b)'], "reset"),
    "qsystem.reset": (["qreset(q0)", "b = measure(q0)", 'result("b", b)'], "reset"),
    "measure_and_reset": (["b = measure_and_reset(q0)", 'result("b", b)', "b2 = measure(q0)", 'result("b2", b2)'], "measure-reset"),
}


def item_meas(it):
    _, name, target = it
    body, kind = MEAS[name]
    # rename so that the measured qubit is `target`
    ren = {"q0": QN[target], QN[target]: "q0"}
    body = [" ".join(l.split()) for l in body]

    def sub(l):
        import re
        return re.sub(r"\bq[012]\b", lambda m: ren.get(m.group(0), m.group(0)), l)
    body = [sub(l) for l in body]
    params = ", ".join(f"{q}: qubit @owned" if q == QN[target] else f"{q}: qubit" for q in QN)
    src = PRE + f"\n@guppy\ndef main({params}) -> None:\n" + "\n".join("    " + l for l in body) + "\n"
    o, mod = gload.run_src(src)
    if not o.ok:
        return {"bad": f"program not accepted: {o.brief()} {o.rendered[-200:]}", "cls": "rejected"}
    h = o.package.modules[0]
    others = [i for i in range(NQ) if i != target]
    n = 0
    for iname, vec in inputs():
        paths = run_paths(h, "main", vec, ())
        n += len(paths)
        st = vec.reshape((2,) * NQ)
        st = np.moveaxis(st, target, 0)
        branches = {}
        for outcome in (0, 1):
            p = float(np.sum(np.abs(st[outcome]) ** 2))
            if p > 1e-9:
                branches[outcome] = (p, (st[outcome] / math.sqrt(p)).reshape(-1))
        if "project_z-keep" == name:
            # the x(q1) in between flips `others`' first qubit: apply to expectation
            for oc in branches:
                p, v = branches[oc]
                t = v.reshape((2, 2))
                flipq = {0: 1, 1: 0, 2: 1}[target]      # which physical qubit `x(q1)` hits after renaming
                t = np.flip(t, axis=others.index(flipq))
                branches[oc] = (p, t.reshape(-1))
        got = {}
        for pth in paths:
            if pth["status"] != "ok":
                return {"bad": f"{iname}: {pth['status']}", "cls": "wrong-measurement"}
            res = [e for e in pth["events"] if e[0] == "result"]
            if kind == "trace-out":
                key = pth["events"][-1][0]  # no classical outcome; compare the mixture below
                got.setdefault("mix", []).append((pth["w"], pth["vec"]))
                continue
            b = res[0][2]
            if kind == "measure-twice" and res[1][2] != b:
                return {"bad": f"{iname}: project_z gave {b} but a later measurement {res[1][2]}", "cls": "wrong-measurement"}
            if kind == "measure-reset" and res[1][2] is not False:
                return {"bad": f"{iname}: qubit measures {res[1][2]} after measure_and_reset", "cls": "wrong-measurement"}
            if kind == "reset":
                if b is not False:
                    return {"bad": f"{iname}: qubit measures {b} after reset", "cls": "wrong-measurement"}
                got.setdefault("mix", []).append((pth["w"], pth["vec"]))
                continue
            got[int(b)] = (pth["w"], pth["vec"])
        if kind in ("trace-out", "reset"):
            # mixture over silent outcomes must equal the projective mixture
            exp_rho = sum(p * np.outer(v, v.conj()) for p, v in branches.values())
            got_rho = sum(w * np.outer(v, v.conj()) for w, v in got["mix"])
            if got_rho.shape != exp_rho.shape or not np.allclose(got_rho, exp_rho, atol=1e-7):
                return {"bad": f"{iname}: reduced state after {name} differs from projective Z operation", "cls": "wrong-measurement"}
            continue
        if set(got) != set(branches):
            return {"bad": f"{iname}: outcomes {sorted(got)} but projective measurement allows {sorted(branches)}", "cls": "wrong-measurement"}
        for oc, (p, v) in branches.items():
            w, gv = got[oc]
            if abs(w - p) > 1e-7 or gv.shape != v.shape or not same_up_to_phase(v, gv):
                return {"bad": f"{iname}: outcome {oc}: probability {w:.4f} vs {p:.4f} or post-state differs", "cls": "wrong-measurement"}
    return {"bad": None, "runs": n}


def item_measure_array(it):
    src = PRE + '''
@guppy
def main(q0: qubit @owned, q1: qubit @owned, q2: qubit @owned) -> None:
    bs = measure_array(array(q0, q1, q2))
    result("b", bs)
'''
    o, mod = gload.run_src(src)
    if not o.ok:
        return {"bad": f"program not accepted: {o.brief()}", "cls": "rejected"}
    n = 0
    for iname, vec in inputs():
        paths = run_paths(o.package.modules[0], "main", vec, ())
        n += len(paths)
        probs = {}
        for p in paths:
            bits = [e for e in p["events"] if e[0] == "result"][0][2]
            idx = int("".join("1" if b else "0" for b in bits), 2)
            probs[idx] = probs.get(idx, 0) + p["w"]
        want = {i: float(abs(a) ** 2) for i, a in enumerate(vec) if abs(a) ** 2 > 1e-9}
        if set(probs) != set(want) or any(abs(probs[i] - want[i]) > 1e-7 for i in want):
            return {"bad": f"{iname}: outcome distribution {probs} != Born rule {want}", "cls": "wrong-measurement"}
    return {"bad": None, "runs": n}


def dispatch(it):
    return {"single": item_single, "angle": item_angle, "pair": item_pair, "meas": item_meas,
            "marray": item_measure_array}[it[0]](it)


def items(tier):
    out = []
    for name, (nq, na, _) in DOC.items():
        for qubits in itertools.permutations(range(NQ), nq):
            angsets = [()] if na == 0 else ([(0.3, 1.2)[:na]] if tier == "quick" else
                                            [tuple([a, 1.2][:na]) for a in LIT_ANGLES])
            for angs in angsets:
                out.append(("single", name, tuple(qubits), tuple(angs)))
    for name, (nq, na, _) in DOC.items():
        if na:
            for form in ANGLE_FORMS:
                out.append(("angle", name, form))
    inst = gate_instances()
    pairs = list(itertools.product(inst, inst))
    if tier == "quick":
        pairs = [p for i, p in enumerate(pairs) if p[0][0] != p[1][0]][::3]
    for g1, g2 in pairs:
        out.append(("pair", g1, g2))
    for name in MEAS:
        for target in range(NQ):
            out.append(("meas", name, target))
    out.append(("marray",))
    return out


def run(ctx):
    its = items(ctx.tier)
    res = ctx.pmap(dispatch, its, chunk=6)
    runs = ok = 0
    samples = []
    for it, r in zip(its, res):
        if r["bad"]:
            nm = it[1] if it[0] in ("single", "angle", "meas") else (f"{it[1][0]}-then-{it[2][0]}" if it[0] == "pair" else "measure_array")
            extra = f":{it[2]}" if it[0] == "angle" else ""
            ctx.violation(f"{r['cls']}:{it[0]}:{nm}{extra}", f"{it}: {r['bad']}", {"item": _ser(it)})
        else:
            ok += 1
            runs += r["runs"]
            if len(samples) < 6 and ok % 131 == 5:
                samples.append({"item": _ser(it), "executions": r["runs"]})
    return {
        "evaluations": runs, "distinct_nontrivial": ok,
        "rule": "gate x injective qubit assignment x 9 input states; rotation gates x 10 angle-arithmetic forms x 12 angles x 2; ordered "
                "pairs of gate instances; 8 measurement/reset/discard shapes x 3 target qubits with all outcomes",
        "samples": samples, "programs": len(its), "gates": sorted(DOC),
    }


def _ser(it):
    return [list(x) if isinstance(x, tuple) else x for x in it]


def _deser(it):
    def t(x):
        return tuple(t(y) for y in x) if isinstance(x, list) else x
    return t(it)


def replay(ctx, item):
    r = dispatch(_deser(item["item"]))
    return {"violation": bool(r["bad"]), "result": r}
