"""C04 — Numeric operators compute Python's results.

For every operator / builtin of the statement x every operand type combination in
{int,nat,float,bool}^2 x three syntactic forms (both operands runtime; literal left =
reflected-dunder path; literal right = coercion path) one Guppy function is compiled by
the real compiler and then evaluated by hugrvm on EVERY operand (pair) of boundary grids.
Oracle: CPython's own operator on the same operands, reduced to signed 64 bit (int) or
[0, 2^64) (nat).  Cases where Python's result is undefined per the statement (zero
divisor, shift count outside [0,64), negative integer exponent, float->int out of range,
nat() of a negative number, Python raising) are skipped and counted.
"""
from __future__ import annotations

import ast
import math
import struct

from vlib import gload, hugrvm

ID = "C04"
LEVEL = "exploration"

P62, P63, P64 = 1 << 62, 1 << 63, 1 << 64
INT_GRID = [0, 1, -1, 2, -2, 3, -3, 7, -7, 62, 63, 64, 1 << 31, -(1 << 31), P62, -P62,
            P63 - 1, -P63, -P63 + 1]
NAT_GRID = [0, 1, 2, 3, 7, 63, 64, 1 << 32, P63 - 1, P63, P64 - 1]
FLOAT_GRID = [0.0, -0.0, 0.5, -0.5, 1.0, -1.0, 1.5, -1.5, 2.5, -2.5, 3.0, 7.0, -7.0, 1e18, -1e18,
              float(P63), -float(P63), 1e308, 5e-324]
FLOAT_SPECIAL = [math.inf, -math.inf, math.nan]
BOOL_GRID = [False, True]
GRIDS = {"int": INT_GRID, "nat": NAT_GRID, "float": FLOAT_GRID, "bool": BOOL_GRID}
QUICK_INT = [0, 1, -1, 2, -3, 7, -7, 63, 64, 1 << 31, P62, -P62, P63 - 1, -P63]
QUICK_NAT = [0, 1, 2, 3, 63, 64, 1 << 32, P63, P64 - 1]
QUICK_FLOAT = [0.0, -0.0, 0.5, -1.5, 2.5, -2.5, 7.0, 1e18, -float(P63), 1e308, 5e-324]

BINOPS = ["+", "-", "*", "/", "//", "%", "**", "<<", ">>", "&", "|", "^",
          "==", "!=", "<", "<=", ">", ">="]
COMPARISONS = {"==", "!=", "<", "<=", ">", ">="}
UNOPS = ["-", "+", "~", "not "]
BUILTIN1 = ["abs", "int", "float", "nat", "bool"]
BUILTIN2 = ["divmod", "pow"]
TYPES = ["int", "nat", "float", "bool"]
RET_TYPES = ["bool", "nat", "int", "float", "tuple[nat, nat]", "tuple[int, int]", "tuple[float, float]"]
LITERALS = {"int": ["2", "-3", "0", "63"], "nat": ["2", "0", "63"], "float": ["0.5", "-2.5", "3.0"],
            "bool": ["True", "False"]}

OPNAME = {"+": "add", "-": "sub", "*": "mul", "/": "truediv", "//": "floordiv", "%": "mod",
          "**": "pow", "<<": "lshift", ">>": "rshift", "&": "and", "|": "or", "^": "xor",
          "==": "eq", "!=": "ne", "<": "lt", "<=": "le", ">": "gt", ">=": "ge"}


def _cases(tier):
    """All (name, expr, param types) to try.  expr uses a (and b)."""
    out = []
    for op in BINOPS:
        for ta in TYPES:
            for tb in TYPES:
                out.append((f"{OPNAME[op]}:{ta},{tb}:rr", f"a {op} b", (ta, tb), None))
                # literal right: runtime a of type ta, literal of "type" tb
                for lit in LITERALS[tb]:
                    out.append((f"{OPNAME[op]}:{ta},{tb}:rl[{lit}]", f"a {op} {lit}", (ta,), None))
                for lit in LITERALS[ta]:
                    out.append((f"{OPNAME[op]}:{ta},{tb}:lr[{lit}]", f"{lit} {op} a", (tb,), None))
    for op in UNOPS:
        for ta in TYPES:
            out.append((f"unary[{op.strip()}]:{ta}", f"{op}a", (ta,), None))
    for fn in BUILTIN1:
        for ta in TYPES:
            out.append((f"{fn}():{ta}", f"{fn}(a)", (ta,), None))
    for fn in BUILTIN2:
        for ta in TYPES:
            for tb in TYPES:
                out.append((f"{fn}():{ta},{tb}:rr", f"{fn}(a, b)", (ta, tb), None))
    return out


def _src(expr, ptypes, ret):
    params = ", ".join(f"{n}: {t}" for n, t in zip("ab", ptypes))
    return f"@guppy\ndef main({params}) -> {ret}:\n    return {expr}\n"


def _thorough_extra(t):
    if t == "int":
        ks = (4, 8, 16, 31, 32, 33, 52, 53, 54, 61)
        return sorted({s * ((1 << k) + d) for k in ks for d in (-1, 0, 1) for s in (1, -1)} |
                      {5, -5, 10, -10, 100, -100, 1000003, -1000003, P63 - 2, -P63 + 2})
    if t == "nat":
        ks = (4, 8, 16, 31, 33, 52, 53, 62)
        return sorted({(1 << k) + d for k in ks for d in (-1, 0, 1)} | {5, 10, 100, 1000003, P63 + 1, P64 - 2})
    if t == "float":
        return [0.1, -0.1, 1 / 3, -1 / 3, 1e-3, 3.5, -3.5, 4.5, 1e15, -1e15, float(1 << 53), float((1 << 53) + 2), 2.0 ** 62,
                -(2.0 ** 62), 1e-308, 1.7976931348623157e308, -1.7976931348623157e308, 123456.789, -123456.789]
    return []


def _grid(t, tier):
    if tier == "quick":
        return {"int": QUICK_INT, "nat": QUICK_NAT, "float": QUICK_FLOAT, "bool": BOOL_GRID}[t]
    g = list(GRIDS[t])
    for v in _thorough_extra(t):
        if v not in g:
            g.append(v)
    return g


def _fbits(x):
    return struct.unpack("<Q", struct.pack("<d", x))[0]


def _sign_class(v):
    if isinstance(v, bool):
        return str(v)
    if isinstance(v, float):
        if v != v:
            return "nan"
        if math.isinf(v):
            return "inf" if v > 0 else "-inf"
        if v == 0:
            return "-0.0" if math.copysign(1, v) < 0 else "0.0"
        if abs(v) >= 2.0 ** 53:
            return "bigpos" if v > 0 else "bigneg"
        return "pos" if v > 0 else "neg"
    if v == 0:
        return "zero"
    if abs(v) >= P62:
        return "bigpos" if v > 0 else "bigneg"
    return "pos" if v > 0 else "neg"


_CODE: dict = {}


class _PowRewrite(ast.NodeTransformer):
    """a ** b -> pow(a, b) (so that the oracle can use modular pow for huge exponents),
    keeping Python's precedence (-2 ** a is -(2 ** a))."""

    def visit_BinOp(self, node):
        self.generic_visit(node)
        if isinstance(node.op, ast.Pow):
            return ast.Call(ast.Name("pow", ast.Load()), [node.left, node.right], [])
        return node


def _py_eval(expr, env):
    """CPython oracle.  Returns ('ok', value) or ('undef', reason)."""
    try:
        code = _CODE.get(expr)
        if code is None:
            tree = _PowRewrite().visit(ast.parse(expr, mode="eval"))
            ast.fix_missing_locations(tree)
            code = _CODE[expr] = compile(tree, "<c04-oracle>", "eval")
        v = eval(code, {"__builtins__": {}}, env)  # noqa: S307 (generated text only)
    except (ZeroDivisionError, OverflowError, ValueError, TypeError) as e:
        return "undef", type(e).__name__
    if isinstance(v, complex) or (isinstance(v, tuple) and any(isinstance(x, complex) for x in v)):
        return "undef", "complex"
    return "ok", v


class _Undef(Exception):
    pass


def _nat(x):
    v = int(x)
    if v < 0:
        raise ValueError("nat of negative")
    return v


def _pow(b, e):
    # int ** huge int would never finish in CPython; the value is only needed mod 2^64
    if not isinstance(b, float) and not isinstance(e, float) and int(e) > 256:
        return pow(int(b), int(e), P64)
    return pow(b, e)


PY_ENV = {"abs": abs, "int": int, "float": float, "bool": bool, "divmod": divmod, "pow": _pow,
          "nat": _nat}


def _undefined_by_statement(name, expr, vals, types):
    """The statement's own exclusions, decided on operands (not on results)."""
    opn = name.split(":")[0]
    if opn in ("lshift", "rshift"):
        # shift count is the right operand
        k = vals["rhs"]
        if isinstance(k, (int, bool)) and not isinstance(k, float):
            if not 0 <= int(k) < 64:
                return "shift-count"
    if opn in ("pow", "pow()"):
        e = vals["rhs"]
        b = vals["lhs"]
        if not isinstance(e, float) and not isinstance(b, float) and int(e) < 0:
            return "negative-exponent"
    return None


def _compare(kind, got, py):
    """kind: guppy result type.  Returns None if equal else a description."""
    if kind == "bool":
        if not isinstance(py, bool):
            return f"guppy gives bool, python gives {type(py).__name__} {py!r}"
        g = hugrvm.from_vm(got, "bool")
        return None if g == py else f"got {g}, python {py}"
    if kind in ("int", "nat"):
        if isinstance(py, float):
            return f"guppy gives {kind}, python gives float {py!r}"
        py = int(py)
        if kind == "int":
            exp = hugrvm.s64(py)
            g = hugrvm.s64(got)
        else:
            exp = py % P64
            g = hugrvm.u64(got)
        return None if g == exp else f"got {g}, python {py} (reduced {exp})"
    if kind == "float":
        if not isinstance(py, float):
            return f"guppy gives float, python gives {type(py).__name__} {py!r}"
        if py != py and got != got:
            return None
        return None if _fbits(got) == _fbits(py) else f"got {got!r}, python {py!r}"
    raise AssertionError(kind)


def _lit_type(lit):
    v = eval(lit)  # noqa: S307 (our own literal table)
    return ("bool" if isinstance(v, bool) else "float" if isinstance(v, float) else "int"), v


def classify(opn, otypes, ovals, kind, got, py, status):
    """Defect class of one disagreement (the granularity of known_findings.json)."""
    if status != "ok":
        return "panics"
    lhs = ovals[0]
    rhs = ovals[1] if len(ovals) > 1 else None
    divlike = opn in ("floordiv", "mod", "divmod()")
    if kind == "float":
        if not isinstance(py, float):
            return "result-type"
        if any(isinstance(v, float) and not math.isfinite(v) for v in ovals):
            return "nonfinite-operand"
        if got == py:
            return "zero-sign"
        ints_in = [v for v, t in zip(ovals, otypes) if t in ("int", "nat")]
        if opn in ("truediv", "floordiv", "mod", "divmod()", "pow", "pow()") and any(float(v) != v for v in ints_in):
            # an int operand beyond 2^53 is first converted to the nearest float (C16); Python's own
            # int/int and int//float results are computed from the exact integers
            return "inexact-operand-conversion"
        if divlike and rhs not in (None, 0):
            from fractions import Fraction
            fa, fb = float(lhs), float(rhs)
            try:
                qf = fa / fb
            except OverflowError:
                qf = math.inf
            if not math.isfinite(qf) or (abs(qf) < 2.3e-308 and fa != 0):
                return "inexact-quotient"       # a/b over- or underflows
            exact_q = Fraction(fa) / Fraction(fb)
            if Fraction(qf) != exact_q:
                return "inexact-quotient"       # the rounded quotient is not the exact one: floor() may be off by one
            prod = Fraction(math.floor(qf)) * Fraction(fb)
            try:
                if Fraction(float(prod)) != prod:
                    return "inexact-quotient"   # floor(a/b) * b is not representable
            except OverflowError:
                return "inexact-quotient"
        return "value"
    if kind in ("int", "nat"):
        if isinstance(py, float):
            return "result-type"
        if divlike and rhs is not None and rhs < 0:
            return "negative-divisor"
        if opn == "rshift" and lhs < 0:
            return "negative-shifted-value"
        return "value"
    return "value" if isinstance(py, bool) else "result-type"


def eval_case(case):
    """Worker: compile one (name, expr, ptypes) and evaluate on the grid.
    Returns dict with counters and a list of disagreements."""
    name, expr, ptypes, tier = case
    res = {"name": name, "expr": expr, "ptypes": ptypes, "accepted": False, "ret": None, "evals": 0,
           "undef": 0, "coerce_skip": 0, "dis": [], "harness": [], "crash": None}
    pkg = None
    for ret in RET_TYPES:
        o, mod = gload.run_src(_src(expr, ptypes, ret), compile=False)
        if o.kind == "crash":
            res["crash"] = o.exc
            return res
        if o.ok:
            o2 = gload.outcome(mod.main, compile=True)
            if not o2.ok:
                res["crash"] = f"compile after check: {o2.brief()}"
                return res
            pkg = o2.package
            res["ret"] = ret
            break
    if pkg is None:
        return res
    res["accepted"] = True
    h = pkg.modules[0]
    ret = res["ret"]
    opn = name.split(":")[0]
    kinds = [ret] if not ret.startswith("tuple") else [ret[6:-1].split(", ")[0]] * 2
    grids = [_grid(t, tier) + (FLOAT_SPECIAL if t == "float" else []) for t in ptypes]
    lit = name.split("[")[1][:-1] if (":rl[" in name or ":lr[" in name) else None
    import itertools
    for vals in itertools.product(*grids):
        env = dict(PY_ENV)
        env.update(zip("ab", vals))
        # operands by position in the expression
        if len(ptypes) == 2:
            otypes, ovals = tuple(ptypes), tuple(vals)
        elif ":rl[" in name:
            lt, lv = _lit_type(lit)
            otypes, ovals = (ptypes[0], lt), (vals[0], lv)
        elif ":lr[" in name:
            lt, lv = _lit_type(lit)
            otypes, ovals = (lt, ptypes[0]), (lv, vals[0])
        else:
            otypes, ovals = tuple(ptypes), tuple(vals)
        res["evals"] += 1
        if len(ovals) == 2 and _undefined_by_statement(name, expr, {"lhs": ovals[0], "rhs": ovals[1]}, ptypes):
            res["undef"] += 1
            continue
        # C16's carve-out: an implicit nat->int coercion preserves the value only if it is
        # representable; a nat >= 2^63 meeting an int-typed operand is outside C04.
        if len(ovals) == 2 and any(
                otypes[i] == "nat" and ovals[i] >= P63 and otypes[1 - i] == "int" for i in (0, 1)):
            res["coerce_skip"] += 1
            continue
        # C16: an int/nat operand meeting a float is converted to the NEAREST float first; Python's
        # comparisons (unlike its arithmetic) compare int with float exactly, so a comparison whose
        # integer operand is not exactly representable is outside what C04+C16 promise.
        if opn in ("eq", "ne", "lt", "le", "gt", "ge") and len(ovals) == 2 and "float" in otypes and any(
                otypes[i] in ("int", "nat") and float(ovals[i]) != ovals[i] for i in (0, 1)):
            res["coerce_skip"] += 1
            continue
        st, py = _py_eval(expr, env)
        if st == "undef":
            res["undef"] += 1
            continue
        # float -> int conversions out of range are undefined per the statement
        if name.startswith(("int():float", "nat():float")):
            lim = (-P63, P63) if name.startswith("int") else (0, P64)
            if not (lim[0] <= py < lim[1]):
                res["undef"] += 1
                continue
        r = hugrvm.run(h, "main", [hugrvm.to_vm(v) for v in vals])
        if r.status in ("unsupported", "invariant", "budget"):
            res["harness"].append(f"{r.status}: {r.detail}")
            continue
        if r.status != "ok":
            cls = classify(opn, otypes, ovals, kinds[0], None, py, r.status)
            res["dis"].append((cls, list(map(repr, vals)), f"guppy {r.status} {r.panic}, python gives {py!r}"))
            continue
        outs = r.values[:len(kinds)]
        if ret.startswith("tuple") and isinstance(r.values[0], hugrvm.Sum):
            outs = list(r.values[0].vals)
        pys = [py] if not ret.startswith("tuple") else list(py)
        for kd, g, p in zip(kinds, outs, pys):
            d = _compare(kd, g, p)
            if d:
                cls = classify(opn, otypes, ovals, kd, g, p, "ok")
                res["dis"].append((cls, list(map(repr, vals)), d))
                break
    return res


def run(ctx):
    cases = [(n, e, p, ctx.tier) for (n, e, p, _) in _cases(ctx.tier)]
    results = ctx.pmap(eval_case, cases, chunk=8)
    evals = accepted = undef = coerce_skip = 0
    harness = []
    samples = []
    nontrivial = 0
    for r in results:
        evals += r["evals"]
        undef += r["undef"]
        coerce_skip += r["coerce_skip"]
        base = r["name"].split("[")[0].rsplit(":", 1)[0] if r["name"].count(":") >= 2 else r["name"]
        if r["crash"]:
            ctx.violation(f"{base}:compiler-crash", f"{r['expr']} with {r['ptypes']}: {r['crash']}",
                          {"name": r["name"], "expr": r["expr"], "ptypes": r["ptypes"]})
        if r["accepted"]:
            accepted += 1
            nontrivial += r["evals"] - r["undef"] - r["coerce_skip"]
            if len(samples) < 8 and r["evals"] and accepted % 97 == 1:
                samples.append({"case": r["name"], "expr": r["expr"], "params": r["ptypes"],
                                "guppy_type": r["ret"], "operand_tuples": r["evals"]})
        harness.extend(r["harness"])
        for cls, vals, d in r["dis"]:
            ctx.violation(f"{base}:{cls}", f"`{r['expr']}` ({', '.join(r['ptypes'])}) at {vals}: {d}",
                          {"name": r["name"], "expr": r["expr"], "ptypes": r["ptypes"], "vals": vals})
    if harness:
        raise RuntimeError(f"hugrvm could not execute {len(harness)} evaluations, e.g. {harness[:3]}")
    return {
        "evaluations": evals,
        "distinct_nontrivial": nontrivial,
        "rule": "every operator/builtin x operand types x {rr, literal-left, literal-right} compiled once and evaluated by hugrvm on all "
                "operand tuples of the boundary grids; non-trivial = Python's result defined per the statement",
        "samples": samples,
        "functions_tried": len(cases), "functions_accepted": accepted,
        "skipped_python_undefined": undef,
        "skipped_coercion_not_value_preserving": coerce_skip,
    }


def replay(ctx, item):
    r = eval_case((item["name"], item["expr"], tuple(item["ptypes"]), "thorough"))
    want = item.get("vals")
    dis = [d for d in r["dis"] if want is None or d[1] == want]
    return {"violation": bool(dis), "disagreements": dis[:5], "crash": r["crash"]}
