"""C08 — Use-before-definition and path-dependent types are rejected exactly.

Bounded-exhaustive model checking.  Every program of a small structured grammar
(vlib.progenum) over the variables x, y (and the nested function `inner`) is

  (1) walked by a reference model: path-based reaching definitions with a type tag
      per definition, explored to closure over (program point x abstract state) on
      the generator's own tree (conditions ignored, as Python does for scoping);
  (2) given to the real checker (`GuppyDefinition.check()` of /repo's sources);

and the two verdicts - accept / "Variable not defined" / "Different types" - are
compared, including the error title.

Families
  base     atoms  x = 1 | x = True | y = x | use(x) | use(y) | return
           under if / if-else / while / for _ in range(n) / break / continue
  typed    `x = 1` up front, then atoms x = True | x = 2 | y = x | use(x) | use(y) | return
  nested   atoms  x = 1 | x = True | use(x) | return |
                  def inner() -> None: use(x)   (reads the outer x: a use of x at the
                  point of the nested DEFINITION, and a definition of `inner`) |
                  inner()                       (a use of `inner`)
  dead     base family with code after return / break / continue allowed (only the
           programs that do contain such code).  The statement is silent on uses in
           unreachable code: a rejection that is reported AT an unreachable line is
           tolerated and counted - unless even the pessimistic reading, in which the
           unreachable code is entered with the state at the jump, finds no problem
           (then the program is free of both problems in every reading and must be
           accepted).  Everything else is compared as usual.
  dead-typed  the same with `x = 1` up front and the typed atoms (an unreachable
           assignment of another type must not poison reachable uses).
  literal  conditions are the literals True / False (for: range(0) / range(2)).
           Oracle 1 is CPython executing the same body: UnboundLocalError/NameError on
           the one feasible path  =>  Guppy must reject.  (The converse is not
           checked: Guppy ignores condition values.)  Oracle 2: if the model finds no
           problem even with every branch taken as feasible, Guppy must accept.

On programs with never-taken ("dummy") CFG edges - the dead* and literal families -
check()'s verdict turned out to depend on the pop order of `queue = set(bbs)` in
cfg/analysis.py (heap addresses).  To keep this driver deterministic, and to cover
that dimension, the verification hook H1 (`_VERIF_SCHED`) is used to fix the order:
every program runs with lowest-block-index-first, those three families additionally
with highest-first, and each outcome is judged on its own; programs whose two
outcomes differ are counted in `verdict_depends_on_worklist_order`.

`use` is a declared generic function `use(x: T) -> None`, so a use can never cause a
type error of its own; the only errors possible in these programs are the two
studied ones.
"""
from __future__ import annotations

from vlib import progenum as pg
from vlib.progenum import Atom

ID = "C08"
LEVEL = "model_checking"

T_UNDEF = "Variable not defined"      # VarNotDefinedError and VarMaybeNotDefinedError
T_TYPES = "Different types"           # BranchTypeError

VARS = ("x", "y", "inner", "glob", "k")
IDX = {v: i for i, v in enumerate(VARS)}

A_X1 = Atom("x=1", "x = 1", (("def", "x", "I"),))
A_XT = Atom("x=True", "x = True", (("def", "x", "B"),))
A_X2 = Atom("x=2", "x = 2", (("def", "x", "I"),))
A_YX = Atom("y=x", "y = x", (("copy", "y", "x"),))
A_UX = Atom("use(x)", "use(x)", (("use", "x"),))
A_UY = Atom("use(y)", "use(y)", (("use", "y"),))
A_RET = Atom("return", "return", (), kind="return")
A_DEF = Atom("def-inner", "def inner() -> None:\n    use(x)", (("use", "x"), ("def", "inner", "F")))
A_CALL = Atom("inner()", "inner()", (("use", "inner"),))
# a SECOND definition of the same nested name that reads another outer variable
A_Y1 = Atom("y=1", "y = 1", (("def", "y", "I"),))
A_DEF2 = Atom("def-inner-reading-y", "def inner() -> None:\n    use(y)", (("use", "y"), ("def", "inner", "F")))

BASE_ATOMS = (A_X1, A_XT, A_YX, A_UX, A_UY, A_RET)
NESTED_ATOMS = (A_X1, A_XT, A_UX, A_DEF, A_CALL, A_RET)
NESTED2_ATOMS = (A_X1, A_Y1, A_DEF, A_DEF2, A_CALL, A_RET)
# a name that is ALSO bound at module level (a @guppy function `glob`): an assignment anywhere in the function makes it
# a local of the whole function (Python's scoping), so a read before the assignment is a read of an undefined local
A_GUSE = Atom("use(glob)", "use(glob)", (("use", "glob"),))
A_GDEF = Atom("glob=2", "glob = 2", (("def", "glob", "I"),))
A_YG = Atom("y=glob", "y = glob", (("copy", "y", "glob"),))
GLOBAL_ATOMS = (A_GUSE, A_GDEF, A_YG, A_UY, A_RET)
# a @comptime PARAMETER `k` (always bound, like every parameter) that the body re-binds on some paths
A_KUSE = Atom("use(k)", "use(k)", (("use", "k"),))
A_KINC = Atom("k=k+1", "k = k + nat(1)", (("use", "k"), ("def", "k", "I")))
A_KSET = Atom("k=2", "k = nat(2)", (("def", "k", "I"),))
COMPTIME_PARAM_ATOMS = (A_KUSE, A_KINC, A_KSET, A_X1, A_UX, A_RET)
# an assignment expression to the RIGHT of a read of the same name inside one expression: the read comes first
A_WAL = Atom("y=x+(x:=2)", "y = x + (x := 2)", (("use", "x"), ("def", "x", "I"), ("def", "y", "I")))
A_WAL2 = Atom("y=(x:=2)+x", "y = (x := 2) + x", (("def", "x", "I"), ("use", "x"), ("def", "y", "I")))
WALRUS_ATOMS = (A_WAL, A_WAL2, A_X1, A_UX, A_UY, A_RET)
LIT_ATOMS = (A_X1, A_UX, A_YX, A_UY, A_RET)
TYPED_ATOMS = (A_XT, A_X2, A_YX, A_UX, A_UY, A_RET)
ALL_ATOMS = (A_X1, A_XT, A_X2, A_YX, A_UX, A_UY, A_RET, A_DEF, A_CALL, A_Y1, A_DEF2, A_GUSE, A_GDEF, A_YG, A_KUSE, A_KINC, A_KSET, A_WAL, A_WAL2)

PRELUDE_MOD = "vc08_prelude"
PRELUDE_SRC = (
    "from guppylang import guppy, comptime\n"
    "from guppylang.std.builtins import nat\n"
    "T = guppy.type_var(\"T\")\n"
    "@guppy.declare\n"
    "def use(x: T) -> None: ...\n"
    "@guppy\n"
    "def glob() -> int:\n"
    "    return 1\n"
)
# every generated program imports the (once per process) prelude module: declaring
# `use` anew for each program would cost more than checking the program
HEADER = f"from {PRELUDE_MOD} import guppy, use, glob\n"


def _ensure_prelude() -> None:
    import sys
    if PRELUDE_MOD not in sys.modules:
        from vlib import gload
        gload.load(PRELUDE_SRC, name=PRELUDE_MOD)


# ---------------------------------------------------------------------------- bounds
# family -> list of (max_stmts, max_depth, loop kinds, must-contain-for?)
def bounds(tier: str) -> dict:
    W, WF = ("while",), ("while", "for")
    if tier == "quick":
        return {
            "base": [(4, 2, W, False), (3, 2, WF, True)],
            "typed": [(3, 2, WF, False)],
            "nested": [(4, 2, W, False), (3, 2, WF, True)],
            "nested2": [(5, 2, W, False)],
            "shadow-global": [(4, 2, W, False)],
            "comptime-param": [(3, 2, W, False)],
            "walrus": [(3, 2, W, False)],
            "dead": [(3, 2, WF, False)],
            "dead-typed": [(4, 1, W, False)],
            "literal": [(3, 2, WF, False)],
        }
    return {
        "base": [(5, 3, W, False), (4, 3, WF, True)],
        "typed": [(4, 3, WF, False)],
        "nested": [(5, 3, W, False), (4, 3, WF, True)],
        "nested2": [(6, 2, W, False), (4, 2, WF, True)],
        "shadow-global": [(5, 3, W, False), (4, 2, WF, True)],
        "comptime-param": [(4, 2, WF, False)],
        "walrus": [(4, 2, WF, False)],
        "dead": [(4, 2, WF, False)],
        "dead-typed": [(4, 2, WF, False)],
        "literal": [(4, 2, WF, False)],
    }


def _contains(body, atom) -> bool:
    for st in body:
        if st[0] == "a":
            if st[1] is atom or st[1] == atom:
                return True
        elif st[0] == "if":
            if _contains(st[1], atom) or _contains(st[2], atom):
                return True
        elif st[0] in ("while", "for"):
            if _contains(st[1], atom):
                return True
    return False


def _has_for(body) -> bool:
    for st in body:
        if st[0] == "for":
            return True
        if st[0] == "if" and (_has_for(st[1]) or _has_for(st[2])):
            return True
        if st[0] == "while" and _has_for(st[1]):
            return True
    return False


def _enum(atoms, spec, **kw):
    for (n, d, loops, need_for) in spec:
        for body in pg.enumerate_bodies(atoms, n, d, loops=loops, **kw):
            if need_for and not _has_for(body):
                continue
            yield body


def programs(tier: str):
    """Yields (family, body, conds) — the complete bounded space, simplest first
    within each family."""
    b = bounds(tier)
    for body in _enum(BASE_ATOMS, b["base"]):
        yield ("base", body, None)
    for body in _enum(TYPED_ATOMS, b["typed"]):
        # x is defined (as an int) up front, so that type conflicts rather than
        # undefinedness dominate this family; the prefix is not counted in the bound
        yield ("typed", (("a", A_X1),) + body, None)
    for body in _enum(NESTED_ATOMS, b["nested"]):
        if _contains(body, A_DEF):
            yield ("nested", body, None)
    for body in _enum(NESTED2_ATOMS, b["nested2"]):
        if _contains(body, A_DEF) and _contains(body, A_DEF2):
            yield ("nested2", body, None)
    for body in _enum(GLOBAL_ATOMS, b["shadow-global"]):
        if _contains(body, A_GDEF):
            yield ("shadow-global", body, None)
    for body in _enum(WALRUS_ATOMS, b["walrus"]):
        if _contains(body, A_WAL) or _contains(body, A_WAL2):
            yield ("walrus", body, None)
    for body in _enum(COMPTIME_PARAM_ATOMS, b["comptime-param"]):
        if _contains(body, A_KINC) or _contains(body, A_KSET):
            yield ("comptime-param", body, None)
    for body in _enum(BASE_ATOMS, b["dead"], allow_dead_code=True):
        if pg.has_dead_code(body):
            yield ("dead", body, None)
    for body in _enum(TYPED_ATOMS, b["dead-typed"], allow_dead_code=True):
        if pg.has_dead_code(body):
            yield ("dead-typed", (("a", A_X1),) + body, None)
    for body in _enum(LIT_ATOMS, b["literal"]):
        k = pg.n_conds(body)
        if k == 0:
            continue
        for bits in range(1 << k):
            yield ("literal", body, tuple(bool(bits >> i & 1) for i in range(k)))


# --------------------------------------------------------------------- reference model
def _step_factory(uses: dict):
    def step(state, atom, point):
        st = list(state)
        for op in atom.meta:
            if op[0] == "use":
                uses.setdefault((point, op[1]), set()).add(st[IDX[op[1]]])
            elif op[0] == "def":
                st[IDX[op[1]]] = op[2]
            else:  # copy dst <- src : a use of src, then a definition of dst
                uses.setdefault((point, op[2]), set()).add(st[IDX[op[2]]])
                st[IDX[op[1]]] = st[IDX[op[2]]]
        return (tuple(st),)
    return step


CROSSCHECK_MAX_PATHS = 2000


def model(body, dead_code: str = "skip", bound_at_entry=()) -> dict:
    """Path-based reaching definitions with a type tag per definition.

    Abstract state = (tag of x, tag of y, tag of inner), tag in {U, I, B, F}.
    A path that reads an undefined variable goes on (the read does not define
    anything; `y = x` then leaves y undefined on that path as well), so that all
    problems of the program are collected.

    For programs with few paths the fixpoint exploration is cross-checked against a plain
    path-by-path enumeration (a disagreement is a harness error, not a finding)."""
    uses: dict = {}
    init = tuple("I" if v in bound_at_entry else "U" for v in VARS)
    ex = pg.explore_paths(body, init, _step_factory(uses), dead_code=dead_code)
    if dead_code == "skip" and pg.path_count_bound(body, 4) <= CROSSCHECK_MAX_PATHS:
        uses2: dict = {}
        bf, be = pg.brute_force_paths(body, init, _step_factory(uses2), max_iter=4)
        if be != ex.exits or uses2 != uses or any(bf[p] != ex.before[p] for p in bf):
            raise AssertionError("reference model: fixpoint exploration and path enumeration "
                                 "disagree on " + pg.show(body))
    classes = set()
    detail = []
    for (point, v), tags in sorted(uses.items(), key=lambda kv: repr(kv[0])):
        if "U" in tags:
            classes.add(T_UNDEF)
            detail.append((point, v, "undef", sorted(tags)))
        if len(tags - {"U"}) >= 2:
            classes.add(T_TYPES)
            detail.append((point, v, "types", sorted(tags)))
    return {"classes": classes, "detail": detail, "ex": ex, "n_uses": len(uses)}


# --------------------------------------------------------------------- implementation
def source(body, conds=None):
    k = pg.n_conds(body)
    if conds is None:
        params = ", ".join([f"c{i}: bool" for i in range(k)] + ["n: int"])
        cond = None
    else:
        params = ""

        def cond(i, kind):
            if kind == "for":
                return "range(2)" if conds[i] else "range(0)"
            return "True" if conds[i] else "False"
    head = HEADER + f"@guppy\ndef main({params}) -> None:\n"
    if cond is None:
        text, lmap = pg.render_map(body, 1)
    else:
        text, lmap = pg.render_map(body, 1, cond)
    return head + text, head.count("\n"), lmap


class _DetQueue:
    """Deterministic replacement for the analyses' `queue = set(bbs)` (verification
    hook H1 in cfg/analysis.py): pops the block with the lowest (or highest) index."""

    def __init__(self, items, highest: bool):
        self.items = set(items)
        self.highest = highest

    def __len__(self):
        return len(self.items)

    def pop(self):
        bb = (max if self.highest else min)(self.items, key=lambda b: b.idx)
        self.items.remove(bb)
        return bb

    def update(self, it):
        self.items.update(it)


def hook_available() -> bool:
    import guppylang_internals.cfg.analysis as an
    return bool(getattr(an, "_VERIF_ON", False)) and hasattr(an, "_VERIF_SCHED")


def run_guppy(src: str, highest: bool = False):
    """check() of `main` with the dataflow worklists popped in a fixed order (set
    iteration order of basic blocks depends on heap addresses otherwise, and on
    programs with unreachable code the verdict depends on it)."""
    import guppylang_internals.cfg.analysis as an
    from guppylang_internals import experimental
    from vlib import gload
    _ensure_prelude()
    old = experimental.EXPERIMENTAL_FEATURES_ENABLED
    experimental.EXPERIMENTAL_FEATURES_ENABLED = True   # capturing closures
    hooked = hook_available()
    if hooked:
        old_sched = an._VERIF_SCHED
        an._VERIF_SCHED = lambda queue, analysis: _DetQueue(queue, highest)
    try:
        out, mod = gload.run_src(src, fn="main", compile=False, with_prelude=False)
    finally:
        experimental.EXPERIMENTAL_FEATURES_ENABLED = old
        if hooked:
            an._VERIF_SCHED = old_sched
    if mod is not None:
        gload.unload(mod)
    return out


class _Diverge(Exception):
    pass


def run_cpython(body, conds) -> str:
    """Executes the de-guppied body in CPython.  'unbound' | 'ok' | 'diverge'."""
    def cond(i, kind):
        if kind == "for":
            return "range(2)" if conds[i] else "range(0)"
        lit = "True" if conds[i] else "False"
        return f"(tick() and {lit})" if kind == "while" else lit

    text = "def main():\n" + pg.render(body, 1, cond)
    fuel = [0]

    def tick():
        fuel[0] += 1
        if fuel[0] > 64:
            raise _Diverge
        return True

    env = {"use": lambda v: None, "tick": tick}
    exec(compile(text, "<c08-cpython>", "exec"), env)
    try:
        env["main"]()
    except (UnboundLocalError, NameError):
        return "unbound"
    except _Diverge:
        return "diverge"
    return "ok"


TWO_SCHEDULE_FAMILIES = ("dead", "dead-typed", "literal")


def check_one(item) -> dict:
    """Evaluates one program: model verdict, implementation verdict(s), comparison.
    Families whose CFG has never-taken ("dummy") edges are checked under two extreme
    worklist orders, because there the implementation's verdict depends on the order.
    Returns a small picklable record."""
    family, body, conds = item
    src, off, lmap = source(body, conds)
    if family == "comptime-param":
        src = src.replace("n: int) -> None:", "n: int, k: nat @comptime) -> None:", 1).replace("import guppy, use, glob\n", "import guppy, use, glob, nat, comptime\n", 1)
    m = model(body, bound_at_entry=("k",) if family == "comptime-param" else ())
    ex = m["ex"]
    rec = {"family": family, "viol": None, "bucket": "", "states": ex.n_states,
           "transitions": ex.n_transitions, "nontrivial": False, "exp": sorted(m["classes"]),
           "runs": 0, "sched_dep": False}
    ctxd = {"m": m, "off": off, "lmap": lmap, "py": None, "pess": None}
    if family == "literal":
        ctxd["py"] = rec["py"] = run_cpython(body, conds)
        rec["nontrivial"] = True
    else:
        rec["nontrivial"] = pg.n_conds(body) > 0 and m["n_uses"] > 0
    if family.startswith("dead"):
        ctxd["pess"] = model(body, dead_code="continue")["classes"]
        rec["pess"] = sorted(ctxd["pess"])
    orders = (False, True) if family in TWO_SCHEDULE_FAMILIES and hook_available() else (False,)
    outs = []
    for highest in orders:
        out = run_guppy(src, highest)
        rec["runs"] += 1
        bucket, viol = judge(family, out, ctxd)
        outs.append((out.brief(), bucket))
        if viol and not rec["viol"]:
            order = "highest-index-first" if highest else "lowest-index-first"
            rec["viol"] = (viol[0], viol[1] + (f" [worklist order: {order}]" if len(orders) > 1 else ""))
        if out.kind == "crash":
            rec["crash"] = out.exc[:200]
    rec["got"] = outs[0][0] if len({o for o, _ in outs}) == 1 else " / ".join(o for o, _ in outs)
    rec["bucket"] = outs[0][1] if len({b for _, b in outs}) == 1 else " | ".join(b for _, b in outs)
    rec["sched_dep"] = len({o for o, _ in outs}) > 1
    return rec


def judge(family, out, c) -> tuple:
    """(bucket, violation-or-None) for one implementation outcome."""
    m = c["m"]
    exp = m["classes"]
    if family == "literal":
        py = c["py"]
        if out.kind == "crash":
            if py == "unbound":
                return "crash", ("literal:crash-instead-of-rejection",
                                 "CPython raises UnboundLocalError/NameError; check() neither accepts "
                                 f"nor rejects as 'not defined' but crashes ({out.exc[:100]})")
            return "crash", None
        if out.kind == "error" and out.title not in (T_UNDEF, T_TYPES):
            return "lit-unexpected-title", (f"literal:unexpected-error:{out.title}",
                                            f"rejected with unexpected title {out.title!r}")
        if py == "unbound":
            if out.kind == "ok":
                return "lit-unbound-ACCEPTED", (
                    "literal:cpython-unbound-but-accepted",
                    "CPython raises UnboundLocalError/NameError on the single feasible path "
                    "but check() accepts")
            return "lit-unbound-rejected", None
        if out.kind == "ok":
            return ("lit-accepted-structurally-undefined" if T_UNDEF in exp else "lit-accepted"), None
        if not exp:
            # even with every branch taken as feasible (conditions ignored) each use is
            # definitely defined with one type: free of both problems in any reading
            return "lit-REJECTED-THOUGH-CLEAN", (
                f"literal:false-reject:{out.title}",
                f"every use is defined with one type on ALL structural paths, CPython runs it "
                f"({py}), but check() rejects with {out.title!r}")
        return f"lit-rejected-though-cpython-{py}", None

    if out.kind == "crash":
        # The statement wants the use *rejected as 'not defined'* (resp. for differing
        # types): an internal error is not that rejection.  (A crash of a program the
        # model accepts is outside this property: counted only.)
        if exp:
            return "crash", (f"{_fam(family)}:crash-instead-of:{'+'.join(sorted(exp))}",
                             f"model expects {sorted(exp)} ({m['detail'][0]}) but check() crashes "
                             f"({out.exc[:100]})")
        return "crash", None
    at_dead = False
    if family.startswith("dead") and out.kind == "error" and out.spans:
        err_line = out.spans[0][1] - 1 - c["off"]          # 0-based line in the body text
        dead_lines = set()
        for p in m["ex"].unreachable_points():
            lo, hi = c["lmap"][p]
            dead_lines.update(range(lo, hi + 1))
        at_dead = err_line in dead_lines
    # unreachable code: the statement is silent about uses there, so a rejection that
    # is reported AT an unreachable use is tolerated - unless even the pessimistic
    # reading (unreachable code entered with the state at the jump) finds no problem
    tolerated = at_dead and bool(c["pess"])
    if not exp:
        if out.kind == "ok":
            return "agree-accept", None
        if tolerated:
            return "silent:rejected-at-unreachable-use", None
        why = ("model finds no path problem" if not at_dead else
               "no path problem, not even when the unreachable code is entered with the state "
               "at the jump,")
        return "DISAGREE", (f"{_fam(family)}:false-reject:{out.title}",
                            f"{why} but check() rejects with {out.title!r}")
    if out.kind == "ok":
        return "DISAGREE", (f"{_fam(family)}:missed:{'+'.join(sorted(exp))}",
                            f"model expects {sorted(exp)} ({m['detail'][0]}) but check() accepts")
    if out.title in exp:
        return "agree-reject:" + out.title, None
    if tolerated:
        return "silent:other-error-at-unreachable-use", None
    return "DISAGREE", (f"{_fam(family)}:wrong-class:{'+'.join(sorted(exp))}->{out.title}",
                        f"model expects {sorted(exp)} ({m['detail'][0]}) but check() reports {out.title!r}")


def _fam(family: str) -> str:
    """Coarse family group used in violation keys (one defect, one key)."""
    if family.startswith("nested"):
        return "nested"
    if family == "shadow-global":
        return "shadow-global"
    if family == "comptime-param":
        return "comptime-param"
    if family == "walrus":
        return "walrus"
    if family.startswith("dead"):
        return "unreachable-code"
    return "flat"


def _safe_check(item):
    try:
        return check_one(item)
    except Exception as e:  # harness bug: surfaced, never turned into a violation
        import traceback
        return {"family": item[0], "harness_error": f"{type(e).__name__}: {e}",
                "tb": traceback.format_exc()[-600:], "viol": None, "bucket": "HARNESS",
                "states": 0, "transitions": 0, "nontrivial": False, "got": ""}


def _item_json(item) -> dict:
    family, body, conds = item
    src, _, _ = source(body, conds)
    return {"family": family, "body": pg.to_json(body),
            "conds": list(conds) if conds is not None else None, "src": src}


# ------------------------------------------------------------------------------- run
def run(ctx) -> dict:
    items = list(programs(ctx.tier))
    results = ctx.pmap(_safe_check, items, chunk=64)
    from collections import Counter
    buckets: Counter = Counter()
    fam: Counter = Counter()
    states = transitions = 0
    nontrivial = 0
    harness = []
    crashes = []
    samples = []
    validated = 0
    sched_dep = 0
    n_seen = 0
    sched_samples = []
    for item, r in zip(items, results):
        fam[r["family"]] += 1
        if "harness_error" in r:
            harness.append((pg.show(item[1]), r["harness_error"], r["tb"]))
            continue
        buckets[f"{r['family']}/{r['bucket']}"] += 1
        states += r["states"]
        transitions += r["transitions"]
        nontrivial += bool(r["nontrivial"])
        if "crash" in r:
            crashes.append({"prog": pg.show(item[1]), "exc": r.get("crash")})
        validated += r["runs"]
        if r["sched_dep"]:
            sched_dep += 1
            if len(sched_samples) < 6:
                sched_samples.append({"family": r["family"], "prog": pg.show(item[1]),
                                      "conds": item[2], "lowest-first / highest-first": r["got"]})
        if r["viol"]:
            key, what = r["viol"]
            ctx.violation(key, f"{what}: [{r['family']}] {pg.show(item[1])}"
                          + (f" conds={item[2]}" if item[2] is not None else ""),
                          _item_json(item))
        n_seen += 1
        if len(samples) < 8 and r["nontrivial"] and n_seen % 997 == 1:
            samples.append({"family": r["family"], "prog": pg.show(item[1]),
                            "model": r.get("exp", r.get("py")), "impl": r["got"]})
    if harness:
        raise RuntimeError(f"{len(harness)} harness errors, first: {harness[0]}")
    cov = {
        "states": states,
        "transitions": transitions,
        "traces_validated_against_impl": validated,   # implementation runs compared with a model verdict
        "evaluations": len(items),
        "distinct_nontrivial": nontrivial,
        "rule": "non-trivial = program has at least one compound statement and at least "
                "one variable use (literal family: every program x condition valuation)",
        "samples": samples,
        "bounds(max_stmts,max_depth,loops,only_with_for)": {k: [list(map(str, t)) for t in v]
                                                            for k, v in bounds(ctx.tier).items()},
        "programs_per_family": dict(fam),
        "buckets": dict(sorted(buckets.items())),
        "worklist_hook_used": hook_available(),
        "verdict_depends_on_worklist_order": sched_dep,
        "verdict_depends_on_worklist_order_samples": sched_samples,
        "crashes": len(crashes),
        "crash_samples": crashes[:5],
        "harness_errors": 0,
        "exhaustive": True,
    }
    for k, v in fam.items():
        cov[f"n_{k}"] = v
    cov["n_disagreements"] = sum(v for k, v in buckets.items() if "DISAGREE" in k or "REJECTED-THOUGH" in k
                                 or "ACCEPTED" in k)
    cov["n_silent_unreachable"] = sum(v for k, v in buckets.items() if "/silent:" in k)
    return cov


def replay(ctx, item) -> dict:
    body = pg.from_json(item["body"], ALL_ATOMS)
    conds = tuple(item["conds"]) if item.get("conds") is not None else None
    r = check_one((item["family"], body, conds))
    return {"violation": bool(r["viol"]), "result": {k: v for k, v in r.items()},
            "src": source(body, conds)[0]}
