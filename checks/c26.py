"""C26 — Loaded pytket circuits act like the circuit (shape part; execution part pending).

/repo's `definition/pytket_circuits.py` converts a pytket circuit with
`tket.circuit.Tk2Circuit(circ).to_bytes(EnvelopeConfig.TEXT)`, an entry point the installed
`tket 0.15.9` no longer has.  This driver installs — for itself only, /verif/compat/vcompat.py
is left untouched — a small alias `tket.circuit.Tk2Circuit` on top of
`tket._state.CompilationState.from_tket1` (what guppylang 1.0.4 uses).  One adapter step is
needed besides the rename: tket 0.15 types symbolic parameters of the converted function as
`tket.rotation` whereas the tket version /repo targets passed them as float half-turns, so
the alias inserts `tket.rotation.from_halfturns_unchecked` behind every rotation input and
re-types that input as float64.  Order of inputs, outputs and the `TKET1.input_parameters`
metadata — everything the code under test reads — is unchanged.

What is checked here WITHOUT executing the HUGR (no interpreter yet):
  * `@guppy.pytket(circ)` stub accepted  <=>  its signature has the circuit's shape
    (n_qubits borrowed qubits, one `angle` per free symbol, one bool per classical bit);
    wrong qubit count, arrays instead of qubits, missing / extra parameter, wrong number of
    returned bools must each be rejected with a Guppy error;
  * `guppy.load_pytket(.., use_arrays=False/True)` can be called with exactly that shape
    (arrays: one array per quantum register in LEXICOGRAPHIC register-name order, one
    `array[angle, k]`, one `array[bool, n]` per classical register) and a caller passing
    the registers in creation order is rejected when the sizes tell them apart;
  * every accepted program compiles and the HUGR validates.
The statement's behavioural half (acts on the qubits exactly as the circuit; lexicographic
parameter binding; bit order) needs execution: see `part_exec`.

Enumerated: circuits with 1-2 quantum registers of sizes 1-2 whose names sort differently
from creation order, 0-2 symbols whose names sort differently from first use, 0-2 measured
bits in 1-2 classical registers; asymmetric content (X on the first created wire, CX first
-> last, Rz(symbol_i) on wire i).
"""
from __future__ import annotations

import sys
import types

ID = "C26"
LEVEL = "exploration"


# ----------------------------------------------------------------- dependency alias
def install_tk2circuit_alias():
    """`tket.circuit.Tk2Circuit` for tket >= 0.13 (where it was removed).  Returns a string
    describing what was installed."""
    import tket
    try:
        from tket.circuit import Tk2Circuit  # noqa: F401
        return "native"
    except ImportError:
        pass
    import tket_exts
    from hugr import envelope, ops, tys as ht
    from hugr.std.float import FLOAT_T
    from tket._state import CompilationState

    class Tk2Circuit:
        def __init__(self, circ):
            self._c = circ

        def to_bytes(self, cfg):
            h = envelope.read_envelope(CompilationState.from_tket1(self._c).to_bytes(
                envelope.EnvelopeConfig.BINARY)).modules[0]
            fn = h.entrypoint
            op = h[fn].op
            inp = h.children(fn)[0]
            rext = tket_exts.rotation()
            rot = rext.get_type("rotation").instantiate([])
            conv = ops.ExtOp(rext.get_op("from_halfturns_unchecked"), ht.FunctionType([FLOAT_T], [rot]))
            new_in = [FLOAT_T if getattr(t, "id", "") == "rotation" else t for t in op.inputs]
            for i, (old, new) in enumerate(zip(op.inputs, new_in)):
                if old is not new:     # symbolic parameter: float half-turns -> rotation
                    c = h.add_node(conv, fn, num_outs=1)
                    for tgt in list(h.linked_ports(inp.out(i))):
                        h.delete_link(inp.out(i), tgt)
                        h.add_link(c.out(0), tgt)
                    h.add_link(inp.out(i), c.inp(0))
            h[fn].op = ops.FuncDefn(op.f_name, new_in, op.params, _outputs=op.outputs)
            h[inp].op = ops.Input(new_in)
            return h.to_bytes(cfg)

    tket.circuit = sys.modules["tket.circuit"] = types.ModuleType("tket.circuit")
    tket.circuit.Tk2Circuit = Tk2Circuit
    return "alias over tket._state.CompilationState.from_tket1 (+ float->rotation on symbolic inputs)"


ALIAS = install_tk2circuit_alias()

PRELUDE = """\
from guppylang import guppy, qubit, array
from guppylang.std.angles import angle
from guppylang.std.builtins import owned
from pytket import Circuit, Qubit, Bit
from sympy import Symbol
"""

# ------------------------------------------------------------------------ circuits
QLAYOUTS = [(("r", 1),), (("r", 2),),
            (("b", 1), ("a", 1)), (("b", 1), ("a", 2)), (("b", 2), ("a", 1)), (("b", 2), ("a", 2))]
SYMS = [(), ("zz",), ("zz", "al"), ("cc", "aa", "bb")]   # order of first use; sorted order differs (the last one is a 3-cycle)
CLAYOUTS = [(), (("c", 1),), (("c", 2),), (("d", 1), ("c", 1))]


# thorough tier: three registers, registers of size 3, three classical registers (appended, so that the indices of
# the quick tier's circuits stay the same)
THOROUGH = [False]
EXTRA_Q = [(("k", 1), ("g", 1), ("h", 1)), (("r", 3),), (("h", 3), ("g", 1)), (("k", 2), ("g", 1), ("h", 1))]
EXTRA_C = [(("d", 2), ("c", 1)), (("e", 1), ("d", 1), ("c", 1)), (("c", 3),)]


# symbol names whose lexicographic (code point) order differs from case-insensitive / natural-number order
EXTRA_SYMS = [("alpha", "Zeta"), ("a9", "a10"), ("b", "C", "a")]
# SPARSE units: a register "size" given as a tuple lists the unit indices that exist (Circuit.add_qubit(Qubit(name, i)),
# or what remove_blank_wires leaves behind); pytket's q_registers / c_registers omit such incomplete registers
SPARSE_Q = [(("q", (0, 2)),), (("b", (0,)), ("a", (1,))), (("b", 2), ("a", (1,))), (("a", (0, 1, 3)),)]
SPARSE_C = [(), (("m", (2,)),), (("c", 2),), (("d", 1), ("c", (1,)))]


def _n(size):
    return size if isinstance(size, int) else len(size)


def _units(size):
    return list(range(size)) if isinstance(size, int) else list(size)


def is_sparse(spec):
    return any(not isinstance(sz, int) for _, sz in spec[0] + spec[2])


def _decl(ln, kind, name, size):
    """Appends the lines creating one register; returns the expressions denoting its units."""
    if isinstance(size, int):
        ln.append(f"_{kind}_{name} = circ.add_{kind}_register({name!r}, {size})")
        return [f"_{kind}_{name}[{i}]" for i in range(size)]
    cls, add = ("Qubit", "add_qubit") if kind == "q" else ("Bit", "add_bit")
    for i in size:
        ln.append(f"circ.{add}({cls}({name!r}, {i}))")
    return [f"{cls}({name!r}, {i})" for i in size]


def circuits():
    base = [(q, s, c) for q in QLAYOUTS for s in SYMS for c in CLAYOUTS]
    base += [(q, s, c) for q in ((("r", 2),), (("b", 1), ("a", 2))) for s in EXTRA_SYMS for c in ((), (("c", 1),))]
    base += [(q, s, c) for q in SPARSE_Q for s in ((), ("zz", "al")) for c in SPARSE_C]
    if not THOROUGH[0]:
        return base
    seen = set(base)
    more = [(q, s, c) for q in QLAYOUTS + EXTRA_Q for s in SYMS for c in CLAYOUTS + EXTRA_C]
    return base + [x for x in more if x not in seen]


def circuit_src(spec):
    """Python source building the pytket circuit `circ`."""
    qregs, syms, cregs = spec
    ln = ["circ = Circuit()"]
    qs = []
    for name, size in qregs:
        qs += _decl(ln, "q", name, size)
    bs = []
    for name, size in cregs:
        bs += _decl(ln, "c", name, size)
    ln.append(f"circ.X({qs[0]})")
    if len(qs) > 1:
        ln.append(f"circ.CX({qs[0]}, {qs[-1]})")
    for i, s in enumerate(syms):
        ln.append(f"circ.Rz(Symbol({s!r}), {qs[i % len(qs)]})")
    for i, b in enumerate(bs):
        ln.append(f"circ.Measure({qs[i % len(qs)]}, {b})")
    return "\n".join(ln) + "\n"


def shape(spec):
    qregs, syms, cregs = spec
    return sum(_n(s) for _, s in qregs), len(syms), sum(_n(s) for _, s in cregs)


def bools_ty(n):
    if n == 0:
        return "None"
    if n == 1:
        return "bool"
    return "tuple[" + ", ".join(["bool"] * n) + "]"


def flat_sig(nq, ns, nb, qty="qubit", pty="angle"):
    params = [f"q{i}: {qty}" for i in range(nq)] + [f"p{i}: {pty}" for i in range(ns)]
    return ", ".join(params), bools_ty(nb)


def stub_variants(spec):
    """[(variant name, (params, ret), expectation)]; expectation in accept|reject|either."""
    nq, ns, nb = shape(spec)
    qregs, _, _ = spec
    out = [("right", flat_sig(nq, ns, nb), "accept"),
           ("qubits-1", flat_sig(nq - 1, ns, nb), "reject"),
           ("qubits+1", flat_sig(nq + 1, ns, nb), "reject"),
           ("params+1", flat_sig(nq, ns + 1, nb), "reject"),
           ("bools+1", flat_sig(nq, ns, nb + 1), "reject")]
    if ns:
        out.append(("params-1", flat_sig(nq, ns - 1, nb), "reject"))
        out.append(("float-params", flat_sig(nq, ns, nb, pty="float"), "either"))
    if nb:
        out.append(("bools-1", flat_sig(nq, ns, nb - 1), "reject"))
    arr = [f"{n}: array[qubit, {_n(s)}]" for n, s in sorted(qregs)] + [f"p{i}: angle" for i in range(ns)]
    out.append(("arrays", (", ".join(arr), bools_ty(nb)), "reject"))
    out.append(("owned-qubits", flat_sig(nq, ns, nb, qty="qubit @owned"), "either"))
    return out


def array_call(spec, lexicographic=True):
    """(params, ret, args) of a caller of the use_arrays=True function."""
    qregs, syms, cregs = spec
    regs = sorted(qregs) if lexicographic else list(qregs)
    # incomplete registers are not among pytket's q_registers / c_registers: a caller can at most pass the complete ones
    regs = [(n, s) for n, s in regs if isinstance(s, int)]
    cregs = [(n, s) for n, s in cregs if isinstance(s, int)]
    params = [f"{n}: array[qubit, {s}]" for n, s in regs]
    args = [n for n, _ in regs]
    if syms:
        params.append(f"ps: array[angle, {len(syms)}] @owned")   # the loaded function takes the array by value
        args.append("ps")
    rets = [f"array[bool, {s}]" for _, s in sorted(cregs)]
    ret = "None" if not rets else rets[0] if len(rets) == 1 else "tuple[" + ", ".join(rets) + "]"
    return ", ".join(params), ret, ", ".join(args)


# --------------------------------------------------------------------------- cases
def cases():
    out = []
    for ci, spec in enumerate(circuits()):
        for name, _sig, exp in stub_variants(spec):
            out.append({"circ": ci, "mode": "stub", "variant": name, "expect": exp})
        out.append({"circ": ci, "mode": "load-flat", "variant": "right", "expect": "accept"})
        # a circuit whose units do not form complete registers has no array shape: rejecting it is fine, accepting it
        # must still give valid HUGR (and the right behaviour, see part_exec)
        out.append({"circ": ci, "mode": "load-arrays", "variant": "lexicographic", "expect": "either" if is_sparse(spec) else "accept"})
        qregs = spec[0]
        if len(qregs) == 2 and qregs[0][1] != qregs[1][1] and not is_sparse(spec):
            out.append({"circ": ci, "mode": "load-arrays", "variant": "creation-order", "expect": "reject"})
    return out


def case_src(case):
    spec = circuits()[case["circ"]]
    src = circuit_src(spec)
    nq, ns, nb = shape(spec)
    if case["mode"] == "stub":
        sig = dict((n, s) for n, s, _ in stub_variants(spec))[case["variant"]]
        src += f"@guppy.pytket(circ)\ndef main({sig[0]}) -> {sig[1]}: ...\n"
    elif case["mode"] == "load-flat":
        params, ret = flat_sig(nq, ns, nb)
        args = ", ".join([f"q{i}" for i in range(nq)] + [f"p{i}" for i in range(ns)])
        src += ("loaded = guppy.load_pytket('loaded', circ, use_arrays=False)\n"
                f"@guppy\ndef main({params}) -> {ret}:\n    return loaded({args})\n")
    else:
        params, ret, args = array_call(spec, case["variant"] == "lexicographic")
        src += ("loaded = guppy.load_pytket('loaded', circ, use_arrays=True)\n"
                f"@guppy\ndef main({params}) -> {ret}:\n    return loaded({args})\n")
    return src


def run_case(case):
    from vlib import gload
    try:
        src = case_src(case)
        o, mod = gload.run_src(PRELUDE + src, with_prelude=False)
        try:
            bad = gload.validate(o.package) if o.kind == "ok" else None
        finally:
            if mod is not None:
                gload.unload(mod)
    except Exception as e:  # noqa: BLE001
        return {"harness": f"{type(e).__name__}: {e}"}
    res = {"got": o.kind, "title": o.title, "exc": o.exc[:200], "stage": o.stage}
    if bad:
        res["got"] = "invalid"
        res["exc"] = " | ".join(ln.strip() for ln in bad.splitlines() if ln.strip())[:300]
    exp = case["expect"]
    key = None
    tag = f"{case['mode']}:{case['variant']}"
    if res["got"] == "invalid":
        key = f"invalid-hugr:{tag}"
    elif res["got"] == "crash":
        key = f"crash:{tag}:{res['exc'].split(':')[0]}"
    elif exp == "accept" and res["got"] != "ok":
        key = f"matching-shape-rejected:{tag}"
    elif exp == "reject" and res["got"] == "ok":
        key = f"wrong-shape-accepted:{tag}"
    if key:
        spec = circuits()[case["circ"]]
        res["key"] = key
        res["what"] = (f"{tag} expected {exp}, got {res['got']} ({res['title'] or res['exc']}) for circuit "
                       f"qregs={spec[0]} symbols={spec[1]} cregs={spec[2]}")[:400]
    return res


def exec_circuit_src(spec, measured):
    """An ASYMMETRIC circuit over the spec's registers: a different rotation on every qubit,
    a CX from the first-created to the last-created qubit, Rz(symbol) per symbol; for the
    measured family only X / CX (deterministic outcomes) and one Measure per classical bit."""
    qregs, syms, cregs = spec
    ln = ["circ = Circuit()"]
    qs = []
    for name, size in qregs:
        qs += _decl(ln, "q", name, size)
    bs = []
    for name, size in cregs:
        bs += _decl(ln, "c", name, size)
    if not measured:
        for i, q in enumerate(qs):
            ln.append(f"circ.Rx({0.2 * (i + 1)!r}, {q})")
            ln.append(f"circ.Ry({0.15 * (i + 1)!r}, {q})")
        if len(qs) > 1:
            ln.append(f"circ.CX({qs[0]}, {qs[-1]})")
        for i, sname in enumerate(syms):
            ln.append(f"circ.Rz(Symbol({sname!r}), {qs[i % len(qs)]})")
            ln.append(f"circ.Rx({0.3!r}, {qs[i % len(qs)]})")
    else:
        for i, q in enumerate(qs):
            if i % 2 == 0:
                ln.append(f"circ.X({q})")
        if len(qs) > 2:
            ln.append(f"circ.CX({qs[0]}, {qs[1]})")
        for i, b in enumerate(bs):
            ln.append(f"circ.Measure({qs[i % len(qs)]}, {b})")
    return "\n".join(ln) + "\n"


def run_exec_case(item):
    """item = (circuit index, measured?, mode) -> dict(bad=..., cls=...)"""
    import numpy as np
    from sympy import Symbol
    from vlib import gload, hugrvm
    ci, measured, mode = item
    spec = circuits()[ci]
    qregs, syms, cregs = spec
    nq, ns, nb = shape(spec)
    if measured and nb == 0:
        return {"skip": True}
    if not measured and nb:
        spec = (qregs, syms, ())
        nb = 0
    if measured:
        if syms:
            return {"skip": True}      # the measured family has no symbolic gates
        ns = 0
    src = exec_circuit_src(spec, measured)
    ret = bools_ty(nb)
    fparams = ", ".join([f"q{i}: qubit" for i in range(nq)] + [f"f{i}: float" for i in range(ns)])
    args = ", ".join([f"q{i}" for i in range(nq)] + [f"angle(f{i})" for i in range(ns)])
    arrays = mode == "load-arrays"
    if arrays and is_sparse(spec):
        return {"skip": True}          # no array shape; the accept / reject / validity side is in run_case
    if mode == "reload-after-edit" and is_sparse(spec):
        return {"skip": True}
    if arrays:
        # use_arrays=True (the default): one array per quantum register in lexicographic register order, the
        # symbols as one array, one bool array per classical register
        regs = sorted(qregs)
        aparams = [f"{n}: array[qubit, {sz}]" for n, sz in regs] + [f"f{i}: float" for i in range(ns)]
        aargs = [n for n, _ in regs] + ([f"array({', '.join(f'angle(f{i})' for i in range(ns))})"] if ns else [])
        rets = [f"array[bool, {sz}]" for _, sz in sorted(spec[2])] if measured else []
        aret = "None" if not rets else rets[0] if len(rets) == 1 else "tuple[" + ", ".join(rets) + "]"
        src += ("loaded = guppy.load_pytket('loaded', circ)\n"
                f"@guppy\ndef main({', '.join(aparams)}) -> {aret}:\n    return loaded({', '.join(aargs)})\n")
    elif mode == "reload-after-edit":
        # the SAME Circuit object is loaded and compiled, then extended, then loaded again under another name:
        # the second function must act like the extended circuit
        first_q = f"_q_{qregs[0][0]}[0]"
        last_q = f"_q_{qregs[-1][0]}[{qregs[-1][1] - 1}]"
        src += ("stage1 = guppy.load_pytket('stage1', circ, use_arrays=False)\n"
                f"@guppy\ndef main1({fparams}) -> {ret}:\n    return stage1({args})\n"
                "main1.compile_function()\n"
                f"circ.Ry(0.45, {first_q})\n" + (f"circ.CX({last_q}, {first_q})\n" if nq > 1 else f"circ.Rx(0.35, {first_q})\n") +
                "loaded = guppy.load_pytket('loaded', circ, use_arrays=False)\n"
                f"@guppy\ndef main({fparams}) -> {ret}:\n    return loaded({args})\n")
    elif mode == "load":
        src += ("loaded = guppy.load_pytket('loaded', circ, use_arrays=False)\n"
                f"@guppy\ndef main({fparams}) -> {ret}:\n    return loaded({args})\n")
    else:
        params, sret = flat_sig(nq, ns, nb)
        src += (f"@guppy.pytket(circ)\ndef stub({params}) -> {sret}: ...\n"
                f"@guppy\ndef main({fparams}) -> {ret}:\n    return stub({args})\n")
    o, mod = gload.run_src(PRELUDE + src, with_prelude=False)
    try:
        if o.kind != "ok":
            return {"bad": f"{mode} program not accepted: {o.brief()}", "cls": "exec-program-rejected"}
        circ = mod.__dict__["circ"]
        h = o.package.modules[0]
        values = [0.3, 0.7, 1.1][:ns]
        # pytket's own answer
        c2 = circ.copy()
        names = sorted(str(x) for x in circ.free_symbols())
        c2.symbol_substitution({Symbol(n): v for n, v in zip(names, values)})   # lexicographic binding
        m = hugrvm.Machine(h, hugrvm.Chooser())
        qsv = [m.q.alloc() for _ in range(nq)]
        m.events.clear()
        call_args = qsv + [float(v) for v in values]
        if arrays:
            call_args, pos = [], 0
            for _n, sz in sorted(qregs):
                call_args.append(hugrvm.Arr(qsv[pos:pos + sz]))
                pos += sz
            call_args += [float(v) for v in values]
        try:
            vals = m.call("main", call_args)
        except (hugrvm.VMUnsupported, hugrvm.VMInvariant, hugrvm.VMBudget) as e:
            return {"harness": f"{type(e).__name__}: {e}"}
        if not measured:
            want = np.asarray(c2.get_statevector())
            got = m.q.vector(list(range(nq)))
            k = int(np.argmax(np.abs(want)))
            if abs(got[k]) < 1e-9 or not np.allclose(want, got * (want[k] / got[k]), atol=1e-7):
                return {"bad": f"state after the loaded circuit differs from pytket's statevector (qregs={qregs}, symbols={syms}): "
                               f"{np.round(got, 3)} vs {np.round(want, 3)}", "cls": "wrong-state"}
            return {"bad": None}
        # measured family: deterministic bits; expected = pytket shot-free evaluation of the classical X/CX circuit
        qubits = sorted(circ.qubits)      # lexicographic = the order guppy's arguments are matched in
        bit_of = {}
        state = {q: 0 for q in circ.qubits}
        for cmd in circ.get_commands():
            nm = cmd.op.type.name
            if nm == "X":
                state[cmd.qubits[0]] ^= 1
            elif nm == "CX":
                state[cmd.qubits[1]] ^= state[cmd.qubits[0]]
            elif nm == "Measure":
                bit_of[cmd.bits[0]] = state[cmd.qubits[0]]
        want_bits = [bool(bit_of[b]) for b in sorted(circ.bits)]
        def _b(x):
            return bool(x.tag) if isinstance(x, hugrvm.Sum) else bool(x)
        if arrays:
            outs = [v for v in vals if isinstance(v, hugrvm.Arr)]
            if len(outs) < len(spec[2]) and vals and isinstance(vals[0], hugrvm.Sum):
                outs = [v for v in vals[0].vals if isinstance(v, hugrvm.Arr)]
            got_bits = [_b(x) for a in outs[:len(spec[2])] for x in a.slots]
        else:
            got_bits = [_b(v) for v in vals[:nb]]
            if nb and isinstance(vals[0], hugrvm.Sum) and vals[0].vals:
                got_bits = [_b(x) for x in vals[0].vals]
        if got_bits != want_bits:
            return {"bad": f"returned bits {got_bits} but the circuit's classical bits (lexicographic order) are {want_bits} "
                           f"(qregs={qregs}, cregs={cregs})", "cls": "wrong-bits"}
        return {"bad": None}
    finally:
        if mod is not None:
            gload.unload(mod)


def part_exec(ctx):
    """Execution-based half of C26: the compiled wrapper is run by hugrvm and compared with
    pytket's own statevector (unitary family) / classical evaluation (measured family)."""
    items = [(ci, meas, mode) for ci in range(len(circuits())) for meas in (False, True) for mode in ("load", "stub", "load-arrays", "reload-after-edit")
             if not (meas and mode == "reload-after-edit")]
    res = ctx.pmap(run_exec_case, items, chunk=4)
    ok = 0
    for it, r in zip(items, res):
        if r.get("skip"):
            continue
        if r.get("harness"):
            raise RuntimeError(f"hugrvm could not execute circuit case {it}: {r['harness']}")
        if r["bad"]:
            ctx.violation(f"exec:{r['cls']}:{it[2]}:{'measured' if it[1] else 'unitary'}", f"{it}: {r['bad']}", {"exec": list(it)})
        else:
            ok += 1
    return {"exec_cases_agreeing_with_pytket": ok, "exec_cases": len(items)}


def run(ctx):
    THOROUGH[0] = not ctx.quick
    cs = cases()
    run_case(cs[0])        # warm the parent so forked workers inherit parsed std-lib definitions
    results = ctx.pmap(run_case, cs, chunk=8)
    n = 0
    nontrivial = 0
    outcome = {}
    either = {}
    harness = []
    samples = []
    for case, r in zip(cs, results):
        if "harness" in r:
            harness.append((case, r["harness"]))
            continue
        n += 1
        spec = circuits()[case["circ"]]
        if case["expect"] == "reject" or len(spec[0]) > 1 or spec[1] or spec[2]:
            nontrivial += 1
        k = f"{case['expect']}/{r['got']}"
        outcome[k] = outcome.get(k, 0) + 1
        if case["expect"] == "either":
            ek = f"{case['variant']}:{r['got']}"
            either[ek] = either.get(ek, 0) + 1
        if "key" in r:
            ctx.violation(r["key"], r["what"], case)
        if n % 151 == 1 and len(samples) < 6:
            samples.append({"case": case, "got": r["got"], "title": r["title"]})
    if harness:
        raise RuntimeError(f"{len(harness)} harness errors, e.g. {harness[0]}")
    cov = {
        "evaluations": n,
        "distinct_nontrivial": nontrivial,
        "rule": "non-trivial = a wrong-shape variant, or a matching one on a circuit with two registers, "
                "symbols or classical bits",
        "samples": samples,
        "circuits": len(circuits()),
        "outcome_matrix": outcome,
        "statement_silent_outcomes": either,
        "tk2circuit": ALIAS,
        "execution_part": "wrappers executed by hugrvm and compared with pytket's statevector / classical bits",
        "harness_errors": len(harness),
        "exhaustive": True,
    }
    cov.update(part_exec(ctx))
    ctx.assumptions.append(
        "tket.circuit.Tk2Circuit (absent from tket 0.15.9) is provided by checks/c26.py as an alias over "
        "tket._state.CompilationState.from_tket1 that additionally converts float half-turn inputs to "
        "tket.rotation; wire order and TKET1.* metadata are untouched")
    ctx.notes.append("C26 behavioural half (state vectors / measurement results) not covered yet: no HUGR interpreter")
    return cov


def replay(ctx, item):
    THOROUGH[0] = True          # a superset with the same indices
    if "exec" in item:
        r = run_exec_case(tuple(item["exec"]))
        return {"violation": bool(r.get("bad")), "result": {k: str(v)[:400] for k, v in r.items()}}
    r = run_case(item)
    r["source"] = case_src(item)
    r["violation"] = "key" in r
    return r
