"""C33 layer P: every gated feature in every syntactic POSITION.

The checker handles an expression in a *synthesising* position (expression statement, plain
assignment, tuple unpacking, operand) and in a *checking* position (return value, annotated
assignment, call argument) with different visitors, and statements inside branches, loops
and nested functions through different builders; a gate call missing from one of them is
invisible to a program that uses the feature in one position only.  Product: feature
construct x position, each program otherwise well typed.  Oracle: with the flag on the
program must not get the gate error; if it is ACCEPTED with the flag on, it must be
rejected with the gate error with the flag off (programs that fail for another reason even
with the flag on are counted as undecided, not judged).
"""
from __future__ import annotations

import warnings

PRE = ("from guppylang import guppy, qubit\nfrom guppylang.std.builtins import *\nfrom guppylang.std.quantum import h, discard\n"
       "from collections.abc import Callable\n\n"
       "@guppy\ndef f(x: int) -> int:\n    return x\n\n@guppy\ndef g(x: int) -> int:\n    return x + 1\n\n"
       "@guppy\ndef use_l(x: list[int]) -> None:\n    pass\n\n"
       "@guppy\ndef use_t(x: tuple[int, int]) -> None:\n    pass\n\n")
# the helper `use_l` mentions list in its signature: only programs of the `lists` feature call it

EXPRS = {
    # name: (feature, expression, type annotation, helper consuming it, unpack statement)
    "list-literal": ("lists", "[1, 2, 3]", "list[int]", "use_l", "for _e in {E}:\n    pass"),
    "list-comprehension": ("lists", "[i + c for i in range(3)]", "list[int]", "use_l", "for _e in {E}:\n    pass"),
    "tensor-call": ("function-tensors", "(f, g)(1, c)", "tuple[int, int]", "use_t", "a, b = {E}"),
    "tensor-of-three": ("function-tensors", "(f, g, f)(1, c, 3)", "tuple[int, int, int]", None, "a, b, d = {E}"),
    "tensor-nested": ("function-tensors", "((f, g), f)(1, c, 3)", "tuple[int, int, int]", None, "a, b, d = {E}"),
}
EXPR_POSITIONS = {
    "expr-stmt": lambda e, t, u, up: ["{E}".replace("{E}", e)],
    "assign": lambda e, t, u, up: [f"v = {e}"],
    "annassign": lambda e, t, u, up: [f"v: {t} = {e}"],
    "return": None,   # special: function returns T
    "call-arg": lambda e, t, u, up: [f"{u}({e})"] if u else None,
    "unpack-or-iterate": lambda e, t, u, up: up.replace("{E}", e).split("\n"),
    "in-if": lambda e, t, u, up: ["if c > 0:", f"    v = {e}"],
    "in-else": lambda e, t, u, up: ["if c > 0:", "    pass", "else:", f"    v = {e}"],
    "in-while": lambda e, t, u, up: ["while c > 0:", f"    v = {e}", "    c -= 1"],
    "in-for": lambda e, t, u, up: ["for _k in range(2):", f"    v = {e}"],
    "in-nested-function": lambda e, t, u, up: ["def inner(c: int) -> None:", f"    v = {e}", "inner(c)"],
    "after-return": lambda e, t, u, up: ["return", f"v = {e}"],
    "tuple-element": lambda e, t, u, up: [f"v = ({e}, 1)"],
    "ifexp-branch": lambda e, t, u, up: [f"v = {e} if c > 0 else {e}"],
    "walrus": lambda e, t, u, up: [f"(v := {e})"],
}

STMTS = {
    # capturing closures
    "closure-captures-local": ("capturing-closures", ["x = c + 1", "def inner() -> int:", "    return x", "inner()"]),
    "closure-captures-parameter": ("capturing-closures", ["def inner() -> int:", "    return c", "inner()"]),
    "closure-captures-in-condition": ("capturing-closures", ["x = c", "def inner() -> int:", "    if x > 0:", "        return 1", "    return 0", "inner()"]),
    "closure-two-levels": ("capturing-closures", ["x = c", "def mid() -> int:", "    def inner() -> int:", "        return x", "    return inner()", "mid()"]),
    "closure-never-called": ("capturing-closures", ["x = c", "def inner() -> int:", "    return x"]),
    "closure-recursive-capturing": ("capturing-closures", ["x = c", "def inner(k: int) -> int:", "    if k == 0:", "        return x", "    return inner(k - 1)", "inner(2)"]),
    # ... of every KIND of captured value
    "closure-captures-function-value": ("capturing-closures", ["g1 = f", "def inner(y: int) -> int:", "    return g1(y)", "inner(1)"]),
    "closure-captures-sibling-local-function": ("capturing-closures", ["def f1(y: int) -> int:", "    return y + 1", "def inner(y: int) -> int:", "    return f1(y)", "inner(1)"]),
    "closure-captures-tuple": ("capturing-closures", ["t = (c, True)", "def inner() -> int:", "    return t[0]", "inner()"]),
    "closure-captures-float-and-bool": ("capturing-closures", ["u = 1.5", "w = c > 0", "def inner() -> float:", "    return u if w else 0.5", "inner()"]),
    "closure-captures-function-and-int": ("capturing-closures", ["g1 = f", "x = c", "def inner() -> int:", "    return g1(x)", "inner()"]),
    # modifier blocks
    "with-dagger": ("modifiers", ["with dagger:", "    pass"]),
    "with-power": ("modifiers", ["with power(2):", "    pass"]),
    "with-control": ("modifiers", ["q = qubit()", "with control(q):", "    pass", "discard(q)"]),
    "with-dagger-power": ("modifiers", ["with dagger, power(2):", "    pass"]),
    "with-nested": ("modifiers", ["with dagger:", "    with power(2):", "        pass"]),
    "with-body-gate": ("modifiers", ["q = qubit()", "with dagger:", "    h(q)", "discard(q)"]),
    # list TYPES
    "list-type-local-annotation": ("lists", ["v: list[int] = [c]"]),
    "list-type-in-nested-signature": ("lists", ["def inner(x: list[int]) -> None:", "    pass"]),
    "list-type-nested-in-tuple": ("lists", ["def inner(x: tuple[list[int], int]) -> None:", "    pass"]),
    "list-type-in-callable": ("lists", ["def inner(x: Callable[[list[int]], None]) -> None:", "    pass"]),
    "list-type-in-array": ("lists", ["def inner(x: array[list[int], 2] @owned) -> None:", "    pass"]),
}
STMT_POSITIONS = {
    "body": lambda ls: ls,
    "in-if": lambda ls: ["if c > 0:"] + ["    " + l for l in ls],
    "in-else": lambda ls: ["if c > 0:", "    pass", "else:"] + ["    " + l for l in ls],
    "in-for": lambda ls: ["for _k in range(2):"] + ["    " + l for l in ls],
    "in-while": lambda ls: ["while c > 0:"] + ["    " + l for l in ls] + ["    c -= 1"],
    "in-nested-function": lambda ls: ["def outer(c: int) -> None:"] + ["    " + l for l in ls] + ["outer(c)"],
    "after-return": lambda ls: ["return"] + ls,
}


def programs():
    out = {}
    for en, (feat, e, t, u, up) in EXPRS.items():
        for pn, pf in EXPR_POSITIONS.items():
            if pn == "return":
                src = PRE + f"@guppy\ndef main(c: int) -> {t}:\n    return {e}\n"
            else:
                body = pf(e, t, u, up)
                if body is None:
                    continue
                src = PRE + "@guppy\ndef main(c: int) -> None:\n" + "".join(f"    {l}\n" for l in body)
            out[f"{en}@{pn}"] = (feat, src)
    for sn, (feat, ls) in STMTS.items():
        for pn, pf in STMT_POSITIONS.items():
            src = PRE + "@guppy\ndef main(c: int) -> None:\n" + "".join(f"    {l}\n" for l in pf(ls))
            out[f"{sn}@{pn}"] = (feat, src)
    return out


def _check(src):
    from checks.c33 import _is_gate_error
    from guppylang_internals.error import GuppyError
    from vlib import gload
    mod = None
    try:
        with warnings.catch_warnings():
            warnings.simplefilter("ignore", SyntaxWarning)
            mod = gload.load(src)
        mod.main.check()
        return "ok"
    except GuppyError as e:
        g = _is_gate_error(e.error)
        return ("gate:" + g) if g else "error:" + str(e.error.title)
    except Exception as e:  # noqa: BLE001
        return f"crash:{type(e).__name__}"
    finally:
        if mod is not None:
            gload.unload(mod)


def _job(item):
    name, feat, src = item
    from checks.c33 import _X
    X = _X()
    X.EXPERIMENTAL_FEATURES_ENABLED = True
    on = _check(src)
    X.EXPERIMENTAL_FEATURES_ENABLED = False
    off = _check(src)
    # and once more after a context manager restored "off" through an exception
    try:
        with X.enable_experimental_features():
            raise KeyError("x")
    except KeyError:
        pass
    off2 = _check(src)
    X.EXPERIMENTAL_FEATURES_ENABLED = False
    return on, off, off2


def run_layer(ctx):
    progs = programs()
    items = [(n, f, s) for n, (f, s) in sorted(progs.items())]
    res = ctx.pmap(_job, items, chunk=8)
    cov = {"position_programs": len(items), "position_judged": 0, "position_undecided_fail_even_when_enabled": 0,
           "position_outcomes_enabled": {}}
    for (name, feat, src), (on, off, off2) in zip(items, res):
        cov["position_outcomes_enabled"][on.split(":")[0]] = cov["position_outcomes_enabled"].get(on.split(":")[0], 0) + 1
        cons, pos = name.split("@")
        if on.startswith("gate:"):
            ctx.violation(f"gate:{feat}:rejected-while-enabled:{pos}",
                          f"{name}: rejected with the experimental-feature error although experimental features are enabled",
                          {"mode": "position", "name": name, "src": src})
            continue
        if on != "ok":
            cov["position_undecided_fail_even_when_enabled"] += 1
            continue
        cov["position_judged"] += 1
        for label, r in (("disabled", off), ("disabled-again-after-exceptional-exit-of-an-enable-block", off2)):
            if not r.startswith("gate:"):
                ctx.violation(f"gate:{feat}:not-rejected-while-disabled:{pos}",
                              f"{name}: accepted with experimental features enabled, but with them {label} the check gave {r!r} "
                              f"instead of the experimental-feature error",
                              {"mode": "position", "name": name, "src": src})
                break
    return cov


def replay(ctx, item):
    on, off, off2 = _job((item["name"], "", item["src"]))
    return {"violation": on.startswith("gate:") or (on == "ok" and not (off.startswith("gate:") and off2.startswith("gate:"))),
            "enabled": on, "disabled": off, "disabled_after_exceptional_exit": off2}
