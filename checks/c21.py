"""C21 — Comptime functions agree with regular Guppy functions.

The same body text is decorated once `@guppy` and once `@guppy.comptime`.  Enumerated:
every binary operator x operand kinds {traced ⊕ traced, traced ⊕ Python constant,
Python constant ⊕ traced (reflected path)} x operand types {int, nat, float, bool};
unary operators; the int / float / len / abs / pow / divmod builtins; tuple, array and
struct construction / unpacking / indexing; calls to @guppy functions with owned and
borrowed arguments.  Whenever BOTH modes accept the body ("operations available in both
modes"), the two compiled functions are executed by hugrvm on a boundary grid and must
give identical results (bit-identical floats, same panics).
"""
from __future__ import annotations

import itertools
import struct

from vlib import gload, hugrvm

ID = "C21"
LEVEL = "exploration"

P62, P63, P64 = 1 << 62, 1 << 63, 1 << 64
GRID = {
    "int": [0, 1, -1, 2, -3, 7, 63, 64, P62, -P63, P63 - 1],
    "nat": [0, 1, 2, 3, 63, 64, P63, P64 - 1],
    "float": [0.0, 0.5, -1.5, 2.5, -7.0, 1e18, float("nan"), float("inf"), -0.0],
    "bool": [False, True],
}
QUICK_GRID = {
    "int": [0, 1, -3, 7, 63, -P63, P63 - 1],
    "nat": [0, 2, 63, P63, P64 - 1],
    "float": [0.0, 0.5, -1.5, 1e18, float("nan"), float("inf")],
    "bool": [False, True],
}
TYPES = ["int", "nat", "float", "bool"]
BINOPS = ["+", "-", "*", "/", "//", "%", "**", "<<", ">>", "&", "|", "^", "==", "!=", "<", "<=", ">", ">="]
LITS = ["2", "3", "0.5", "True", "-1"]
RET_TYPES = ["bool", "nat", "int", "float", "tuple[nat, nat]", "tuple[int, int]", "tuple[float, float]"]

HEADER = '''
@guppy.struct
class P:
    x: int
    y: int

@guppy
def sub2(x: int, y: int) -> int:
    return x - 2 * y

@guppy
def bump(xs: array[int, 2]) -> None:
    xs[0] = xs[0] + 5

@guppy
def total(xs: array[int, 2] @owned) -> int:
    return xs[0] * 10 + xs[1]

@guppy.struct
class W:
    xs: array[int, 2]
    k: int

@guppy
def bump_w(w: W) -> None:
    w.xs[0] = w.xs[0] + w.k
'''

# container / call shapes: (name, params, return type, body lines)
SHAPES = [
    ("tuple-build-unpack", "a: int, b: int", "int", ["t = (a, b)", "x, y = t", "return x - y"]),
    ("tuple-index", "a: int, b: int", "int", ["t = (a, b, 7)", "return t[1] - t[0] + t[2]"]),
    ("tuple-return", "a: int, b: int", "tuple[int, int]", ["return (b, a)"]),
    ("tuple1-return", "a: int, b: int", "tuple[int]", ["return (a - b,)"]),
    ("tuple1-build-unpack", "a: int, b: int", "int", ["t = (a,)", "x, = t", "return x - b"]),
    ("tuple3-return", "a: int, b: int", "tuple[int, int, int]", ["return (b, a, a - b)"]),
    ("nested-tuple-return", "a: int, b: int", "tuple[tuple[int, int], int]", ["return ((b, a), a - b)"]),
    ("none-return", "a: int, b: int", "None", ["x = a + b"]),
    ("nested-tuple", "a: int, b: int", "int", ["t = ((a, b), a)", "(x, y), z = t", "return x * 100 + y * 10 + z"]),
    ("struct-build-field", "a: int, b: int", "int", ["p = P(a, b)", "return p.x - p.y"]),
    ("struct-return-field", "a: int, b: int", "int", ["p = P(b, a)", "q = P(p.y, p.x)", "return q.x * 3 + q.y"]),
    ("array-param-index", "xs: array[int, 3], b: int", "int", ["return xs[0] * 100 + xs[1] * 10 + xs[2]"]),
    ("array-param-len", "xs: array[int, 3], b: int", "int", ["return len(xs) + b"]),
    ("array-build-index", "a: int, b: int", "int", ["xs = array(a, b, 3)", "return xs[1] - xs[0] + xs[2]"]),
    ("call-guppy", "a: int, b: int", "int", ["return sub2(a, b)"]),
    ("call-guppy-swapped", "a: int, b: int", "int", ["return sub2(b, a) + sub2(a, 1)"]),
    ("call-borrow-mutates", "a: int, b: int", "int", ["xs = array(a, b)", "bump(xs)", "bump(xs)", "return total(xs)"]),
    ("call-owned", "a: int, b: int", "int", ["xs = array(b, a)", "return total(xs)"]),
    # the lent value is built from Python CONSTANTS (plain Python values as leaves, not traced objects)
    ("call-borrow-mutates-const-array", "a: int, b: int", "int", ["xs = array(1, 2)", "bump(xs)", "bump(xs)", "return xs[0] * 10 + xs[1] + a"]),
    ("call-borrow-mutates-mixed-array", "a: int, b: int", "int", ["xs = array(a, 2)", "bump(xs)", "return xs[0] * 10 + xs[1]"]),
    ("call-borrow-mutates-struct-const", "a: int, b: int", "int", ["w = W(array(1, 2), 3)", "bump_w(w)", "bump_w(w)", "return w.xs[0] * 10 + w.k + a"]),
    ("call-borrow-mutates-nested-const", "a: int, b: int", "int", ["xss = array(array(1, 2), array(3, 4))", "bump(xss[1])", "return xss[1][0] + xss[0][1] + b"]),
    ("builtin-int-of-float", "a: float, b: int", "int", ["return int(a) + b"]),
    ("builtin-float-of-int", "a: int, b: int", "float", ["return float(a) / 4.0"]),
    ("builtin-abs", "a: int, b: int", "int", ["return abs(a) - b"]),
    ("builtin-pow", "a: int, b: nat", "int", ["return pow(a, 2)"]),
    ("builtin-divmod", "a: nat, b: nat", "tuple[nat, nat]", ["return divmod(a, 3)"]),
    ("builtin-bool-of-int", "a: int, b: int", "bool", ["return bool(a)"]),
    ("builtin-int-of-bool", "a: bool, b: int", "int", ["return int(a) + b"]),
    ("reassign-chain", "a: int, b: int", "int", ["x = a", "x = x + b", "x = x * x", "return x - a"]),
]


def src_pair(params, ret, body):
    b = "\n".join("    " + l for l in body)
    return HEADER + f"\n@guppy\ndef reg({params}) -> {ret}:\n{b}\n\n@guppy.comptime\ndef ct({params}) -> {ret}:\n{b}\n"


def _fbits(x):
    return struct.unpack("<Q", struct.pack("<d", x))[0]


def _canon(v):
    if isinstance(v, float):
        return ("f", "nan" if v != v else _fbits(v))
    if isinstance(v, hugrvm.Sum):
        return ("S", v.tag, tuple(_canon(x) for x in v.vals))
    if isinstance(v, hugrvm.Arr):
        return ("A", tuple(_canon(x) for x in v.slots))
    return v


def _mode_outcome(defn):
    """ok / rejected (any Guppy-style error) / crash (non-Guppy exception)"""
    try:
        pkg = defn.compile_function()
        return "ok", pkg
    except Exception as e:  # noqa: BLE001
        n = type(e).__name__
        if n in ("GuppyError", "GuppyTypeError", "GuppyComptimeError", "GuppyTypeInferenceError"):
            return "rejected", n
        mro = [c.__name__ for c in type(e).__mro__]
        if "GuppyError" in mro:
            return "rejected", n
        return "crash", f"{n}: {e}"


def eval_case(item):
    name, params, rets, body, ptypes, tier = item
    res = {"name": name, "both": False, "asym": None, "dis": None, "runs": 0, "harness": None, "crash": None}
    chosen = None
    for ret in rets:
        try:
            mod = gload.load(gload.PRELUDE + src_pair(params, ret, body))
        except Exception as e:  # noqa: BLE001
            res["crash"] = f"definition failed: {type(e).__name__}: {e}"
            return res
        st_r, pk_r = _mode_outcome(mod.reg)
        if st_r == "ok":
            chosen = (ret, mod, pk_r)
            break
        if st_r == "crash":
            res["crash"] = f"@guppy mode: {pk_r}"
            return res
    if chosen is None:
        # not accepted as a regular function at any result type; try comptime only for the asymmetry counter
        return res
    ret, mod, pk_r = chosen
    st_c, pk_c = _mode_outcome(mod.ct)
    if st_c == "crash":
        res["crash"] = f"@guppy.comptime mode: {pk_c}"
        return res
    if st_c != "ok":
        res["asym"] = f"regular accepts, comptime rejects ({pk_c})"
        return res
    res["both"] = True
    hr, hc = pk_r.modules[0], pk_c.modules[0]
    grid = QUICK_GRID if tier == "quick" else GRID
    doms = []
    for t in ptypes:
        if t.startswith("array"):
            doms.append([[1, 2, 3], [7, -1, 0]])
        else:
            doms.append(grid[t])
    for vals in itertools.product(*doms):
        outs = []
        for h, fn in ((hr, "reg"), (hc, "ct")):
            r = hugrvm.run(h, fn, [hugrvm.to_vm(v) for v in vals], step_budget=200000)
            if r.status in ("unsupported", "invariant", "budget"):
                res["harness"] = f"{fn}: {r.status}: {r.detail}"
                return res
            nret = 2 if ret.startswith("tuple") else 1
            vs = r.values
            if vs is not None:
                vs = vs[:nret] if not (nret == 2 and isinstance(vs[0], hugrvm.Sum)) else list(vs[0].vals)
            outs.append((r.status, None if vs is None else tuple(_canon(v) for v in vs)))
        res["runs"] += 1
        if outs[0] != outs[1]:
            if outs[0][0] == "panic" and outs[1][0] == "panic":
                continue
            res["dis"] = f"inputs {vals!r}: @guppy -> {outs[0]}, @guppy.comptime -> {outs[1]}"
            return res
    return res


def cases(tier):
    out = []
    for op in BINOPS:
        for ta, tb in itertools.product(TYPES, TYPES):
            out.append((f"binop[{op}]:{ta},{tb}:traced-traced", f"a: {ta}, b: {tb}", RET_TYPES, [f"return a {op} b"], (ta, tb), tier))
        for ta in TYPES:
            for lit in LITS:
                out.append((f"binop[{op}]:{ta}:traced-const[{lit}]", f"a: {ta}", RET_TYPES, [f"return a {op} {lit}"], (ta,), tier))
                out.append((f"binop[{op}]:{ta}:const[{lit}]-traced", f"a: {ta}", RET_TYPES, [f"return {lit} {op} a"], (ta,), tier))
    # the SAME traced value on both sides of an operator (directly, through an alias, through a tuple): nothing about
    # `x op x` may be decided while tracing (x != x is true for NaN, x - x is NaN for inf, x / x panics for 0)
    for op in BINOPS:
        for ta in TYPES:
            out.append((f"binop[{op}]:{ta}:same-operand", f"a: {ta}", RET_TYPES, [f"return a {op} a"], (ta,), tier))
            out.append((f"binop[{op}]:{ta}:same-operand-alias", f"a: {ta}", RET_TYPES, ["y = a", f"return y {op} a"], (ta,), tier))
            out.append((f"binop[{op}]:{ta}:same-operand-tuple", f"a: {ta}", RET_TYPES, ["t = (a, a)", f"return t[0] {op} t[1]"], (ta,), tier))
    # TWO Python constants in one function: equal-but-distinguishable values (0.0 / -0.0, 1 / 1.0 / True, 0 / False)
    # must stay distinct constants, in both orders, as operands and as a division check of the sign of zero
    consts = ["0.0", "-0.0", "1", "1.0", "True", "0", "False", "2", "2.0"]
    for c1, c2 in itertools.permutations(consts, 2):
        for ta in ("float", "int"):
            out.append((f"two-consts[{c1},{c2}]:{ta}:mul", f"a: {ta}", RET_TYPES, [f"return (a + {c1}) * {c2}"], (ta,), tier))
            out.append((f"two-consts[{c1},{c2}]:{ta}:seq", f"a: {ta}", RET_TYPES, [f"u = a * {c1}", f"v = a * {c2}", "return u - v * 3"], (ta,), tier))
    for op in ("-", "+", "~"):
        for ta in TYPES:
            out.append((f"unary[{op}]:{ta}", f"a: {ta}", RET_TYPES, [f"return {op}a"], (ta,), tier))
    for fn in ("int", "float", "abs", "bool", "nat"):
        for ta in TYPES:
            out.append((f"builtin[{fn}]:{ta}", f"a: {ta}", RET_TYPES, [f"return {fn}(a)"], (ta,), tier))
    for (name, params, ret, body) in SHAPES:
        import re
        ptypes = tuple(p.split(":", 1)[1].strip() for p in re.split(r", (?=[a-z]+:)", params))
        out.append((f"shape:{name}", params, [ret], body, ptypes, tier))
    return out


def run(ctx):
    cs = cases(ctx.tier)
    res = ctx.pmap(eval_case, cs, chunk=8)
    both = asym = runs = 0
    samples = []
    asym_list = []
    for c, r in zip(cs, res):
        if r["harness"]:
            raise RuntimeError(f"hugrvm could not execute {c[0]}: {r['harness']}")
        base = c[0].split("[")[0] + ("[" + c[0].split("[")[1].split("]")[0] + "]" if "[" in c[0] else "")
        kind = c[0].rsplit(":", 1)[-1].split("[")[0] if c[0].startswith("binop") else ""
        if r["crash"]:
            ctx.violation(f"crash:{base}:{kind}", f"{c[0]} `{c[3]}`: {r['crash']}", {"case": list(c[:5])})
            continue
        if r["asym"]:
            asym += 1
            if len(asym_list) < 12:
                asym_list.append(f"{c[0]}: {r['asym']}")
        if r["both"]:
            both += 1
            runs += r["runs"]
            if len(samples) < 6 and both % 67 == 3:
                samples.append({"case": c[0], "body": c[3], "inputs": r["runs"]})
        if r["dis"]:
            ctx.violation(f"modes-disagree:{c[0].split(':')[0]}:{':'.join(c[0].split(':')[1:]).split('[')[0]}",
                          f"{c[0]} body {c[3]}: {r['dis']}", {"case": list(c[:5])})
    return {
        "evaluations": runs, "distinct_nontrivial": both,
        "rule": "same body as @guppy and @guppy.comptime: operator x operand-position (traced/const) x type matrix, unary ops, builtins, "
                "container and call shapes; non-trivial = accepted in BOTH modes and executed on the boundary grid",
        "samples": samples, "bodies": len(cs), "accepted_in_both_modes": both, "accepted_only_as_regular": asym,
        "asymmetric_examples": asym_list,
    }


def replay(ctx, item):
    c = item["case"]
    r = eval_case((c[0], c[1], c[2], c[3], tuple(c[4]), "thorough"))
    return {"violation": bool(r["dis"] or r["crash"]), "result": r}
