"""C10 parts (2) and (3): string-hashed sets and fresh interpreter processes.

(2) The iteration order of a small `set[str]` inside the compiler (names of variables in
`check_rows_match`, unsolved type variables, monomorphisation parameters) is a function of
PYTHONHASHSEED.  Every corpus program is pushed through check + compile in fresh
subprocesses started under different seeds; for each program's name set the worker also
reports the iteration order that seed induces, and seeds are added until EVERY permutation
of every name set (<= 3 names) has been realised.  The outcome (sha256 of the HUGR bytes,
or the rendered diagnostic) must be one value per program over all seeds.

(3) Each seed's subprocess additionally pre-allocates a different amount of garbage before
importing guppylang, so identity-hashed containers that do not route through hook H1 see
different heap layouts.  This part is SAMPLED (one layout per subprocess) and reported so.
"""
from __future__ import annotations

import itertools
import json
import os
import subprocess
import sys

# programs with competing candidates for "the" reported variable / first emitted item
EXTRA = {
    "two-mismatching-vars-at-join": (["x", "y"], '''
@guppy
def main(b: bool) -> int:
    if b:
        x = 1
        y = 2
    else:
        x = True
        y = False
    return int(x) + int(y)
'''),
    "three-mismatching-vars-at-join": (["p", "q", "r"], '''
@guppy
def main(b: bool) -> int:
    if b:
        p = 1
        q = 2
        r = 3
    else:
        p = 1.0
        q = True
        r = (1, 2)
    return int(p) + int(q) + int(r)
'''),
    "two-mismatching-vars-loop": (["u", "v"], '''
@guppy
def main(n: int) -> int:
    u = 0
    v = 0
    while n > 0:
        u = True
        v = 1.5
        n -= 1
    return int(u) + int(v)
'''),
    "two-leaked-qubits": (["qa", "qb"], '''
@guppy
def main(b: bool) -> None:
    qa = qubit()
    qb = qubit()
    if b:
        h(qa)
        h(qb)
'''),
    "two-unsolved-type-vars": (["S", "T"], '''
@guppy
def mk[S, T]() -> tuple[array[S, 0], array[T, 0]]:
    return array(), array()

@guppy
def main() -> None:
    x = mk()
'''),
    "two-maybe-undefined": (["m", "k"], '''
@guppy
def main(b: bool) -> int:
    if b:
        m = 1
        k = 2
    return m + k
'''),
    "struct-two-linear-fields-leaked": (["f", "g"], '''
@guppy.struct
class S2:
    f: qubit
    g: qubit

@guppy
def main() -> None:
    s = S2(qubit(), qubit())
'''),
    "generic-two-instantiations": (["A", "B"], '''
@guppy
def idf[A, B](x: A @owned, y: B @owned) -> tuple[B, A]:
    return y, x

@guppy
def main(a: int, b: float) -> float:
    p, q = idf(a, b)
    r, s = idf(b, a)
    t, u = idf(True, a)
    return p + s
'''),
    "many-live-variables": (["aa", "bb", "cc"], '''
@guppy
def main(n: int, b: bool) -> int:
    aa = n + 1
    bb = n + 2
    cc = n + 3
    dd = n + 4
    while n > 0:
        if b:
            aa, bb = bb, aa
        else:
            cc, dd = dd, cc
        n -= 1
    return aa + 2 * bb + 3 * cc + 4 * dd
'''),
    "qubits-live-across-branches": (["qa", "qb", "qc"], '''
@guppy
def main(b: bool) -> None:
    qa = qubit()
    qb = qubit()
    qc = qubit()
    if b:
        cx(qa, qb)
    else:
        cx(qb, qc)
    discard(qa)
    discard(qb)
    discard(qc)
'''),
}

WORKER = r'''
import sys, os, json, hashlib
n = int(os.environ.get("VERIF_GARBAGE", "0"))
_garbage = [object() for _ in range(n)] + [[i] for i in range(n // 3)]
del _garbage[::2]
import vlib
from vlib import gload
import guppylang_internals.experimental as ex
ex.enable_experimental_features()
progs = json.load(open(sys.argv[1]))
out = {}
for name, (names, src) in progs.items():
    order = list(set(names))            # iteration order of this name set under this hash seed
    o, mod = gload.run_src(src)
    if o.kind == "ok":
        res = "ok:" + hashlib.sha256(o.package.to_bytes()).hexdigest()[:16]
    elif o.kind == "error":
        res = "error:" + o.rendered.replace(getattr(mod, "__file__", "") if mod else "", "")
        import re
        res = re.sub(r"<verif:vprog\d+>", "<src>", res)
    else:
        res = "crash:" + o.exc
    out[name] = {"order": order, "outcome": res}
print("RESULT" + json.dumps(out))
'''


def _run_seed(args):
    seed, garbage, progfile, root, repo = args
    env = dict(os.environ)
    env.update({"PYTHONHASHSEED": str(seed), "VERIF_GARBAGE": str(garbage),
                "PYTHONPATH": f"{root}/compat:{root}:{repo}/guppylang/src:{repo}/guppylang-internals/src",
                "PYTHONDONTWRITEBYTECODE": "1"})
    p = subprocess.run(["/venv/bin/python", "-c", WORKER, progfile], env=env, capture_output=True, text=True, timeout=900)
    for line in p.stdout.splitlines():
        if line.startswith("RESULT"):
            return seed, garbage, json.loads(line[6:])
    raise RuntimeError(f"seed {seed}: worker failed: {p.stderr[-800:]}")


def run_parts(ctx, corpus: dict):
    """corpus: name -> source of the part-1 programs.  Returns (part2 dict, part3 dict)."""
    import tempfile
    from concurrent.futures import ThreadPoolExecutor
    root = os.environ.get("VERIF_ROOT", "/verif")
    repo = os.environ.get("VERIF_REPO", "/repo")
    progs = {f"x:{k}": v for k, v in EXTRA.items()}
    for k, src in corpus.items():
        progs[f"c:{k}"] = (["x", "y"], src)
    tmp = tempfile.mkdtemp(prefix="c10b_")
    progfile = os.path.join(tmp, "progs.json")
    json.dump(progs, open(progfile, "w"))
    want_perms = {name: set(itertools.permutations(sorted(names))) for name, (names, _) in progs.items()}
    seen_perms = {name: set() for name in progs}
    outcomes: dict = {name: {} for name in progs}
    garbage_levels = [0, 1000, 50000, 300000, 7, 12345]
    seeds_done = []
    batch = 16 if ctx.quick else 32
    max_seeds = 48 if ctx.quick else 160
    seed = 0
    try:
        while seed < max_seeds:
            todo = list(range(seed, min(seed + batch, max_seeds)))
            seed += len(todo)
            with ThreadPoolExecutor(max_workers=min(16, ctx.workers)) as ex:
                results = list(ex.map(_run_seed, [(s, garbage_levels[s % len(garbage_levels)], progfile, root, repo) for s in todo]))
            for s, g, res in results:
                seeds_done.append(s)
                for name, r in res.items():
                    seen_perms[name].add(tuple(r["order"]))
                    outcomes[name].setdefault(r["outcome"], []).append((s, g))
            if all(seen_perms[n] >= want_perms[n] for n in progs):
                break
    finally:
        import shutil
        shutil.rmtree(tmp, ignore_errors=True)
    complete = sum(1 for n in progs if seen_perms[n] >= want_perms[n])
    for name, outs in outcomes.items():
        if len(outs) > 1:
            items = sorted(outs.items(), key=lambda kv: kv[1][0])
            (o1, w1), (o2, w2) = items[0], items[1]
            # attribute: do the two outcomes separate by garbage level at equal name order, or by seed?
            ctx.violation(f"hash-seed-or-heap-dependent:{name.split(':', 1)[1] if name.startswith('x:') else 'corpus-program'}:"
                          f"{o1.split(':')[0]}-vs-{o2.split(':')[0]}",
                          f"program {name}: {len(outs)} distinct outcomes across fresh processes; e.g. PYTHONHASHSEED={w1[0][0]} gives "
                          f"[{o1[:160]!r}] but PYTHONHASHSEED={w2[0][0]} gives [{o2[:160]!r}]",
                          {"part": 2, "name": name, "src": progs[name][1], "seeds": [w1[0][0], w2[0][0]],
                           "garbage": [w1[0][1], w2[0][1]]})
    p2 = {"programs": len(progs), "seeds_run": len(seeds_done), "name_sets_with_every_permutation_realised": complete,
          "permutations_required": sum(len(v) for v in want_perms.values()),
          "permutations_realised": sum(len(seen_perms[n] & want_perms[n]) for n in progs),
          "programs_with_more_than_one_outcome": sum(1 for o in outcomes.values() if len(o) > 1),
          "exhaustive_over_name_orders": complete == len(progs)}
    p3 = {"fresh_processes": len(seeds_done), "garbage_levels": garbage_levels, "sampled": True,
          "note": "heap layouts are sampled, not enumerated"}
    return p2, p3


def replay(ctx, item):
    import tempfile
    root = os.environ.get("VERIF_ROOT", "/verif")
    repo = os.environ.get("VERIF_REPO", "/repo")
    tmp = tempfile.mkdtemp(prefix="c10b_")
    pf = os.path.join(tmp, "p.json")
    json.dump({item["name"]: (["x", "y"], item["src"])}, open(pf, "w"))
    outs = []
    for s, g in zip(item["seeds"], item["garbage"]):
        _, _, res = _run_seed((s, g, pf, root, repo))
        outs.append(res[item["name"]]["outcome"])
    return {"violation": len(set(outs)) > 1, "outcomes": [o[:200] for o in outs]}
