"""C29 — Diagnostic rendering is total and faithful.

Exhaustive grid over `DiagnosticsRenderer.render_diagnostic` / `render_snippet` / `wrap`
(guppylang_internals/diagnostic.py, span.py).

Enumerated (every sub-grid completely, nothing sampled):

  A  geometry      all sources of 1..4 lines (indent in {0,4,12,20} x content length in
                   {1,10,70} per line), ALL spans with endpoints on the column grid
                   {0, indent, indent+1, mid, len-1, len} of their lines, label in
                   {none, short}; also behind 8 / 98 filler lines (2- and 3-digit gutters)
  C  child geom.   the same spans as the span of a Note child ('-' markers)
  B1 texts         reduced span set x ALL labels x ALL messages x (0 or 1 child, every
                   child option: Note/Help, with span (+label, +message) or without)
  B2 two children  ALL ordered pairs of child options
  S  direct        render_snippet(span, label, max_lineno, is_primary, prefix_lines)
  W  direct        wrap(text, width, initial_indent, subsequent_indent)
  N  span-less primary diagnostics

Tiers.  thorough: A over all 12^n sources for n = 1..4 (n <= 3 additionally with an empty
line and the extra column indent//2), fills for n <= 3, B1/B2 over all 1- and 2-line
sources.  quick (complete smaller bounds): A over all 1- and 2-line sources (also behind
the fillers); 3 lines = all 64 indent vectors x all first/last lengths (middle length 10)
and 4 lines = all 256 indent vectors with length 10, both without label; B1 over 9 and
B2 over 3 representative sources.

Oracle = predicates of the property statement (no second renderer, no golden output):
 (1) rendering returns;  (2) every gutter line `<n> | text` shows source line n minus a
 whitespace-only prefix whose length is the same for all lines of that snippet, and the
 first / last line of every span is shown (middle lines may be replaced by an ellipsis
 line: documented behaviour, counted separately);  (3) the run of marker characters in the
 gutter line below a displayed span line stands exactly under the spanned columns;
 (4) the words of every label / message occur in order;  (5) no word is broken.

Accepted either way (statement silent): whether a span's end line is shown when the span
covers no column of it; layout of an over-long word as long as it is intact; context
lines; the title line; text of level prefixes.
"""
from __future__ import annotations

import itertools
import json
import re
import traceback
from dataclasses import dataclass
from typing import ClassVar

ID = "C29"
LEVEL = "exploration"

FILE = "<c29>"
MARKERS = "^-"
ELLIPSES = ("...", "…")

# ------------------------------------------------------------------------------ texts
WORD90 = "".join(f"q{i:02d}" for i in range(30))          # 90 characters, no whitespace
assert len(WORD90) == 90
TEXTS = {
    "none": None,
    "short": "wrong thing here",
    # ~80 characters of ordinary words
    "words80": "alpha bravo charlie delta echo foxtrot golf hotel india juliett kilo lima mike nov",
    "newline": "first paragraph of the text\nsecond paragraph after the line break",
    "word90": WORD90,
    "hyphen": ("state-of-the-art-error-message-rendering is-not-as-easy-as-it-looks-at-first-sight "
               "when-very-long-hyphenated-compound-words-appear"),
    # long message (several wrapped lines at width 80)
    "long": " ".join(f"msg{i:02d}word" for i in range(30)),
    # whitespace-only text (extra edge, own sub-grid)
    "ws": " ",
}
LABELS_ALL = ["none", "short", "words80", "newline", "word90", "hyphen"]
MSGS_ALL = ["none", "short", "long", "newline", "word90", "hyphen"]

INDENTS = (0, 4, 12, 20)
LENGTHS = (1, 10, 70)


# ---------------------------------------------------------------------------- sources
def line_text(tag: str, indent: int, length: int) -> str:
    """A line of `indent` blanks + exactly `length` recognisable characters; the last
    character is `tag` (unique per line), so no line is a suffix of another one."""
    if length == 0:
        return ""
    if length == 1:
        return " " * indent + tag
    raw = " ".join(f"{tag.lower()}{i:x}" for i in range(40))[: length - 1]
    if raw.endswith(" "):
        raw = raw[:-1] + "_"
    return " " * indent + raw + tag


_SHARED_SM = None


class Src:
    """Source text built from a spec: fill=(count, indent) filler lines followed by the
    grid lines [(indent, length), ...]."""

    def __init__(self, fill, lines):
        self.fill = tuple(fill)
        self.spec = tuple(tuple(x) for x in lines)
        nfill, find = self.fill
        self.lines = [" " * find + f"z{i + 1}z" for i in range(nfill)]
        for j, (ind, ln) in enumerate(self.spec):
            self.lines.append(line_text("ABCD"[j], ind, ln))
        self.text = "\n".join(self.lines) + "\n"
        self.first = nfill + 1                       # 1-based number of first grid line
        self._sm = None

    def source_map(self):
        # ONE SourceMap per worker process, the same file name registered again with every new text - as in a
        # long-lived session in which a module is edited and reloaded: rendering must use the current text
        global _SHARED_SM
        if _SHARED_SM is None:
            from guppylang_internals.span import SourceMap
            _SHARED_SM = SourceMap()
        _SHARED_SM.add_file(FILE, self.text)
        return _SHARED_SM

    def indent_of(self, lineno: int) -> int:
        s = self.lines[lineno - 1]
        return len(s) - len(s.lstrip())

    def cols(self, j: int, extra: bool) -> list[int]:
        ind, ln = self.spec[j]
        if ln == 0:
            return [0]
        tot = ind + ln
        cs = {0, ind, ind + 1, ind + ln // 2, tot - 1, tot}
        if extra:
            cs.add(ind // 2)
        return sorted(c for c in cs if 0 <= c <= tot)

    def points(self, extra: bool):
        return [(self.first + j, c) for j in range(len(self.spec)) for c in self.cols(j, extra)]

    def all_spans(self, extra: bool):
        pts = self.points(extra)
        return [(a[0], a[1], b[0], b[1]) for a in pts for b in pts if a <= b]

    def reduced_spans(self):
        """Small span set for the text grids: content of the first line, inner part of
        the last line, and (if >1 line) first content column .. end of last line."""
        n = len(self.spec)
        f, l = self.first, self.first + n - 1
        i0, n0 = self.spec[0]
        i1, n1 = self.spec[-1]
        out = [(f, i0, f, i0 + n0)]
        lo, hi = min(i1 + 1, i1 + n1), max(i1 + n1 - 1, min(i1 + 1, i1 + n1))
        out.append((l, lo, l, hi))
        if n > 1:
            out.append((f, i0, l, i1 + n1))
        res = []
        for s in out:
            if s not in res:
                res.append(s)
        return res


_SRC_CACHE: dict = {}


def get_src(fill, lines) -> Src:
    key = (tuple(fill), tuple(tuple(x) for x in lines))
    s = _SRC_CACHE.get(key)
    if s is None:
        if len(_SRC_CACHE) > 4000:
            _SRC_CACHE.clear()
        s = _SRC_CACHE[key] = Src(*key)
    return s


# ------------------------------------------------------------------------ diagnostics
_CLS_CACHE: dict = {}


def diag_class(kind: str, label, msg):
    key = (kind, label, msg)
    c = _CLS_CACHE.get(key)
    if c is None:
        from guppylang_internals.diagnostic import Error, Help, Note
        base = {"error": Error, "note": Note, "help": Help}[kind]
        ns = {
            "__annotations__": {"title": ClassVar[str], "span_label": ClassVar[str | None],
                                "message": ClassVar[str | None]},
            "title": "Grid diagnostic title",
            "span_label": label,
            "message": msg,
            "__module__": __name__,
        }
        c = _CLS_CACHE[key] = dataclass(frozen=True)(type(f"Grid{kind.capitalize()}", (base,), ns))
    return c


def mk_span(t):
    from guppylang_internals.span import Loc, Span
    return Span(Loc(FILE, t[0], t[1]), Loc(FILE, t[2], t[3]))


# --------------------------------------------------------------------- output parsing
GUT = re.compile(r"^( *)(\d*) \|(?: (.*))?$")


class Rec:
    __slots__ = ("num", "content", "p0", "raw")

    def __init__(self, num, content, p0, raw):
        self.num, self.content, self.p0, self.raw = num, content, p0, raw


def parse_gutter(line: str):
    m = GUT.match(line)
    if not m:
        return None
    content = m.group(3)
    if content is None:
        return Rec(int(m.group(2)) if m.group(2) else None, "", len(line), line)
    return Rec(int(m.group(2)) if m.group(2) else None, content, m.start(3), line)


def segment(recs):
    """Split the gutter block into snippets.  A snippet starts at an empty unnumbered
    gutter line that does not directly follow a numbered line (directly after a numbered
    line an empty gutter line is that line's (empty) marker line)."""
    segs, prev_numbered = [], False
    for r in recs:
        if r.num is None and r.content == "" and not prev_numbered:
            segs.append([])
        else:
            if not segs:
                segs.append([])
            segs[-1].append(r)
        prev_numbered = r.num is not None
    return segs


def match_words(exp, got, width=50):
    """None if `exp` is a subsequence of `got` (in order), else (kind, detail).
    A broken word longer than `width` is classed 'long word' (the renderer's wrapping
    widths are 60 / 80; direct `wrap` calls pass their own width)."""
    j = 0
    for w in exp:
        start = j
        while j < len(got) and got[j] != w:
            j += 1
        if j == len(got):
            for a in range(start, len(got)):
                if got[a] and w.startswith(got[a]):
                    acc, b = got[a], a + 1
                    while b < len(got) and len(acc) < len(w) and w.startswith(acc + got[b]):
                        acc += got[b]
                        b += 1
                    if acc == w and b - a >= 2:
                        pieces = got[a:b]
                        if pieces[0].endswith("-"):
                            return ("wrap-breaks-at-hyphen", pieces)
                        if len(w) > width:
                            return ("wrap-breaks-long-word", [f"{len(p)} chars" for p in pieces])
                        return ("wrap-breaks-word", pieces)
            return ("words-missing", w)
        j += 1
    return None


def check_text(what, text, got_words, out, width=50):
    if not text or not text.split():
        return
    r = match_words(text.split(), got_words, width)
    if r is not None:
        kind, det = r
        key = f"{what}-words-missing" if kind == "words-missing" else kind
        out.append((key, f"{what} {text[:30]!r}...: {kind} {det}"))


def check_snippet(recs, src: Src, span, label, out, st):
    """Predicates (2), (3) and the label part of (4)/(5) on one snippet."""
    lines = src.lines
    l1, c1, l2, c2 = span
    multi = l1 != l2
    numbered = [(i, r) for i, r in enumerate(recs) if r.num is not None]
    valid_k: dict[int, int] = {}                     # rec index -> stripped amount
    for i, r in numbered:
        n = r.num
        if 1 <= n <= len(lines):
            s = lines[n - 1]
            k = len(s) - len(r.content)
            if k >= 0 and s[k:] == r.content:
                if s[:k].strip() == "":
                    valid_k[i] = k
                else:
                    out.append(("indent-strip-removes-code",
                                f"line {n} shown as {r.content[:20]!r}, source {s[:30]!r}"))
                continue
        shown = r.content.strip()
        other = [m for m in range(1, len(lines) + 1)
                 if m != n and shown and lines[m - 1].strip() == shown]
        if other:
            out.append(("line-number-wrong",
                        f"gutter says {n} but the text is source line {other[0]}"))
        else:
            out.append(("source-line-content-wrong",
                        f"gutter line {n} shows {r.content[:30]!r}"))
    if len(set(valid_k.values())) > 1:
        out.append(("indent-strip-inconsistent",
                    f"different amounts stripped in one snippet: {sorted(set(valid_k.values()))}"))
    if any(k > 0 for k in valid_k.values()):
        st["snippets_indent_stripped"] += 1
    nums = [r.num for _, r in numbered]
    all_valid = len(valid_k) == len(numbered)        # else: already reported above
    if all_valid and any(a >= b for a, b in zip(nums, nums[1:])):
        out.append(("source-line-order", f"gutter numbers not strictly increasing: {nums}"))
    pos = {}
    for i, r in numbered:
        pos.setdefault(r.num, i)
    st["context_lines_shown"] += sum(1 for n in nums if n < l1 or n > l2)

    def covered(n):
        ln = len(lines[n - 1])
        if not multi:
            return range(c1, c2)
        if n == l1:
            return range(c1, ln)
        if n == l2:
            return range(0, c2)
        return range(0, ln)

    ends = [(l1, "single-line")] if not multi else [(l1, "multiline-first-line"),
                                                    (l2, "multiline-last-line")]
    label_region = None
    for n, sit in ends:
        cov = covered(n)
        if n not in pos:
            if len(cov) > 0:
                if all_valid:
                    out.append((f"source-line-missing:{sit}", f"spanned line {n} is not shown"))
            else:
                st["uncovered_end_line_absent"] += 1
            continue
        i = pos[n]
        r = recs[i]
        mk = recs[i + 1] if i + 1 < len(recs) and recs[i + 1].num is None else None
        got, rest = set(), ""
        if mk is not None:
            c = mk.content
            j = len(c) - len(c.lstrip(" "))
            e = j
            if j < len(c) and c[j] in MARKERS:
                while e < len(c) and c[e] == c[j]:
                    e += 1
            got = {mk.p0 + x - r.p0 for x in range(j, e)}
            rest = c[e:]
        if sit != "multiline-first-line":
            label_region = (i + 1, rest)
        if i not in valid_k:
            continue                                  # line itself already reported
        k = valid_k[i]
        exp = {c - k for c in cov if c - k >= 0}
        if got != exp:
            kind = "marker-missing" if exp and not got else "marker-misaligned"
            out.append((f"{kind}:{sit}" + (":indent-stripped" if k else ""),
                        f"line {n}: markers at displayed columns {_rng(got)}, spanned columns "
                        f"are {_rng(exp)} (source columns {_rng(set(cov))}, {k} stripped)"))
        elif exp:
            st["marker_runs_exact"] += 1
        if sit == "multiline-first-line" and any(ch in MARKERS for ch in rest):
            out.append(("marker-misaligned:stray-markers", f"line {n}: extra markers {rest!r}"))
    # middle lines: all shown, or replaced by an ellipsis line between first and last
    middle = list(range(l1 + 1, l2))
    if middle:
        shown = [n for n in middle if n in pos]
        if len(shown) == len(middle):
            st["middle_lines_shown"] += 1
        else:
            lo = pos.get(l1, -1)
            hi = pos.get(l2, len(recs))
            ell = any(recs[x].num is None and recs[x].content.strip() in ELLIPSES
                      for x in range(lo + 1, hi))
            if ell and not shown:
                st["middle_lines_elided"] += 1
            elif all_valid:
                out.append(("source-line-missing:middle-lines-without-ellipsis",
                            f"middle lines {middle} shown {shown}, no ellipsis line"))
    # label
    if label and label.split():
        if label_region is None:
            words = " ".join(r.content for r in recs if r.num is None).split()
        else:
            idx, rest = label_region
            words = (rest + " " + " ".join(r.content for r in recs[idx + 1:] if r.num is None)).split()
        if match_words(label.split(), words) is not None:
            # the statement does not say where a label goes: also accept it anywhere in
            # the non-source lines of its snippet
            anywhere = " ".join(r.content for r in recs if r.num is None).split()
            if match_words(label.split(), anywhere) is None:
                st["label_found_elsewhere_in_snippet"] += 1
                words = anywhere
        check_text("label", label, words, out)


def _rng(s):
    if not s:
        return "{}"
    lo, hi = min(s), max(s)
    return f"[{lo},{hi + 1})" if len(s) == hi - lo + 1 else str(sorted(s))


# -------------------------------------------------------------------- case evaluation
def _innermost(exc) -> str:
    tb = traceback.extract_tb(exc.__traceback__)
    for fr in reversed(tb):
        if "guppylang" in fr.filename or "textwrap" in fr.filename:
            return fr.name
    return tb[-1].name if tb else "?"


def _raise_key(case, src, exc) -> str:
    texts = [case.get("label"), case.get("msg"), case.get("text")]
    spans = [case.get("span")]
    for ch in case.get("children", []):
        texts += [ch.get("label"), ch.get("msg")]
        spans.append(ch.get("span"))
    if any(t is not None and TEXTS[t] is not None and not TEXTS[t].split() for t in texts):
        sit = "whitespace-only-text"
    elif any(ch.get("span") and ch["span"][0] != ch["span"][2] for ch in case.get("children", [])):
        sit = "child-span-multiline"
    elif src is not None and any(
            s and (s[1] < src.indent_of(s[0]) or s[3] < src.indent_of(s[2])) for s in spans):
        sit = "span-endpoint-in-leading-whitespace"
    else:
        sit = "other"
    return f"render-raises:{type(exc).__name__}:{_innermost(exc)}:{sit}"


def new_stats():
    return {k: 0 for k in (
        "snippets_checked", "snippets_indent_stripped", "context_lines_shown",
        "uncovered_end_line_absent", "marker_runs_exact", "middle_lines_shown",
        "middle_lines_elided", "render_raised", "rendered_ok", "nonempty_primary_span",
        "multiline_spans", "empty_spans", "with_children", "empty_child_span_not_shown",
        "label_found_elsewhere_in_snippet")}


def evaluate(case, st=None):
    """Runs one case. Returns (violations [(key, detail)], rendered output or None)."""
    from guppylang_internals.diagnostic import DiagnosticsRenderer, wrap
    st = st if st is not None else new_stats()
    out: list = []
    kind = case["kind"]
    if kind == "wrap":
        text = TEXTS[case["text"]]
        try:
            res = wrap(text, case["width"], initial_indent=case["ii"], subsequent_indent=case["si"])
        except Exception as e:  # noqa: BLE001
            st["render_raised"] += 1
            return [(_raise_key(case, None, e), repr(e))], None
        st["rendered_ok"] += 1
        check_text("text", text, " ".join(res).split(), out, case["width"])
        if any("\n" in ln for ln in res):
            out.append(("wrap-line-contains-newline", repr(res)))
        return out, "\n".join(res)

    src = get_src(case["fill"], case["lines"]) if "lines" in case else None
    if kind == "snippet":
        span = tuple(case["span"])
        label = TEXTS[case["label"]]
        r = DiagnosticsRenderer(src.source_map())
        sp = mk_span(span)
        try:
            r.render_snippet(sp, label, case["maxl"], is_primary=case["primary"],
                             prefix_lines=case["prefix"])
        except Exception as e:  # noqa: BLE001
            st["render_raised"] += 1
            return [(_raise_key(case, src, e), repr(e))], None
        st["rendered_ok"] += 1
        recs = [parse_gutter(ln) for ln in r.buffer]
        if any(x is None for x in recs):
            return [("output-unparseable:non-gutter-line-in-snippet", repr(r.buffer))], "\n".join(r.buffer)
        segs = segment(recs)
        if len(segs) != 1:
            out.append(("output-unparseable:snippet-count", f"{len(segs)} snippets for 1 span"))
        else:
            st["snippets_checked"] += 1
            check_snippet(segs[0], src, span, label, out, st)
        return out, "\n".join(r.buffer)

    # full diagnostics
    if kind == "nospan":
        msg = TEXTS[case["msg"]]
        diag = diag_class("error", None, msg)(None)
        r = DiagnosticsRenderer(get_src((0, 0), ((0, 1),)).source_map())
        try:
            r.render_diagnostic(diag)
        except Exception as e:  # noqa: BLE001
            st["render_raised"] += 1
            return [(_raise_key(case, None, e), repr(e))], None
        st["rendered_ok"] += 1
        words = " ".join(r.buffer).split()
        check_text("message", msg if msg else diag.title, words, out)
        return out, "\n".join(r.buffer)

    assert kind == "diag"
    span = tuple(case["span"])
    label, msg = TEXTS[case["label"]], TEXTS[case["msg"]]
    diag = diag_class("error", label, msg)(mk_span(span))
    snippets = [(span, label)]
    messages = [msg]
    for ch in case.get("children", []):
        cl, cm = TEXTS[ch["label"]], TEXTS[ch["msg"]]
        cs = tuple(ch["span"]) if ch["span"] else None
        diag.add_sub_diagnostic(diag_class(ch["k"], cl, cm)(mk_span(cs) if cs else None))
        if cs:
            snippets.append((cs, cl))
        messages.append(cm)
    if (span[0], span[1]) != (span[2], span[3]):
        st["nonempty_primary_span"] += 1
    else:
        st["empty_spans"] += 1
    if span[0] != span[2]:
        st["multiline_spans"] += 1
    if case.get("children"):
        st["with_children"] += 1
    r = DiagnosticsRenderer(src.source_map())
    try:
        r.render_diagnostic(diag)
    except Exception as e:  # noqa: BLE001
        st["render_raised"] += 1
        return [(_raise_key(case, src, e), repr(e))], None
    st["rendered_ok"] += 1
    buf = list(r.buffer)
    rendered = "\n".join(buf)
    if any("\n" in ln for ln in buf):
        out.append(("output-unparseable:newline-inside-buffer-line", ""))
        return out, rendered
    # gutter block = maximal run of gutter lines after the title line
    g = 1
    recs = []
    while g < len(buf):
        rec = parse_gutter(buf[g])
        if rec is None:
            break
        recs.append(rec)
        g += 1
    tail = buf[g:]
    segs = segment(recs)
    if len(segs) < len(snippets):
        # Statement silent on whether a child whose span covers no column gets a snippet;
        # its label, however, must not get lost.
        kept = [snippets[0]] + [x for x in snippets[1:] if (x[0][0], x[0][1]) != (x[0][2], x[0][3])]
        if len(kept) == len(segs):
            for sp, lb in snippets[1:]:
                if (sp[0], sp[1]) == (sp[2], sp[3]):
                    st["empty_child_span_not_shown"] += 1
                    if lb and lb.split():
                        out.append(("label-words-missing:child-with-empty-span-dropped",
                                    f"child with zero-width span {sp} and label {lb[:20]!r} is not rendered at all"))
            snippets = kept
    if len(segs) != len(snippets):
        out.append(("output-unparseable:snippet-count",
                    f"{len(segs)} snippets in the output for {len(snippets)} spans"))
    else:
        for seg, (sp, lb) in zip(segs, snippets):
            st["snippets_checked"] += 1
            check_snippet(seg, src, sp, lb, out, st)
    # messages, in order, in the part after the snippets
    exp_words = []
    for m in messages:
        if m and m.split():
            exp_words += m.split()
    if exp_words:
        rr = match_words(exp_words, " ".join(tail).split())
        if rr is not None:
            k, det = rr
            out.append(("message-words-missing" if k == "words-missing" else k,
                        f"message text: {k} {det}"))
    return out, rendered


# ------------------------------------------------------------------------ enumeration
def child_options(src: Src, tier: str):
    """Every child option for a source: Note/Help x (without span: message) or
    (with span: span x label x message)."""
    spans = src.reduced_spans()
    opts = []
    for k in ("note", "help"):
        for m in ("none", "short", "long", "hyphen"):
            opts.append({"k": k, "span": None, "label": "none", "msg": m})
        for sp in spans:
            for lb in ("none", "short", "words80", "hyphen"):
                for m in ("none", "short"):
                    opts.append({"k": k, "span": list(sp), "label": lb, "msg": m})
    return opts


def cases_of_unit(unit):
    plan, fill, lines, tier, part = unit
    extra = tier == "thorough" and len(lines) < 4     # extra column indent//2
    quick_tier = tier == "quick"
    base = {"kind": "diag", "fill": list(fill), "lines": [list(x) for x in lines]}
    if plan == "W":
        for t in LABELS_ALL[1:] + ["long"]:
            for w in (8, 20, 60, 80, 200):
                for ii, si in (("", ""), (" ", "      ")):
                    yield {"kind": "wrap", "text": t, "width": w, "ii": ii, "si": si}
        return
    if plan == "N":
        for m in MSGS_ALL + ["ws"]:
            yield {"kind": "nospan", "msg": m}
        return
    src = get_src(fill, lines)
    if plan in ("A", "A0"):
        for sp in src.all_spans(extra):
            for lb in ("none", "short") if plan == "A" else ("none",):
                yield {**base, "span": list(sp), "label": lb, "msg": "none", "children": []}
    elif plan == "C":
        prim = src.reduced_spans()[0]
        for sp in src.all_spans(extra):
            for lb in ("none", "short"):
                yield {**base, "span": list(prim), "label": "none", "msg": "none",
                       "children": [{"k": "note", "span": list(sp), "label": lb, "msg": "none"}]}
    elif plan == "B1":
        opts = child_options(src, tier)
        for sp in src.reduced_spans()[part:part + 1]:
            for lb in LABELS_ALL:
                for m in MSGS_ALL:
                    yield {**base, "span": list(sp), "label": lb, "msg": m, "children": []}
                    for o in opts:
                        yield {**base, "span": list(sp), "label": lb, "msg": m, "children": [o]}
        if part == 0:                                 # whitespace-only texts (extra edge)
            sp = src.reduced_spans()[0]
            yield {**base, "span": list(sp), "label": "ws", "msg": "none", "children": []}
            yield {**base, "span": list(sp), "label": "none", "msg": "ws", "children": []}
    elif plan == "B2":
        opts = child_options(src, tier)
        sp = src.reduced_spans()[0]
        lb, m = [(a, b) for a in ("none", "words80") for b in ("none", "long")][part]
        for o1, o2 in itertools.product(opts, opts):
            yield {**base, "span": list(sp), "label": lb, "msg": m, "children": [o1, o2]}
    elif plan == "S":
        for sp in src.all_spans(extra):
            for prefix in (0, 1, 3):
                for prim in (True, False):
                    for maxl in (sp[2], 12345) if not quick_tier else ((sp[2],) if prim else (12345,)):
                        yield {"kind": "snippet", "fill": list(fill), "lines": [list(x) for x in lines],
                               "span": list(sp), "label": "short" if prim else "none",
                               "primary": prim, "prefix": prefix, "maxl": maxl}
    else:
        raise ValueError(plan)


def case_size(case):
    ln = case.get("lines", [])
    return (len(ln) + case.get("fill", [0])[0], sum(a + b for a, b in ln),
            len(case.get("children", [])), len(json.dumps(case, sort_keys=True)))


def describe(case):
    if case["kind"] == "wrap":
        return f"wrap(TEXTS[{case['text']!r}], {case['width']}, {case['ii']!r}, {case['si']!r})"
    if case["kind"] == "nospan":
        return f"span-less Error, message={case['msg']}"
    s = case["span"]
    d = (f"fill={case['fill']} lines(indent,len)={case['lines']} "
         f"span={s[0]}:{s[1]}-{s[2]}:{s[3]} label={case['label']}")
    if case["kind"] == "snippet":
        return d + f" render_snippet(primary={case['primary']}, prefix_lines={case['prefix']}, max_lineno={case['maxl']})"
    d += f" msg={case['msg']}"
    for ch in case.get("children", []):
        cs = ch["span"]
        d += (f" +{ch['k']}(span={'%d:%d-%d:%d' % tuple(cs) if cs else None},"
              f" label={ch['label']}, msg={ch['msg']})")
    return d


def run_unit(unit):
    st = new_stats()
    viol: dict = {}
    harness = []
    n = 0
    sample = None
    for case in cases_of_unit(unit):
        n += 1
        try:
            res, rendered = evaluate(case, st)
        except Exception:  # noqa: BLE001  -- a bug of this driver, never a violation
            if len(harness) < 3:
                harness.append(describe(case) + "\n" + traceback.format_exc())
            else:
                harness.append("")
            continue
        if sample is None and rendered and case.get("span") and case["span"][0] != case["span"][2]:
            sample = {"case": describe(case), "output": rendered.split("\n")[:12]}
        seen = set()
        for key, det in res:
            if key in seen:
                continue
            seen.add(key)
            cur = viol.get(key)
            sz = case_size(case)
            if cur is None:
                viol[key] = [1, sz, det, case]
            else:
                cur[0] += 1
                if sz < cur[1]:
                    cur[1], cur[2], cur[3] = sz, det, case
    return {"n": n, "st": st, "viol": viol, "harness": harness, "sample": sample, "plan": unit[0]}


def line_options(tier):
    opts = [(i, l) for i in INDENTS for l in LENGTHS]
    if tier == "thorough":
        opts.append((0, 0))                          # an empty source line
    return opts


def units(tier):
    lo = line_options(tier)
    quick = tier == "quick"
    us = [("W", (0, 0), (), tier, 0), ("N", (0, 0), (), tier, 0)]
    # A: geometry
    for n in (1, 2):
        for ls in itertools.product(lo, repeat=n):
            us.append(("A", (0, 0), ls, tier, 0))
    if quick:
        # complete smaller bounds for 3 and 4 lines (plan A0 = no label): ALL indent
        # vectors; 3 lines: every first/last length, middle length 10; 4 lines: length 10
        for inds in itertools.product(INDENTS, repeat=3):
            for la in LENGTHS:
                for lc in LENGTHS:
                    us.append(("A0", (0, 0), ((inds[0], la), (inds[1], 10), (inds[2], lc)), tier, 0))
        for ln in (10,):
            for inds in itertools.product(INDENTS, repeat=4):
                us.append(("A0", (0, 0), tuple((i, ln) for i in inds), tier, 0))
    else:
        for ls in itertools.product(lo, repeat=3):
            us.append(("A", (0, 0), ls, tier, 0))
        # 4 lines: the stated grid completely (empty line / extra column only up to 3 lines)
        for ls in itertools.product(line_options("quick"), repeat=4):
            us.append(("A", (0, 0), ls, tier, 0))
    fills = ((8, 0), (8, 20), (98, 20))
    for fill in fills:
        for n in (1, 2) if quick else (1, 2, 3):
            for ls in itertools.product(line_options("quick"), repeat=n):
                us.append(("A", fill, ls, tier, 0))
    # C: child-span geometry
    for fill in ((0, 0), (8, 20)):
        for n in (1, 2) if quick else (1, 2, 3):
            for ls in itertools.product(line_options("quick"), repeat=n):
                us.append(("C", fill, ls, tier, 0))
    # S: direct render_snippet
    for fill in ((0, 0), (3, 20)) if quick else ((0, 0), (3, 20), (3, 4)):
        for n in (1, 2):
            for ls in itertools.product(line_options("quick"), repeat=n):
                us.append(("S", fill, ls, tier, 0))
    # B: texts and children
    if quick:
        bsrc = [((0, 0), ((0, 70),)), ((0, 0), ((20, 10),)),
                ((0, 0), ((0, 10), (0, 70))), ((0, 0), ((20, 10), (20, 70))),
                ((0, 0), ((4, 70), (12, 1))), ((0, 0), ((20, 1), (20, 10))),
                ((0, 0), ((0, 10), (4, 10), (0, 10))), ((0, 0), ((20, 70), (20, 10), (20, 70))),
                ((8, 20), ((20, 10), (20, 10)))]
        b2src = [bsrc[1], bsrc[3], bsrc[7]]
    else:
        bsrc = [((0, 0), ls) for n in (1, 2) for ls in itertools.product(line_options("quick"), repeat=n)]
        bsrc += [((0, 0), ((0, 10), (4, 10), (0, 10))), ((0, 0), ((20, 70), (20, 10), (20, 70))),
                 ((8, 20), ((20, 10), (20, 10))), ((98, 20), ((20, 10), (20, 70)))]
        b2src = [((0, 0), ls) for n in (1, 2)
                 for ls in itertools.product([(0, 10), (0, 70), (20, 10), (20, 70)], repeat=n)]
        b2src += bsrc[-4:]
    # the heavy text units are split into parts (one reduced span / one (label, message)
    # variant each) and come first so that the pool is evenly loaded
    heavy = []
    for fill, ls in b2src:
        heavy += [("B2", fill, ls, tier, part) for part in range(4)]
    for fill, ls in bsrc:
        heavy += [("B1", fill, ls, tier, part) for part in range(len(get_src(fill, ls).reduced_spans()))]
    return heavy + us


# ------------------------------------------------------------------------------- run
def run(ctx):
    us = units(ctx.tier)
    results = ctx.pmap(run_unit, us, chunk=1 if ctx.quick else 4, recycle=2000)
    st = new_stats()
    n = 0
    per_plan: dict = {}
    viol: dict = {}
    harness = []
    samples = []
    for r in results:
        n += r["n"]
        per_plan[r["plan"]] = per_plan.get(r["plan"], 0) + r["n"]
        for k, v in r["st"].items():
            st[k] += v
        harness += r["harness"]
        if r["sample"] and len(samples) < 4 and r["plan"] in ("A", "B1", "S") and (
                not samples or samples[-1]["case"][:40] != r["sample"]["case"][:40]):
            samples.append(r["sample"])
        for key, (cnt, sz, det, case) in r["viol"].items():
            cur = viol.get(key)
            if cur is None:
                viol[key] = [cnt, tuple(sz), det, case]
            else:
                cur[0] += cnt
                if tuple(sz) < cur[1]:
                    cur[1], cur[2], cur[3] = tuple(sz), det, case
    if harness:
        first = next(h for h in harness if h)
        raise RuntimeError(f"C29 driver bug on {len(harness)} case(s), first:\n{first}")
    for key in sorted(viol):
        cnt, _, det, case = viol[key]
        for _ in range(cnt):
            ctx.violation(key, f"{key}: {describe(case)}: {det}"[:600], case)
    from checks import c29b
    part_e = c29b.run_part(ctx)
    return {
        **part_e,
        "evaluations": n,
        "distinct_nontrivial": st["nonempty_primary_span"],
        "rule": "non-trivial = full-diagnostic case whose primary span covers at least one column "
                "(every enumerated case is distinct by construction)",
        "samples": samples,
        "space": "see module docstring of checks/c29.py, tier " + ctx.tier,
        "units": len(us),
        "evaluations_per_plan": per_plan,
        "violating_cases_per_key": {k: v[0] for k, v in sorted(viol.items())},
        "harness_errors": len(harness),
        **st,
    }


def replay(ctx, item):
    if isinstance(item, dict) and item.get("part") == "E":
        from checks import c29b
        return c29b.replay(ctx, item)
    res, rendered = evaluate(item)
    return {"violation": bool(res), "case": describe(item), "disagreements": res,
            "output": rendered.split("\n") if rendered else None}
