"""C31 — Printed types read back as the same type.

Part A (round trip).  Exhaustive over the FIRST-ORDER part (no function components) of
the `vlib.tyuniverse` universe: bases int nat float bool str None qubit; array[T,n] with
n in {0, 2, bound nat variable n}; frozenarray[T,n]; Option[T]; tuples of arity 0, 1, 2;
structs SEmpty SInt SArr SQ, generic G[T] GQ[T] GP[T]; bound type variables:
  quick    : ALL such types of depth <= 2
  thorough : ALL of depth <= 2, plus depth 3 = every unary constructor over every depth-2
             type and 2-tuples (t, r)/(r, t) of depth-2 types t with tyuniverse.REPS.
For each type: s = str(ty) (the TypePrinter used by every diagnostic), then
    type_from_ast(ast.parse(s, mode="eval").body, TypeParsingCtx(globals, param_var_mapping))
with the real annotation parser, in a context where the builtin names, qubit, array,
frozenarray, Option, the struct names and the bound variables resolve.  Required:
parsed == ty.  A printed string that is not a Python expression, or that the annotation
parser rejects or crashes on, "does not read back" and is a violation too.
Ill-kinded types (frozenarray of a non-copyable element) cannot be written as an
annotation at all and are skipped (counted).  A failing type is only reported if none of
its components fails (the component is reported on its own), keyed by the constructor
and the constructor class of its arguments.

Part B (name uniqueness), complete for <= 3 variables over display names {T, U}:
  * generic FunctionTypes with 1..3 parameters, every assignment of kinds {type, nat
    const} and names; the names in the printed `forall` binder must be pairwise distinct,
    and so must the names printed for the distinct variables in the body;
  * types containing 1..3 distinct existential type / const variables (every kind and
    name assignment) in 4 shapes (tuple, function, Option-wrapped, struct-wrapped);
  * mixed: generic functions whose inputs also mention existential variables.
Counted but NOT violations (outside the statement's quantifier): free bound variables
(no binder) that share a display name, display names containing an apostrophe (not
Python identifiers) that collide with generated names, and whether one variable is
printed with one name at every occurrence.
"""
from __future__ import annotations

import ast
import itertools
import re

ID = "C31"
LEVEL = "exploration"


# ------------------------------------------------------------------ part A worker
def _cls(d) -> str:
    if isinstance(d, str):
        return "base"
    h = d[0]
    return {"tuple": "tuple", "struct": "struct", "var": "var", "option": "Option"}.get(h, h)


def key_of(desc) -> str:
    from vlib.tyuniverse import children
    if desc[0] == "tuple" and len(desc) == 2:
        return "roundtrip:1-tuple"
    ch = children(desc)
    if desc[0] in ("option", "struct") and len(ch) == 1 and _cls(ch[0]) == "tuple":
        # X[(a, b)] is the same Python expression as X[a, b]: one defect for every
        # constructor that takes a single type argument
        return "roundtrip:tuple-as-sole-type-argument"
    head = _cls(desc) if desc[0] != "tuple" else f"tuple{len(desc) - 1}"
    return f"roundtrip:{head}[{','.join(_cls(c) for c in children(desc))}]"


_PCTX = []


def _parse_ctx():
    if not _PCTX:
        from vlib import tyuniverse as U
        from guppylang_internals.tys.parsing import TypeParsingCtx
        e = U.env()
        _PCTX.append((e.globals(), e))
    g, e = _PCTX[0]
    from guppylang_internals.tys.parsing import TypeParsingCtx
    return TypeParsingCtx(g, dict(e.param_var_mapping))


_RT: dict = {}


def roundtrip(desc):
    """None if str(ty) reads back as ty, else (kind, printed, detail).  Memoised."""
    from vlib import tyuniverse as U
    from guppylang_internals.error import GuppyError
    from guppylang_internals.tys.parsing import type_from_ast
    if desc in _RT:
        return _RT[desc]
    ty = U.build(desc)
    s = str(ty)
    res = None
    try:
        node = ast.parse(s, mode="eval").body
    except SyntaxError as e:
        node = None
        res = ("not-an-expression", s, f"SyntaxError: {e.msg}")
    if node is not None:
        try:
            parsed = type_from_ast(node, _parse_ctx())
        except GuppyError as e:
            title = getattr(e.error, "rendered_title", None) or e.error.title
            res = ("rejected", s, f"{type(e.error).__name__}: {title}")
        except Exception as e:  # noqa: BLE001  the real parser crashed on a printed type
            res = ("parser-crash", s, f"{type(e).__name__}: {e}"[:160])
        else:
            if parsed != ty:
                res = ("different-type", s, f"reads back as `{parsed}` = {parsed!r}"[:200])
            elif U.describe(parsed) != desc:
                raise AssertionError(f"parsed == ty but descriptions differ: {desc!r} vs {U.describe(parsed)!r}")
    if len(_RT) < 400_000:
        _RT[desc] = res
    return res


_DESCS: list = []


def eval_range(rng):
    from vlib import tyuniverse as U
    from checks.c14 import info
    lo, hi = rng
    n = ok = skipped = propagated = nontrivial = 0
    viols: dict = {}
    harness = []
    kinds: dict = {}
    for desc in _DESCS[lo:hi]:
        try:
            if not info(desc)[1]:
                skipped += 1
                continue
            n += 1
            if not isinstance(desc, str) and desc[0] != "var":
                nontrivial += 1
            r = roundtrip(desc)
            if r is None:
                ok += 1
                continue
            kinds[r[0]] = kinds.get(r[0], 0) + 1
            if any(roundtrip(c) is not None for c in U.children(desc)):
                propagated += 1
                continue
            key = key_of(desc)
            if key in viols:
                viols[key][0] += 1
            else:
                kind, s, detail = r
                viols[key] = [1, f"str(ty) = `{s}` for ty = {U.to_source(desc)}: {kind}: {detail}", desc]
        except Exception as e:  # noqa: BLE001  harness error
            harness.append(f"{type(e).__name__}: {e} on {desc!r}")
    return (n, ok, skipped, propagated, nontrivial), kinds, viols, harness[:5], len(harness)


# ------------------------------------------------------------------------- part B
NAMES = ("T", "U")
EXOTIC = ("T", "T'1")
SHAPES = ("tuple", "func", "option", "struct")


def split_top(s: str) -> list[str]:
    out, depth, cur = [], 0, ""
    for ch in s:
        if ch in "([":
            depth += 1
        elif ch in ")]":
            depth -= 1
        if ch == "," and depth == 0:
            out.append(cur.strip())
            cur = ""
        else:
            cur += ch
    if cur.strip():
        out.append(cur.strip())
    return out


def _params(spec):
    from guppylang_internals.tys.builtin import nat_type
    from guppylang_internals.tys.param import ConstParam, TypeParam
    ps = []
    for i, (kind, name) in enumerate(spec):
        if kind == "type":
            ps.append(TypeParam(i, name, must_be_copyable=False, must_be_droppable=False))
        else:
            ps.append(ConstParam(i, name, nat_type()))
    return ps


def _elem_of(arg):
    """A type mentioning the variable behind `arg` exactly once."""
    from guppylang_internals.tys.arg import TypeArg
    from guppylang_internals.tys.builtin import array_type_def, int_type
    from guppylang_internals.tys.ty import OpaqueType
    if isinstance(arg, TypeArg):
        return arg.ty
    return OpaqueType([TypeArg(int_type()), arg], array_type_def)


_TOK = re.compile(r"[?A-Za-z_][\w']*")


def _name_in(elem: str, kind: str) -> str:
    """The variable name inside one printed element: the element itself for a type
    variable; for a const variable the only identifier of `array[int, <name>]` that is
    not `array` / `int` (tolerant of layout so that printer changes surface as findings
    of part A, not as harness errors here)."""
    if kind == "type":
        return elem
    toks = [t for t in _TOK.findall(elem) if t not in ("array", "int")]
    if len(toks) != 1:
        raise AssertionError(f"cannot find const variable in `{elem}`")
    return toks[0]


def case_generic(spec, n_ex=0, ex_spec=()):
    """Generic function `forall <spec>. (one input per variable) -> None`; optionally
    further inputs mentioning fresh existential variables (ex_spec)."""
    from guppylang_internals.tys.ty import FuncInput, FunctionType, InputFlags, NoneType
    ps = _params(spec)
    ins = [FuncInput(_elem_of(p.to_bound()), InputFlags.NoFlags) for p in ps]
    exs = [p.to_existential()[0] for p in _params(ex_spec)]
    ins += [FuncInput(_elem_of(a), InputFlags.NoFlags) for a in exs]
    s = str(FunctionType(ins, NoneType(), ps))
    m = re.match(r"^forall (.*?)\. (.*) -> [^>]*$", s)
    if not m:
        raise AssertionError(f"unexpected shape of printed generic function: {s}")
    binder = [q.split(":")[0].strip() for q in split_top(m.group(1))]
    body = m.group(2)
    all_kinds = [k for k, _ in spec] + [k for k, _ in ex_spec]
    elems = split_top(body[1:-1]) if len(all_kinds) != 1 else [body]
    if len(binder) != len(spec) or len(elems) != len(all_kinds):
        raise AssertionError(f"cannot align printed generic function: {s}")
    names = [_name_in(e, k) for e, k in zip(elems, all_kinds)]
    return s, binder, names[:len(spec)], names[len(spec):]


def case_existential(spec, shape):
    from guppylang_internals.tys.arg import TypeArg
    from guppylang_internals.tys.builtin import option_type
    from guppylang_internals.tys.ty import (FuncInput, FunctionType, InputFlags, NoneType,
                                            StructType, TupleType)
    from vlib import tyuniverse as U
    elems = [_elem_of(p.to_existential()[0]) for p in _params(spec)]
    if shape == "tuple":
        ty = TupleType(elems)
    elif shape == "func":
        ty = FunctionType([FuncInput(e, InputFlags.NoFlags) for e in elems], NoneType())
    elif shape == "option":
        ty = TupleType([option_type(e) for e in elems])
    else:
        g = U.env().struct_defs["G"]
        ty = TupleType([StructType([TypeArg(e)], g) for e in elems])
    s = str(ty)
    toks = re.findall(r"\?[A-Za-z_][\w']*", s)
    if len(toks) != len(spec):
        raise AssertionError(f"expected {len(spec)} existential names in `{s}`")
    return s, toks


def specs(names, kmax=3):
    for k in range(1, kmax + 1):
        for kinds in itertools.product(("type", "const"), repeat=k):
            for ns in itertools.product(names, repeat=k):
                yield tuple(zip(kinds, ns))


def dup(xs) -> bool:
    return len(set(xs)) != len(xs)


def eval_names(case):
    """case = ("generic", spec) | ("existential", spec, shape) | ("mixed", spec, ex_spec)
    -> list of (key, what)"""
    out = []
    tag = case[0]
    spec = tuple(tuple(x) for x in case[1])
    if tag == "generic":
        s, binder, body, _ = case_generic(spec)
        if dup(binder):
            out.append(("names:generic-function:binder", f"`{s}`: {len(spec)} distinct parameters, binder names {binder}"))
        if dup(body):
            out.append(("names:generic-function:body", f"`{s}`: distinct variables printed as {body} in the body"))
    elif tag == "existential":
        s, toks = case_existential(spec, case[2])
        if dup(toks):
            out.append(("names:existential", f"`{s}`: {len(spec)} distinct existential variables printed as {toks}"))
    elif tag == "mixed":
        ex = tuple(tuple(x) for x in case[2])
        s, binder, body, exn = case_generic(spec, ex_spec=ex)
        # a bound `T` and an existential `?T` are different tokens: compared with sigil
        if dup(binder + exn) or dup(body + exn):
            out.append(("names:mixed", f"`{s}`: bound {binder} / {body}, existential {exn}"))
    else:
        raise ValueError(tag)
    return out


def names_cases():
    cs = [("generic", sp) for sp in specs(NAMES)]
    cs += [("existential", sp, sh) for sp in specs(NAMES) for sh in SHAPES]
    for sp in specs(NAMES, 2):
        for ex in specs(NAMES, 2):
            if len(sp) + len(ex) <= 3:
                cs.append(("mixed", sp, ex))
    return cs


def informational():
    """Measured, never violations (outside the statement's quantifier)."""
    from guppylang_internals.tys.ty import BoundTypeVar, TupleType
    free_same = str(TupleType([BoundTypeVar("T", 0, True, True), BoundTypeVar("T", 1, True, True)]))
    exotic = 0
    for sp in specs(EXOTIC):
        _, binder, body, _ = case_generic(sp)
        exotic += dup(binder) or dup(body)
    # one variable, two occurrences
    from guppylang_internals.tys.ty import ExistentialTypeVar
    v = ExistentialTypeVar.fresh("T", True, True)
    w = ExistentialTypeVar.fresh("T", True, True)
    rep = str(TupleType([v, w, v]))
    toks = re.findall(r"\?[\w']+", rep)
    return {"free_bound_vars_same_display_name_print": free_same,
            "exotic_apostrophe_name_collisions": exotic,
            "same_var_same_name": len(toks) == 3 and toks[0] == toks[2] and toks[0] != toks[1]}


# --------------------------------------------------------------------------- run
def run(ctx):
    from vlib import tyuniverse as U
    global _DESCS
    U.env()
    if ctx.quick:
        descs = U.universe(2, funcs=False)
        bound = "first-order, depth<=2 complete"
    else:
        descs = U.universe(3, funcs=False, restrict_pairs_at=3)
        bound = "first-order, depth<=2 complete; depth 3: unary constructors over all depth-2 types, 2-tuples with REPS"
    _DESCS = descs
    step = 8192
    ranges = [(i, min(i + step, len(descs))) for i in range(0, len(descs), step)]
    if len(descs) < 150_000:        # ~0.1 ms per type: a fork pool only pays off above that
        res = [eval_range(r) for r in ranges]
    else:
        res = ctx.pmap(eval_range, ranges, chunk=1, recycle=10_000)
    n = ok = skipped = propagated = nontrivial = n_harness = 0
    harness, kinds = [], {}
    for (a, b, c, d, e), ks, viols, hs, nh in res:
        n, ok, skipped, propagated, nontrivial = n + a, ok + b, skipped + c, propagated + d, nontrivial + e
        harness += hs
        n_harness += nh
        for k, v in ks.items():
            kinds[k] = kinds.get(k, 0) + v
        for key, (count, what, desc) in viols.items():
            ctx.violation(key, what, {"part": "roundtrip", "desc": desc})
            ctx.violations[key]["count"] += count - 1
    if harness:
        raise RuntimeError(f"{n_harness} harness errors, first: {harness[0]}")

    cases = names_cases()
    name_samples = []
    for case in cases:
        for key, what in eval_names(case):
            ctx.violation(key, what, {"part": "names", "case": case})
    for case in (cases[5], cases[100], cases[-1]):
        name_samples.append(case_generic(case[1], ex_spec=case[2])[0] if case[0] == "mixed" else
                            case_generic(case[1])[0] if case[0] == "generic" else
                            case_existential(case[1], case[2])[0])
    shared = sum(1 for c in cases if dup([nm for _, nm in c[1]] + ([nm for _, nm in c[2]] if c[0] == "mixed" else [])))
    samples = [{"type": U.to_source(d), "printed": str(U.build(d))} for d in descs[::max(1, len(descs) // 5)][:5]]
    return {
        "evaluations": n + len(cases),
        "distinct_nontrivial": nontrivial + shared,
        "rule": "part A: composite (non-base, non-variable) well-kinded first-order types; "
                "part B: cases in which at least two distinct variables share a display name",
        "samples": samples + [{"printed": s} for s in name_samples],
        "bound": bound, "types_roundtripped": n, "roundtrip_ok": ok,
        "roundtrip_failing": n - ok, "failing_by_kind": kinds,
        "failing_propagated_from_component": propagated,
        "skipped_ill_kinded": skipped,
        "name_cases": len(cases), "name_cases_with_shared_display_name": shared,
        **informational(),
        **_part_c(ctx),
        "harness_errors": n_harness,
    }


def _part_c(ctx):
    from checks import c31b
    return c31b.run_part(ctx)


def replay(ctx, item):
    if item.get("part") == "C":
        from checks import c31b
        return c31b.replay(ctx, item)
    return _replay_ab(ctx, item)


def _replay_ab(ctx, item):
    from vlib import tyuniverse as U
    U.env()
    if item["part"] == "roundtrip":
        desc = U.norm(item["desc"])
        r = roundtrip(desc)
        return {"violation": r is not None, "type": U.to_source(desc), "printed": str(U.build(desc)),
                "result": r}
    case = U.norm(item["case"])
    v = eval_names(case)
    return {"violation": bool(v), "violations": v}
