"""C09 — Dataflow analyses equal the path-based solution in any visit order.

What is enumerated (nothing is sampled)
---------------------------------------
Part A — synthetic CFGs from REAL `CFG` / `BB` objects (cfg/cfg.py, cfg/bb.py):
  all graphs with n blocks (0 = entry, 1 = exit, 2.. = others; the exit has no
  successors), every other block having 0-2 real successors and 0-1 (thorough: 0-2 for
  n <= 4) dummy successors, up to renaming of the n-2 middle blocks (the analyses never
  read `idx`, and every schedule is explored, so renaming is a symmetry);
  `reachable` flags set by the real `CFG.update_reachable()` (what cfg/builder.py calls);
  every assignment of per-block stat codes {none, used, assigned, used-then-assigned} per
  variable (for the assignment analysis {none, assigned}), realised as synthetic `ast`
  statements / branch predicates so that `BB.compute_variable_stats` is exercised;
  entry sets (ass_before_entry, maybe_ass_before_entry) in {(0,0),(0,{x}),({x},{x})};
  inout variables in {[], [x]}.
  Under `vlib.schedx` EVERY worklist order is explored (state-deduplicated DFS) of
    LA  `CFG.analyze(...)`: its LivenessAnalysis(include_unreachable=True, initial=inout)
    AA  `CFG.analyze(...)`: its AssignmentAnalysis(include_unreachable=True)
    LF  `LivenessAnalysis(stats, initial, include_unreachable=False).run(cfg.bbs)`
        exactly as checker/linearity_checker.py and cfg/bb.py call it
  (those are all the call sites in the code base; AssignmentAnalysis is never used with
  include_unreachable=False).
Part B — CFGs produced by the REAL `CFGBuilder` from every function body of a small
  statement grammar (if/while/return/break/continue/constant conditions/code after a
  jump; quick: <= 3 statements, thorough: <= 4), deduplicated structurally; same
  exploration (every order up to a block bound, above it — thorough only — every order
  with <= 2 deviations from the default order).  Part B also checks that every builder
  CFG satisfies the shape invariants I1-I6 below.
Part A uses schedx's stateless replay strategy; Part B its in-place strategy, which a
  cross-check (every order, and <= 1 deviation, of all builder-shaped n <= 3 CFGs) shows to
  produce identical states / transitions / results / witnesses.

Oracle (independent of any fixpoint computation: plain graph searches per variable)
-----------------------------------------------------------------------------------
  live(b,x)   iff some path b=b0->..->bk has x used (before assigned) in bk and x not
              assigned in b0..b(k-1).  Edges: real + dummy for include_unreachable=True
              ("whether unreachable BBs and jumps should be taken into account"), real
              only otherwise.  Inout variables are used in the exit (CFG.analyze).
              The code additionally starts from `initial` = inout variables live
              everywhere ("borrowed variables should be considered live, even if the
              exit is actually unreachable"); where that differs from the path
              definition — blocks from which x can stay unassigned forever without
              reaching a use — the statement and the code comment disagree, so both
              answers are accepted and counted (`inout_nonterminating_cases`).
  def(b,x)    iff x in ass_before_entry, or b is reachable and every entry->b path
              assigns x strictly before b;   maybe(b,x) iff x in maybe_ass_before_entry
              or some entry->b path does.  Compared on blocks reachable from the entry
              over the edges the analysis follows; for the others the statement only
              requires order-independence.
  Every schedule's result must be the oracle's; distinct results per CFG must be 1; the
  state graph must be acyclic (a cycle is a worklist order that never terminates).

Which CFGs produce violations
-----------------------------
"For every function's control-flow graph": violations are reported for *builder-shaped*
CFGs, an over-approximation of what cfg/builder.py can construct:
  I1 entry has no (real or dummy) predecessors   (check_bb asserts it)
  I2 exit has no successors
  I3 `reachable` = reachable from the entry over real edges (update_reachable)
  I4 no real edge from an unreachable into a reachable block   (pruned by build())
  I5 reachable blocks have no dummy predecessors                (pruned by build())
  I6 every block is reachable from the entry over real+dummy edges (blocks are only
     created linked; pruning never disconnects)
Graphs outside that class are explored too on the smallest bound, but the statement is
taken to be silent about them: disagreements are only counted (`general_*`).
"""
from __future__ import annotations

import ast
import itertools

ID = "C09"
LEVEL = "model_checking"

VARS = ("x", "y")
ENTRY_CFGS = {"e00": ((), ()), "e01": ((), ("x",)), "e11": (("x",), ("x",))}


# ============================================================== graph enumeration


def _succ_options(targets, max_dummy):
    real_opts = [()] + [(a,) for a in targets] + list(itertools.combinations(targets, 2))
    out = []
    for r in real_opts:
        rest = [d for d in targets if d not in r]
        ds = [()] + [(d,) for d in rest]
        if max_dummy >= 2:
            ds += list(itertools.combinations(rest, 2))
        for d in ds:
            out.append((r, d))
    return out


def _perm_graph(n, real, dummy, perm):
    """Rename blocks by perm (a dict old->new on 2..n-1, identity on 0,1)."""
    nr, nd = [None] * n, [None] * n
    for b in range(n):
        nb = perm.get(b, b)
        nr[nb] = tuple(sorted(perm.get(s, s) for s in real[b]))
        nd[nb] = tuple(sorted(perm.get(s, s) for s in dummy[b]))
    return tuple(nr), tuple(nd)


def enum_graphs(n, max_dummy=1, entry_target=True):
    """All graphs (real, dummy) with real[b], dummy[b] sorted tuples; block 1 (exit) has
    no successors; canonical representatives under renaming of blocks 2..n-1."""
    blocks = list(range(n))
    targets = blocks if entry_target else [b for b in blocks if b != 0]
    per = _succ_options(targets, max_dummy)
    srcs = [b for b in blocks if b != 1]
    mids = list(range(2, n))
    perms = [dict(zip(mids, p)) for p in itertools.permutations(mids)][1:]
    for combo in itertools.product(per, repeat=len(srcs)):
        real, dummy = [()] * n, [()] * n
        for b, (r, d) in zip(srcs, combo):
            real[b], dummy[b] = r, d
        g = (tuple(real), tuple(dummy))
        if all(g <= _perm_graph(n, g[0], g[1], p) for p in perms):
            yield g


def _reach(n, real, dummy, use_dummy, start=0):
    seen, st = {start}, [start]
    while st:
        b = st.pop()
        for s in real[b] + (dummy[b] if use_dummy else ()):
            if s not in seen:
                seen.add(s)
                st.append(s)
    return seen


def builder_shape_defects(n, real, dummy):
    """Which of I1..I6 a graph violates (empty list = builder-shaped)."""
    bad = []
    rr = _reach(n, real, dummy, False)
    ra = _reach(n, real, dummy, True)
    if any(0 in real[b] or 0 in dummy[b] for b in range(n)):
        bad.append("I1")
    if real[1] or dummy[1]:
        bad.append("I2")
    if any(b not in rr and s in rr for b in range(n) for s in real[b]):
        bad.append("I4")
    if any(s in rr for b in range(n) for s in dummy[b]):
        bad.append("I5")
    if len(ra) != n:
        bad.append("I6")
    return bad


def graph_size(g):
    real, dummy = g
    return (len(real), sum(map(len, dummy)), sum(map(len, real)))


# ========================================================== building real CFG objects


def _block_ast(b, codes, two_succ, nvars):
    """Synthetic statements + branch predicate realising the stat codes of block b.
    code 0 none | 1 used | 2 assigned | 3 used, then assigned."""
    lines, pred_uses = [], []
    for vi in range(nvars):
        v, c = VARS[vi], codes[vi]
        if c == 1:
            if two_succ:
                pred_uses.append(v)          # the use sits in the branch predicate
            else:
                lines.append(v)              # expression statement
        elif c == 2:
            lines.append(f"{v} = 0")
            if b % 2:
                lines.append(v)              # assigned, THEN used: not an external use
        elif c == 3:
            lines.append(f"{v} = {v}" if vi == 0 else f"{v} += 1")
    stmts = ast.parse("\n".join(lines)).body if lines else []
    pred = None
    if two_succ:
        src = " < ".join(pred_uses) if len(pred_uses) > 1 else (pred_uses[0] if pred_uses else "True")
        pred = ast.parse(src, mode="eval").body
    return stmts, pred


def build_cfg(n, real, dummy, codes, nvars):
    from guppylang_internals.cfg.cfg import CFG
    cfg = CFG()                                   # entry idx 0, exit idx 1
    for _ in range(n - 2):
        cfg.new_bb()
    bbs = cfg.bbs
    for b in range(n):
        for s in real[b]:
            cfg.link(bbs[b], bbs[s])
        for s in dummy[b]:
            cfg.dummy_link(bbs[b], bbs[s])
    for b in range(n):
        bbs[b].statements, bbs[b].branch_pred = _block_ast(b, codes[b], len(real[b]) == 2, nvars)
    cfg.update_reachable()                        # as cfg/builder.py does
    return cfg


# ========================================================================= oracle


def o_live(succ, used, assigned, x, b):
    seen, st = set(), [b]
    while st:
        c = st.pop()
        if c in seen:
            continue
        seen.add(c)
        if x in used[c]:
            return True
        if x in assigned[c]:
            continue
        st.extend(succ[c])
    return False


def o_forever_unassigned(n, succ, assigned, x):
    """Blocks from which an infinite path exists that never assigns x."""
    keep = {b for b in range(n) if x not in assigned[b]}
    changed = True
    while changed:
        changed = False
        for b in list(keep):
            if not any(s in keep for s in succ[b]):
                keep.discard(b)
                changed = True
    return keep


def o_assign(n, succ, assigned, x):
    """(reachable, reached-with-x-unassigned, reached-with-x-assigned) block sets,
    'before the block' = over the blocks strictly before it on a path from the entry."""
    seen, st = {(0, False)}, [(0, False)]
    while st:
        c, f = st.pop()
        f2 = f or (x in assigned[c])
        for s in succ[c]:
            if (s, f2) not in seen:
                seen.add((s, f2))
                st.append((s, f2))
    reach = {c for c, _ in seen}
    return reach, {c for c, f in seen if not f}, {c for c, f in seen if f}


# ============================================================ one exploration + check


class HarnessBug(Exception):
    pass


def _sets_of(coarse_value):
    """coarse lattice value -> tuple of frozensets (1 for liveness, 2 for assignment)."""
    if coarse_value[0] == "S":
        return (frozenset(coarse_value[1]),)
    return tuple(frozenset(c[1]) for c in coarse_value[1])


def check_cfg(cfg, used, assigned, mode, param, nvars, max_deviations=None, strategy="replay"):
    """Explore all schedules of one analysis on one CFG and compare with the oracle.
    used/assigned: per-block sets the ORACLE uses.  Returns (report, symptoms, extra)
    where symptoms = list of (symptom, detail)."""
    from vlib import schedx
    import guppylang_internals.cfg.analysis as A
    n = len(cfg.bbs)
    real = [tuple(s.idx for s in bb.successors) for bb in cfg.bbs]
    dummy = [tuple(s.idx for s in bb.dummy_successors) for bb in cfg.bbs]
    flag = [bb.reachable for bb in cfg.bbs]
    variables = VARS[:nvars]
    exit_idx = cfg.exit_bb.idx
    used = [set(u) for u in used]
    extra = {"inout_nonterminating": 0}

    if mode == "LA":
        inout = list(param)
        thunk = lambda: cfg.analyze(set(inout), set(inout), inout)  # noqa: E731
        flt = lambda a: isinstance(a, A.LivenessAnalysis)          # noqa: E731
        succ = [real[b] + dummy[b] for b in range(n)]
        for v in inout:
            used[exit_idx].add(v)
        gfp_vars = set(inout)
    elif mode == "AA":
        abe, mbe = ENTRY_CFGS[param]
        thunk = lambda: cfg.analyze(set(abe), set(mbe), [])         # noqa: E731
        flt = lambda a: isinstance(a, A.AssignmentAnalysis)        # noqa: E731
        succ = [real[b] + dummy[b] for b in range(n)]
    elif mode == "LF":
        inout = list(param)

        def thunk():
            from guppylang_internals.nodes import InoutReturnSentinel
            stats = {bb: bb.compute_variable_stats() for bb in cfg.bbs}
            stats[cfg.exit_bb].used |= {v: InoutReturnSentinel(var=v) for v in inout}
            init = {v: cfg.exit_bb for v in inout} if not cfg.exit_bb.reachable else {}
            return A.LivenessAnalysis(stats, initial=init, include_unreachable=False).run(cfg.bbs)
        flt = None
        succ = list(real)
        for v in inout:
            used[exit_idx].add(v)
        gfp_vars = set(inout) if not flag[exit_idx] else set()
    else:
        raise HarnessBug(mode)

    res = schedx.explore(thunk, explore_filter=flt, explore_invocations=1, branch="first",
                         outcome_of=lambda v: None, max_deviations=max_deviations,
                         strategy=strategy)
    if len(res.invocations) != 1:
        raise HarnessBug(f"expected one explored invocation, got {len(res.invocations)}")
    rep = res.invocations[0]
    symptoms = []

    def cls(b):
        return "reachable=True" if flag[b] else "reachable=False"

    if rep.cyclic:
        symptoms.append(("nonterminating-order", "the state graph of the worklist loop has a cycle"))
    finals = rep.finals
    for f in finals:
        if f.fine[0] == "EXC":
            symptoms.append((f"exception:{f.fine[1]}", f"schedule {list(f.witness)} raises {f.fine[1]}: {f.fine[2]}"))
    good = [f for f in finals if f.fine[0] != "EXC"]
    by_coarse = {}
    for f in good:
        by_coarse.setdefault(f.coarse, f)
    order_dependent = len(by_coarse) + (len(finals) - len(good) > 0) > 1
    if order_dependent:
        cs = sorted(by_coarse.items(), key=lambda kv: (kv[1].devs, len(kv[1].witness), kv[1].witness))
        (c1, f1), (c2, f2) = cs[0], (cs[1] if len(cs) > 1 else cs[0])
        diff = [i for (i, a), (_, b) in zip(c1, c2) if a != b]
        where = "a block with reachable=True" if any(flag[i] for i in diff) else "blocks with reachable=False"
        symptoms.append(("order-dependent",
                         f"worklist order {list(f1.witness)} gives {_fmt(c1)} but order "
                         f"{list(f2.witness)} gives {_fmt(c2)} (blocks {diff} differ: {where}); "
                         f"{len(by_coarse)} distinct results over all orders"))

    # ---- oracle
    mismatches = []
    if mode in ("LA", "LF"):
        forever = {v: o_forever_unassigned(n, succ, assigned, v) for v in gfp_vars}
        expect = {}
        for b in range(n):
            for v in variables:
                strict = o_live(succ, used, assigned, v, b)
                acc = {strict}
                if v in gfp_vars and b in forever[v] and not strict:
                    acc.add(True)
                    extra["inout_nonterminating"] += 1
                expect[b, v] = acc
        for c, f in by_coarse.items():
            for b, val in c:
                (live,) = _sets_of(val)
                for v in variables:
                    got = v in live
                    if got not in expect[b, v]:
                        mismatches.append((f"{'live-extra' if got else 'live-missing'}",
                                         f"order {list(f.witness)}: block {b} ({cls(b)}): '{v}' "
                                         f"{'is' if got else 'is not'} live, path definition says "
                                         f"{'not live' if got else 'live'}"))
                stray = set(live) - set(variables)
                if stray:
                    raise HarnessBug(f"unexpected variables {stray}")
    else:
        abe, mbe = ENTRY_CFGS[param]
        info = {v: o_assign(n, succ, assigned, v) for v in variables}
        for c, f in by_coarse.items():
            for b, val in c:
                d, m = _sets_of(val)
                for v in variables:
                    reach, un, asg = info[v]
                    if b not in reach:
                        continue                      # only order-independence required
                    exp_d = v in abe or b not in un
                    exp_m = v in mbe or b in asg
                    if (v in d) != exp_d:
                        mismatches.append((f"{'def-extra' if v in d else 'def-missing'}",
                                         f"order {list(f.witness)}: block {b} ({cls(b)}): '{v}' "
                                         f"{'is' if v in d else 'is not'} definitely assigned, "
                                         f"path definition says {exp_d}"))
                    if (v in m) != exp_m:
                        mismatches.append((f"{'maybe-extra' if v in m else 'maybe-missing'}",
                                         f"order {list(f.witness)}: block {b} ({cls(b)}): '{v}' "
                                         f"{'is' if v in m else 'is not'} maybe assigned, "
                                         f"path definition says {exp_m}"))
    # A CFG whose result depends on the order necessarily disagrees with the oracle in
    # some order; that is reported once, as order dependence.  Mismatches that every
    # order produces are wrong results in their own right.
    extra["mismatches_under_order_dependence"] = len(mismatches) if order_dependent else 0
    if not order_dependent:
        # under a deviation bound a single wrong result may still be one of several
        tag = "wrong-result" if max_deviations is None else "mismatch-within-deviation-bound"
        symptoms.extend((f"{tag}:{k}", d) for k, d in mismatches)
    return rep, symptoms, extra


def _fmt(coarse):
    out = []
    for i, v in coarse:
        ss = _sets_of(v)
        out.append(f"{i}:" + "/".join("{" + ",".join(sorted(s)) + "}" for s in ss))
    return " ".join(out)


def _param_tag(mode, param):
    if mode == "AA":
        return param
    return "inout" if param else "noinout"


def describe(n, real, dummy, codes, mode, param, nvars):
    names = {0: "-", 1: "use", 2: "asg", 3: "use+asg"}
    st = {b: ",".join(f"{VARS[i]}:{names[c]}" for i, c in enumerate(codes[b][:nvars]) if c)
          for b in range(n)}
    return (f"{mode}[{_param_tag(mode, param)}] n={n} (0=entry,1=exit) "
            f"real={ {b: list(real[b]) for b in range(n) if real[b]} } "
            f"dummy={ {b: list(dummy[b]) for b in range(n) if dummy[b]} } "
            f"stats={ {b: s for b, s in st.items() if s} }")


def expected_stats(n, codes, nvars):
    used = [{VARS[i] for i in range(nvars) if codes[b][i] in (1, 3)} for b in range(n)]
    assigned = [{VARS[i] for i in range(nvars) if codes[b][i] in (2, 3)} for b in range(n)]
    return used, assigned


def eval_synthetic(n, real, dummy, codes, mode, param, nvars):
    cfg = build_cfg(n, real, dummy, codes, nvars)
    used, assigned = expected_stats(n, codes, nvars)
    rep, symptoms, extra = check_cfg(cfg, used, assigned, mode, param, nvars)
    # the synthetic statements must have produced exactly the intended stats
    for b, bb in enumerate(cfg.bbs):
        u = set(bb.vars.used) - (set(param) if mode in ("LA", "LF") and b == 1 else set())
        if u != used[b] or set(bb.vars.assigned) != assigned[b]:
            raise HarnessBug(f"compute_variable_stats gave used={set(bb.vars.used)} "
                             f"assigned={set(bb.vars.assigned)} for block {b}, codes {codes[b]}")
    return rep, symptoms, extra


# ================================================================== Part A worker


_CODE_SPACES: dict = {}


def _code_space(n, mode, nvars, alph=None):
    """All per-block stat codes.  alph: optional per-variable code alphabets."""
    key = (n, mode, nvars, alph)
    if key in _CODE_SPACES:
        return _CODE_SPACES[key]
    base = (0, 2) if mode == "AA" else (0, 1, 2, 3)
    alphs = [tuple(c for c in base if alph is None or c in alph[i]) for i in range(nvars)]
    per_block = list(itertools.product(*alphs))
    zero = (0,) * nvars
    blocks = [b for b in range(n) if b != 1]
    space = []
    for combo in itertools.product(per_block, repeat=len(blocks)):
        codes = [zero] * n
        for b, c in zip(blocks, combo):
            codes[b] = c
        space.append(tuple(codes))
    space.sort(key=lambda cs: (sum(1 for c in cs for k in c if k), cs))
    _CODE_SPACES[key] = space
    return space


def _params(mode, only=None):
    ps = ("e00", "e01", "e11") if mode == "AA" else ((), ("x",))
    return tuple(p for p in ps if only is None or p in only)


def _new_agg():
    return {"evaluations": 0, "states": 0, "transitions": 0, "executions": 0, "cpu": 0.0,
            "bounded": 0, "order_dep_mismatches": 0,
            "complete": 0, "represented": 0, "nontrivial": 0, "max_states": 0,
            "distinct_final_max": 0, "inout_nonterminating": 0,
            "viol": {}, "general": {}, "sample": None}


def _merge(a, b):
    for k in ("evaluations", "states", "transitions", "executions", "complete", "cpu",
              "bounded", "order_dep_mismatches",
              "represented", "nontrivial", "inout_nonterminating"):
        a[k] += b[k]
    for k in ("max_states", "distinct_final_max"):
        a[k] = max(a[k], b[k])
    for k, v in b["viol"].items():
        if k in a["viol"]:
            a["viol"][k]["count"] += v["count"]
        else:
            a["viol"][k] = v
    for k, v in b["general"].items():
        if k in a["general"]:
            a["general"][k]["count"] += v["count"]
        else:
            a["general"][k] = v
    if a["sample"] is None:
        a["sample"] = b["sample"]


def _account(agg, rep, symptoms, extra, shaped, has_dummy, mode, param, descr, item):
    agg["evaluations"] += 1
    agg["states"] += rep.states
    agg["transitions"] += rep.transitions
    agg["executions"] += rep.executions
    agg["complete"] += rep.complete
    agg["represented"] += rep.schedules_represented or 0
    agg["max_states"] = max(agg["max_states"], rep.states)
    agg["distinct_final_max"] = max(agg["distinct_final_max"], rep.distinct_coarse)
    agg["inout_nonterminating"] += extra["inout_nonterminating"]
    agg["order_dep_mismatches"] += extra["mismatches_under_order_dependence"]
    nonempty = any(s for f in rep.finals if f.fine[0] != "EXC"
                   for _, v in f.coarse for s in _sets_of(v))
    if (rep.schedules_represented or rep.complete) > 1 and nonempty:
        agg["nontrivial"] += 1
    if agg["sample"] is None and nonempty and rep.states > 20:
        agg["sample"] = {"cfg": descr, "states": rep.states, "transitions": rep.transitions,
                         "schedules": rep.schedules_represented,
                         "result": _fmt(rep.finals[0].coarse) if rep.finals and rep.finals[0].fine[0] != "EXC" else None}
    seen = set()
    for sym, detail in symptoms:
        if sym in seen:
            continue
        seen.add(sym)
        dm = "dummy-edges" if has_dummy else "no-dummy-edges"
        key = (f"{mode}:{sym}:{_param_tag(mode, param)}" if sym.startswith("wrong-result")
               else f"{mode}:{sym}" if sym.startswith("mismatch-within")
               else f"{mode}:{sym}:{dm}")
        tgt = agg["viol"] if shaped else agg["general"]
        if key in tgt:
            tgt[key]["count"] += 1
        else:
            tgt[key] = {"count": 1, "what": f"{descr}: {detail}", "item": dict(item, symptom=sym)}


def _guard(fn, task):
    """Workers must not let a BaseException (ExplorerError, ReplayDivergence, HarnessBug)
    escape: it would kill the pool process and hang the run.  It is returned instead
    and re-raised by run() as a harness error."""
    try:
        return fn(task)
    except BaseException as e:  # noqa: BLE001
        import traceback
        return {"harness_error": f"{type(e).__name__}: {e}", "task": repr(task)[:400],
                "tb": traceback.format_exc()[-1500:]}


def _raise_harness_errors(results):
    bad = [r for r in results if isinstance(r, dict) and "harness_error" in r]
    if bad:
        raise HarnessBug(f"{len(bad)} worker error(s), first: {bad[0]['harness_error']} on "
                         f"{bad[0]['task']}\n{bad[0]['tb']}")
    return results


def _eval_graph(task):
    """Worker: one graph, all stat codes and parameters of the requested modes."""
    import time
    n, real, dummy, modes, nvars, shaped, alph, only = task
    t0 = time.process_time()
    agg = _new_agg()
    has_dummy = any(dummy)
    for mode in modes:
        for codes in _code_space(n, mode, nvars, alph):
            for param in _params(mode, only):
                rep, symptoms, extra = eval_synthetic(n, real, dummy, codes, mode, param, nvars)
                item = {"part": "A", "n": n, "real": real, "dummy": dummy, "codes": codes,
                        "mode": mode, "param": param, "nvars": nvars}
                _account(agg, rep, symptoms, extra, shaped, has_dummy, mode, param,
                         describe(n, real, dummy, codes, mode, param, nvars), item)
    agg["cpu"] = time.process_time() - t0
    return agg


def eval_graph(task):
    return _guard(_eval_graph, task)


# ================================================= independence cross-check (small)


def _summary(res):
    return ([(r.index, r.analysis, r.states, r.transitions, r.complete, r.pruned,
              r.schedules_represented, r.cyclic,
              tuple((f.fine, f.witness, f.devs, f.count) for f in r.finals))
             for r in res.invocations], sorted(res.outcomes.items(), key=repr))


def _eval_strategies(task):
    """schedx's in-place strategy (used for whole-pipeline exploration, C10) must be
    indistinguishable from the stateless replay strategy: same states, transitions,
    pruned/complete counts, path counts, final results, witnesses."""
    from vlib import schedx
    n, real, dummy, nvars = task
    compared = 0
    for codes in _code_space(n, "LA", nvars):
        cfg = build_cfg(n, real, dummy, codes, nvars)
        thunk = lambda: cfg.analyze(set(), {"x"}, ["x"])  # noqa: E731
        for k in (None, 1):
            a = schedx.explore(thunk, outcome_of=lambda v: None, max_deviations=k)
            b = schedx.explore(thunk, outcome_of=lambda v: None, max_deviations=k, strategy="inplace")
            compared += 1
            if _summary(a) != _summary(b):
                raise HarnessBug("replay and in-place exploration disagree on "
                                 + describe(n, real, dummy, codes, "LA", ("x",), nvars))
    return compared


def eval_strategies(task):
    return _guard(_eval_strategies, task)


def _eval_independence(task):
    """CFG.analyze explored as the full product (branch='fine'): the assignment
    invocation must be the same exploration whatever liveness result preceded it."""
    from vlib import schedx
    n, real, dummy, nvars = task
    checked = 0
    for codes in _code_space(n, "LA", nvars):
        cfg = build_cfg(n, real, dummy, codes, nvars)
        res = schedx.explore(lambda: cfg.analyze(set(), {"x"}, ["x"]), branch="fine",
                             outcome_of=lambda v: None)
        ass = [r for r in res.invocations if r.analysis == "AssignmentAnalysis"]
        liv = [r for r in res.invocations if r.analysis == "LivenessAnalysis"]
        if len(liv) != 1 or len(ass) != len(liv[0].finals):
            raise HarnessBug("unexpected invocation tree for CFG.analyze")
        sig = {(r.states, r.transitions, tuple(f.fine for f in r.finals)) for r in ass}
        if len(sig) != 1:
            raise HarnessBug("AssignmentAnalysis inside CFG.analyze depends on the liveness "
                             f"schedule: {describe(n, real, dummy, codes, 'LA', ('x',), nvars)}")
        checked += len(ass)
    return checked


def eval_independence(task):
    return _guard(_eval_independence, task)


# ======================================================= Part B: real builder CFGs

_SIMPLE = ("x = 0", "y = x", "x = y", "y", "return")
_CONDS = ("x", "True", "False")


def _bodies(size, in_loop):
    """All statement lists (as lists of source lines, relative indentation) with
    total statement count <= size and >= 1."""
    if size <= 0:
        return
    for first, cost in _stmts(size, in_loop):
        yield first
        for rest in _bodies(size - cost, in_loop):
            yield first + rest


def _stmts(size, in_loop):
    for s in _SIMPLE + (("break", "continue") if in_loop else ()):
        yield [s], 1
    if size >= 2:
        for c in _CONDS:
            for body in _bodies(size - 1, in_loop):
                yield [f"if {c}:"] + ["    " + ln for ln in body], 1 + _count(body)
                for orelse in _bodies(size - 1 - _count(body), in_loop):
                    yield ([f"if {c}:"] + ["    " + ln for ln in body] + ["else:"]
                           + ["    " + ln for ln in orelse]), 1 + _count(body) + _count(orelse)
            for body in _bodies(size - 1, True):
                yield [f"while {c}:"] + ["    " + ln for ln in body], 1 + _count(body)


def _count(lines):
    return sum(1 for ln in lines if ln.strip() != "else:")


def builder_sources(size):
    out = []
    for body in _bodies(size, False):
        out.append("\n".join(body))
    return sorted(set(out), key=lambda s: (s.count("\n"), s))


def build_from_source(src):
    from guppylang_internals.cfg.builder import CFGBuilder
    return CFGBuilder().build(ast.parse(src).body, True, None)  # type: ignore[arg-type]


def cfg_signature(cfg):
    sig = []
    for bb in cfg.bbs:
        st = bb.compute_variable_stats()
        sig.append((tuple(s.idx for s in bb.successors), tuple(s.idx for s in bb.dummy_successors),
                    tuple(sorted(st.used)), tuple(sorted(st.assigned)), bb.reachable))
    return (cfg.entry_bb.idx, cfg.exit_bb.idx, tuple(sig))


def shape_defects_of_cfg(cfg):
    n = len(cfg.bbs)
    if [bb.idx for bb in cfg.bbs] != list(range(n)) or cfg.entry_bb.idx != 0 or cfg.exit_bb.idx != 1:
        return ["idx"]
    real = [tuple(s.idx for s in bb.successors) for bb in cfg.bbs]
    dummy = [tuple(s.idx for s in bb.dummy_successors) for bb in cfg.bbs]
    bad = builder_shape_defects(n, real, dummy)
    rr = _reach(n, real, dummy, False)
    if any(bb.reachable != (bb.idx in rr) for bb in cfg.bbs):
        bad.append("I3")
    for bb in cfg.bbs:      # predecessor lists must mirror successor lists
        if sorted(p.idx for p in bb.predecessors) != sorted(b for b in range(n) for s in real[b] if s == bb.idx):
            bad.append("pred-mirror")
        if sorted(p.idx for p in bb.dummy_predecessors) != sorted(b for b in range(n) for s in dummy[b] if s == bb.idx):
            bad.append("dummy-pred-mirror")
    return bad


def _eval_builder(task):
    import time
    src, full_limit, strategy = task
    t0 = time.process_time()
    cfg = build_from_source(src)
    n = len(cfg.bbs)
    agg = _new_agg()
    stats = [bb.compute_variable_stats() for bb in cfg.bbs]
    stray = {v for st in stats for v in list(st.used) + list(st.assigned)} - set(VARS)
    if stray:
        raise HarnessBug(f"builder introduced variables {stray} for {src!r}")
    used = [set(st.used) for st in stats]
    assigned = [set(st.assigned) for st in stats]
    real = tuple(tuple(s.idx for s in bb.successors) for bb in cfg.bbs)
    dummy = tuple(tuple(s.idx for s in bb.dummy_successors) for bb in cfg.bbs)
    k = None if n <= full_limit else 2
    for mode in ("LA", "AA", "LF"):
        for param in _params(mode):
            rep, symptoms, extra = check_cfg(cfg, used, assigned, mode, param, 2, max_deviations=k,
                                             strategy=strategy)
            agg["bounded"] += int(k is not None)
            descr = (f"{mode}[{_param_tag(mode, param)}] CFG of the real CFGBuilder for body "
                     f"{src!r}: n={n} real={ {b: list(r) for b, r in enumerate(real) if r} } "
                     f"dummy={ {b: list(d) for b, d in enumerate(dummy) if d} } "
                     f"used={ {b: sorted(u) for b, u in enumerate(used) if u} } "
                     f"assigned={ {b: sorted(a) for b, a in enumerate(assigned) if a} }")
            item = {"part": "B", "src": src, "mode": mode, "param": param, "full_limit": full_limit,
                    "n": n}
            _account(agg, rep, symptoms, extra, True, any(dummy), mode, param, descr, item)
    agg["cpu"] = time.process_time() - t0
    return agg


def eval_builder(task):
    return _guard(_eval_builder, task)


# =========================================================================== run


_NO_UA = ((0, 1, 2, 3), (0, 1, 2))          # y never "used, then assigned"
_NO_UA1 = ((0, 1, 2),)


def _plan(tier):
    """Bounds of Part A.  Each entry is enumerated COMPLETELY."""
    P = lambda **kw: dict({"max_dummy": 1, "general": False, "alph": None, "only": None,  # noqa: E731
                           "max_total_dummy": None, "modes": ("LA", "AA", "LF")}, **kw)
    if tier == "quick":
        return [
            P(n=2, nvars=2, general=True),
            P(n=3, nvars=2, alph=_NO_UA),
            P(n=4, nvars=1, modes=("LA", "AA")),
            P(n=4, nvars=1, modes=("LF",), only=((),)),
        ]
    return [
        P(n=2, nvars=2, general=True, max_dummy=2),
        P(n=3, nvars=1, general=True),
        P(n=3, nvars=2, max_dummy=2),
        P(n=4, nvars=1, max_dummy=2),
        P(n=4, nvars=2, modes=("AA",)),
        P(n=4, nvars=2, modes=("LA",), alph=_NO_UA, only=((),)),
        P(n=5, nvars=1, modes=("AA",), max_total_dummy=1),
        P(n=5, nvars=1, modes=("LA", "LF"), alph=_NO_UA1, only=((),), max_total_dummy=1),
    ]


def _label(p):
    bits = [f"n={p['n']}", f"vars={p['nvars']}", "+".join(p["modes"]),
            f"<= {p['max_dummy']} dummy successor(s) per block"]
    if p["max_total_dummy"] is not None:
        bits.append(f"<= {p['max_total_dummy']} dummy edge(s) in total")
    bits.append("all graphs" if p["general"] else "builder-shaped graphs")
    if p["alph"] is not None:
        bits.append(f"code alphabets {p['alph']}")
    if p["only"] is not None:
        bits.append(f"parameters {p['only']}")
    return ", ".join(bits)


def _tasks_A(tier):
    """[(label, [task...])] in increasing size order."""
    out = []
    for p in _plan(tier):
        n, tasks = p["n"], []
        for real, dummy in enum_graphs(n, p["max_dummy"], entry_target=p["general"]):
            if p["max_total_dummy"] is not None and sum(map(len, dummy)) > p["max_total_dummy"]:
                continue
            shaped = not builder_shape_defects(n, real, dummy)
            if not shaped and not p["general"]:
                continue
            tasks.append((n, real, dummy, p["modes"], p["nvars"], shaped, p["alph"], p["only"]))
        tasks.sort(key=lambda t: (not t[5], graph_size((t[1], t[2])), t[1], t[2]))
        out.append((_label(p), tasks))
    return out


def dispatch(job):
    """Single worker entry point: (kind, task) -> (kind, result)."""
    kind, task = job
    fn = {"A": _eval_graph, "I": _eval_independence, "S": _eval_strategies, "B": _eval_builder}[kind]
    return _guard(fn, task)


def _job_cost(job):
    kind, t = job
    if kind == "A":
        n, real, dummy, modes, nvars = t[0], t[1], t[2], t[3], t[4]
        ev = sum(len(_code_space(n, m, nvars, t[6])) * len(_params(m, t[7])) for m in modes)
        return ev * (2 + sum(map(len, real)) + sum(map(len, dummy))) * n
    if kind == "B":
        return 40 * len(t[0])
    return 500


def run(ctx):
    # ------------------------------------------------------------ collect all jobs
    jobs = []                      # (group, kind, task)
    groups = []                    # labels, in report order
    for label, tasks in _tasks_A(ctx.tier):
        groups.append(("A", label, len(tasks), sum(1 for t in tasks if t[5])))
        jobs += [(len(groups) - 1, "A", t) for t in tasks]
    ind_tasks = [(n, real, dummy, 1) for n in (2, 3) for real, dummy in enum_graphs(n, 1, False)
                 if not builder_shape_defects(n, real, dummy)]
    groups.append(("I", "independence", len(ind_tasks), 0))
    jobs += [(len(groups) - 1, "I", t) for t in ind_tasks]
    groups.append(("S", "strategies", len(ind_tasks), 0))
    jobs += [(len(groups) - 1, "S", t) for t in ind_tasks]
    b_bounds = [(3, 8, "inplace")] if ctx.quick else [(3, 8, "inplace"), (4, 6, "inplace")]
    built = n_cfgs = 0
    shape_bad = []
    seen_sigs = set()
    for size, full_limit, strategy in b_bounds:
        uniq = {}
        for s_ in builder_sources(size):
            cfg = build_from_source(s_)
            built += 1
            bad = shape_defects_of_cfg(cfg)
            if bad:
                shape_bad.append((s_, bad))
            sig = cfg_signature(cfg)
            if sig not in seen_sigs:
                uniq.setdefault(sig, s_)
        seen_sigs.update(uniq)
        btasks = [(s_, full_limit, strategy)
                  for s_ in sorted(uniq.values(), key=lambda s_: (len(s_), s_))]
        n_cfgs += len(btasks)
        label = (f"real CFGBuilder, bodies with <= {size} statements, every order for CFGs with "
                 f"<= {full_limit} blocks, every order with <= 2 deviations above "
                 f"(schedx strategy: {strategy})")
        groups.append(("B", label, len(btasks), 0))
        jobs += [(len(groups) - 1, "B", t) for t in btasks]
    if shape_bad:
        raise HarnessBug(f"CFGBuilder output violates the assumed shape invariants: {shape_bad[:3]}")

    # ------------------------------------- one parallel map (expensive jobs first)
    order = sorted(range(len(jobs)), key=lambda i: -_job_cost(jobs[i][1:]))
    raw = ctx.pmap(dispatch, [jobs[i][1:] for i in order], chunk=2)
    results = [None] * len(jobs)
    for i, r in zip(order, raw):
        results[i] = r
    _raise_harness_errors(results)

    # ------------------------------------------------------------------ aggregate
    total = _new_agg()
    per_group = [_new_agg() for _ in groups]
    counts = [0] * len(groups)
    for (g, kind, _), r in zip(jobs, results):      # job order = size order within a group
        if kind in ("I", "S"):
            counts[g] += r
        else:
            _merge(per_group[g], r)
    bounds, samples, on_builder = [], [], {}
    graphs_shaped = graphs_general = 0
    independence = strategies = 0
    for g, (kind, label, ntasks, nshaped) in enumerate(groups):
        part = per_group[g]
        if kind == "A":
            graphs_shaped += nshaped
            graphs_general += ntasks - nshaped
            bounds.append({"bound": label, "graphs": ntasks, "evaluations": part["evaluations"],
                           "states": part["states"], "complete_schedules_run": part["complete"],
                           "schedules_represented": part["represented"]})
            ctx.say(f"  [A] {label}: {ntasks} graphs, {part['evaluations']} evaluations, "
                    f"{part['states']} states, cpu {part['cpu']:.0f}s")
        elif kind == "B":
            bounds.append({"bound": label, "new_distinct_cfgs": ntasks,
                           "evaluations": part["evaluations"], "states": part["states"],
                           "deviation_bounded_evaluations": part["bounded"]})
            ctx.say(f"  [B] {label}: {ntasks} CFGs, {part['evaluations']} evaluations, "
                    f"{part['states']} states, cpu {part['cpu']:.0f}s")
            on_builder.update(part["viol"])
        elif kind == "I":
            independence = counts[g]
            continue
        else:
            strategies = counts[g]
            continue
        if part["sample"]:
            samples.append(part["sample"])
        _merge(total, part)

    for key in sorted(total["viol"], key=lambda k: (total["viol"][k]["item"].get("n", 99), k)):
        v = total["viol"][key]
        ctx.violation(key, v["what"], v["item"])
        ctx.violations[key]["count"] = v["count"]
    general = {k: {"count": v["count"], "example": v["what"]} for k, v in sorted(total["general"].items())}
    ctx.say(f"  total worker cpu {total['cpu']:.0f}s")
    return {
        "states": total["states"],
        "transitions": total["transitions"],
        "traces_validated_against_impl": total["complete"],
        "evaluations": total["evaluations"],
        "distinct_nontrivial": total["nontrivial"],
        "rule": "evaluation = one (CFG, analysis, parameters) whose EVERY worklist order was explored; "
                "non-trivial = more than one complete schedule and a non-empty result set in some block",
        "samples": samples[:6],
        "executions": total["executions"],
        "schedules_represented": total["represented"],
        "max_states_one_cfg": total["max_states"],
        "max_distinct_final_results_per_cfg": total["distinct_final_max"],
        "graphs_builder_shaped": graphs_shaped,
        "graphs_general_shape": graphs_general,
        "builder_bodies": built,
        "builder_distinct_cfgs": n_cfgs,
        "builder_shape_invariant_failures": len(shape_bad),
        "violation_classes_seen_on_real_builder_cfgs": {k: v["what"] for k, v in sorted(on_builder.items())},
        "independence_crosschecks": independence,
        "replay_vs_inplace_strategy_crosschecks": strategies,
        "inout_nonterminating_cases_accepted_either_way": total["inout_nonterminating"],
        "oracle_mismatches_folded_into_order_dependence": total["order_dep_mismatches"],
        "general_shape_disagreements_counted_not_reported": sum(v["count"] for v in total["general"].values()),
        "general_shape_disagreement_classes": general,
        "deviation_bounded_evaluations": total["bounded"],
        "bounds": bounds,
        "exhaustive": True,
    }


def replay(ctx, item):
    if item.get("part") == "B":
        cfg = build_from_source(item["src"])
        stats = [bb.compute_variable_stats() for bb in cfg.bbs]
        n = len(cfg.bbs)
        k = None if n <= item.get("full_limit", 6) else 2
        rep, symptoms, _ = check_cfg(cfg, [set(s.used) for s in stats], [set(s.assigned) for s in stats],
                                     item["mode"], tuple(item["param"]) if item["mode"] != "AA" else item["param"],
                                     2, max_deviations=k)
    else:
        real = tuple(tuple(r) for r in item["real"])
        dummy = tuple(tuple(d) for d in item["dummy"])
        codes = tuple(tuple(c) for c in item["codes"])
        param = item["param"] if item["mode"] == "AA" else tuple(item["param"])
        rep, symptoms, _ = eval_synthetic(item["n"], real, dummy, codes, item["mode"], param, item["nvars"])
    hit = [d for s, d in symptoms if s == item.get("symptom")]
    return {"violation": bool(hit), "symptom": item.get("symptom"), "details": hit[:3],
            "all_symptoms": sorted({s for s, _ in symptoms}),
            "states": rep.states, "distinct_results": rep.distinct_coarse}
