"""C14 — Copy/drop classification is structural and matches HUGR bounds.

Part 1 (classification).  Exhaustive over the type universe of `vlib.tyuniverse`
(bases int nat float bool str None qubit; array[T,n] n in {0,2,bound var}; frozenarray;
Option; tuples of arity 0..2; function types (4 shapes); structs SEmpty SInt SArr SQ and
generic G[T], GQ[T] (intrinsic qubit), GP[T] (phantom parameter); bound type variables of
all four copy/drop bounds):
  quick    : ALL types of depth <= 2
  thorough : ALL types of depth <= 2, plus depth 3 with every unary constructor applied to
             every depth-2 type and 2-tuples (t, r)/(r, t) of every depth-2 type t with the
             four class representatives r in tyuniverse.REPS.
Oracle = structural recursion over the *description* following the statement:
  qubit neither; array never copyable, droppable iff element is; numbers, bool, str, None
  and functions both; tuple / Option / struct: iff all elements / type arguments / fields
  are; type variables per their bound.
`frozenarray` is not named in the statement ("arrays are never copyable" could or could
not include it): its own copyability is left open (accepted either way, counted); it can
never be MORE permissive than its element, and droppable iff the element is.
Checked per type: ty.copyable, ty.droppable, ty.hugr_bound, ty.to_hugr(ctx).type_bound().
ctx = a real CompilerContext for closed types, QuantifiedToHugrContext(params) for types
mentioning bound variables.
Boundary cases accepted either way (counted): a phantom struct parameter (GP[qubit]: no
HUGR component for the argument, so the HUGR type is copyable although the Guppy type is
not).  Ill-kinded frozenarray[non-copyable] (cannot be written in source; hugr refuses
to build static_array<non-copyable>) is classified but has no HUGR type to compare.

Part 2 (drops).  For EVERY closed, well-kinded type T of depth <= 2 that the oracle
classifies droppable and not copyable: three programs are compiled
  unused   : def main(x: T @owned) -> None: pass
  branch   : if b: eat(x)  else: pass          (eat(x: T @owned) -> None: pass)
  reassign : y = x; y = z                        (x, z: T @owned)
Each must be accepted, its HUGR must validate and contain >= 1 `tket.guppy.drop` op per
unused value inside the function that leaves it unused (unused: main>=1; branch: main>=1
and eat>=1; reassign: main>=2 -- a drop op has exactly one input, so two distinct values
need two ops).  Since a valid HUGR connects every linear port exactly once, a drop inside
`main` of the branch program can only lie on the path that does not call `eat`.
Quick restricts part 2 to element bases {int, qubit} (complete for those); thorough uses all bases.
"""
from __future__ import annotations

ID = "C14"
LEVEL = "exploration"

VARIANTS = ("unused", "branch", "reassign")
QUICK_P2_BASES = ("int", "qubit")


# ------------------------------------------------------------------------ oracle
def and3(vals):
    vals = list(vals)
    if any(v is False for v in vals):
        return False
    if any(v is None for v in vals):
        return None
    return True


_MEMO: dict = {}


def classify(desc, binding=()):
    """(copyable, droppable) from the statement; each True / False / None (= open)."""
    from vlib.tyuniverse import STRUCTS
    key = (desc, binding)
    hit = _MEMO.get(key)
    if hit is not None:
        return hit
    if isinstance(desc, str):
        r = (False, False) if desc == "qubit" else (True, True)
    else:
        head = desc[0]
        if head == "param":
            r = binding[desc[1]]
        elif head == "var":
            r = (desc[1], desc[2])
        elif head == "array":
            r = (False, classify(desc[1], binding)[1])
        elif head == "frozenarray":
            c, d = classify(desc[1], binding)
            r = (False if c is False else None, d)
        elif head in ("option", "tuple"):
            cs = [classify(x, binding) for x in desc[1:]]
            r = (and3(c for c, _ in cs), and3(d for _, d in cs))
        elif head == "struct":
            args = tuple(classify(x, binding) for x in desc[2:])
            flds = [classify(f, args) for f in STRUCTS[desc[1]][1]]
            r = (and3([c for c, _ in args] + [c for c, _ in flds]),
                 and3([d for _, d in args] + [d for _, d in flds]))
        elif head == "func":
            r = (True, True)
        else:
            raise ValueError(desc)
    if len(_MEMO) < 500_000:
        _MEMO[key] = r
    return r


_INFO: dict = {}


def info(desc):
    """(closed, well_kinded, writable) -- memoised, compositional.
    well_kinded: frozenarray's element parameter is declared copyable + droppable
    (builtin.py), so frozenarray[non-copyable] cannot be written in source.
    writable: `@owned` on a copyable function input is rejected by the annotation parser,
    so such function types (constructible as objects) cannot appear in a program."""
    from vlib.tyuniverse import children
    hit = _INFO.get(desc)
    if hit is not None:
        return hit
    closed = wk = wr = True
    if not isinstance(desc, str):
        head = desc[0]
        if head == "var" or (head in ("array", "frozenarray") and desc[2] == "n"):
            closed = False
        if head == "frozenarray" and classify(desc[1]) not in ((True, True), (None, True)):
            wk = False   # (None: element copyability open -- nested frozenarray -- is fine)
        if head == "func" and any(f == "owned" and classify(d)[0] is not False for d, f in desc[1]):
            wr = False
        for ch in children(desc):
            a, b, c = info(ch)
            closed, wk, wr = closed and a, wk and b, wr and c
    r = (closed, wk, wr)
    if len(_INFO) < 500_000:
        _INFO[desc] = r
    return r


def well_kinded(desc) -> bool:
    return info(desc)[1]


def head_of(desc) -> str:
    if isinstance(desc, str):
        return desc
    h = desc[0]
    if h == "tuple":
        return f"tuple{len(desc) - 1}"
    if h == "struct":
        return f"struct:{desc[1]}"
    if h == "var":
        return "var"
    return h


def show(desc) -> str:
    from vlib.tyuniverse import to_source
    return to_source(desc)


# ------------------------------------------------------------------ part 1 worker
_CTX = {}


def _ctxs():
    if not _CTX:
        from vlib import tyuniverse as U
        from guppylang_internals.compiler.core import CompilerContext
        from guppylang_internals.tys.common import QuantifiedToHugrContext
        from hugr.build.function import Module
        _CTX["closed"] = CompilerContext(Module())
        _CTX["open"] = QuantifiedToHugrContext(U.env().params)
    return _CTX


def observe(desc):
    """(copyable, droppable, hugr_bound_is_copyable, to_hugr_bound_is_copyable)"""
    from vlib import tyuniverse as U
    from hugr import tys as ht
    ty = U.build(desc)
    cx = _ctxs()
    ctx = cx["closed"] if info(desc)[0] else cx["open"]
    # hugr refuses to build static_array<non-copyable>: ill-kinded types (not writable in
    # source) have no HUGR type to look at
    thb = (ty.to_hugr(ctx).type_bound() == ht.TypeBound.Copyable) if well_kinded(desc) else None
    return (ty.copyable, ty.droppable, ty.hugr_bound == ht.TypeBound.Copyable, thb)


_MIS: dict = {}


def mismatches(desc):
    """frozenset of mismatch kinds of this very type (memoised; used for blame)."""
    hit = _MIS.get(desc)
    if hit is not None:
        return hit
    oc, od = classify(desc)
    c, d, hb, thb = observe(desc)
    out = set()
    if type(c) is not bool or (oc is not None and c != oc):
        out.add("copyable")
    if type(d) is not bool or (od is not None and d != od):
        out.add("droppable")
    if hb != bool(c):
        out.add("hugr_bound")
    if thb is not None and thb != bool(c):
        out.add("to_hugr-bound")
    r = (frozenset(out), (c, d, hb, thb))
    if len(_MIS) < 500_000:
        _MIS[desc] = r
    return r


def eval_type(desc):
    """Returns (violations, flags) for one description.  violations: list of
    (key, what); flags: small tuple of counters."""
    from vlib import tyuniverse as U
    try:
        mis, (c, d, hb, thb) = mismatches(desc)
        oc, od = classify(desc)
        viol = []
        propagated = boundary = 0
        for kind in sorted(mis):
            if any(kind in mismatches(ch)[0] for ch in U.children(desc)):
                propagated += 1          # the component is reported on its own
                continue
            if kind == "to_hugr-bound" and thb and not c:
                # HUGR more permissive than Guppy: harmless direction; open for ...
                if isinstance(desc, tuple) and desc[0] == "struct" and desc[1] in U.PHANTOM:
                    boundary += 1        # ... phantom parameters (no HUGR component)
                    continue
            exp = {"copyable": oc, "droppable": od, "hugr_bound": c, "to_hugr-bound": c}[kind]
            got = {"copyable": c, "droppable": d, "hugr_bound": hb, "to_hugr-bound": thb}[kind]
            if kind in ("copyable", "droppable"):
                what = f"{show(desc)}: ty.{kind} is {got} but the statement's structural rule gives {exp}"
            else:
                what = (f"{show(desc)}: {kind} is {'Copyable' if got else 'Linear'} "
                        f"but the Guppy type has copyable={exp}")
            viol.append((f"{kind}:{head_of(desc)}", what))
        open_case = (oc is None) + (od is None)
        nontrivial = (oc, od) != (True, True) and not isinstance(desc, str)
        return viol, (1, int(nontrivial), propagated, boundary, open_case, 0, int(thb is None))
    except Exception as e:  # noqa: BLE001  harness error: surfaced, run fails
        return [], (1, 0, 0, 0, 0, f"{type(e).__name__}: {e} on {desc!r}", 0)


_DESCS: list = []      # set in the parent before forking; workers index into it


def eval_range(rng):
    """Aggregated part-1 evaluation of _DESCS[lo:hi] (keeps IPC small)."""
    lo, hi = rng
    cnt = [0] * 7
    classes: dict = {}
    viols: dict = {}
    harness = []
    for desc in _DESCS[lo:hi]:
        viol, fl = eval_type(desc)
        for i in (0, 1, 2, 3, 4, 6):
            cnt[i] += fl[i]
        if fl[5]:
            harness.append(fl[5])
            continue
        k = str(classify(desc))
        classes[k] = classes.get(k, 0) + 1
        for key, what in viol:
            if key in viols:
                viols[key][0] += 1
            else:
                viols[key] = [1, what, desc]
    return cnt, classes, viols, harness[:5], len(harness)


# ------------------------------------------------------------------ part 2 worker
P2_HEAD = """\
from guppylang import guppy, qubit, array
from guppylang.std.builtins import owned, nat
from guppylang.std.option import Option
from guppylang.std.array import frozenarray
from collections.abc import Callable
from vtyuniverse import SEmpty, SInt, SArr, SQ, G, GQ, GP
"""


def program(desc, variant: str) -> str:
    t = show(desc)
    if variant == "unused":
        body = f"@guppy\ndef main(x: {t} @owned) -> None:\n    pass\n"
    elif variant == "branch":
        body = (f"@guppy\ndef eat(x: {t} @owned) -> None:\n    pass\n\n"
                f"@guppy\ndef main(x: {t} @owned, b: bool) -> None:\n"
                f"    if b:\n        eat(x)\n    else:\n        pass\n")
    elif variant == "reassign":
        body = (f"@guppy\ndef main(x: {t} @owned, z: {t} @owned) -> None:\n"
                f"    y = x\n    y = z\n")
    else:
        raise ValueError(variant)
    return P2_HEAD + body


def count_drops(pkg) -> dict:
    """function name -> number of ExtOps `drop` of extension tket.guppy inside it."""
    import hugr.ops as ops
    out: dict = {}
    for h in pkg.modules:
        for n in h:
            op = h[n].op
            if isinstance(op, ops.ExtOp):
                od = op.op_def()
                name, ext = od.name, (od._extension.name if od._extension is not None else "")
            elif isinstance(op, ops.Custom):
                name, ext = op.op_name, op.extension
            else:
                continue
            if name != "drop" or ext != "tket.guppy":
                continue
            p = n
            while p is not None and not isinstance(h[p].op, ops.FuncDefn):
                p = h[p].parent
            f = h[p].op.f_name if p is not None else "?"
            out[f] = out.get(f, 0) + 1
    return out


def run_drop(item):
    """item = (desc, variant) -> (problem | None, detail, drops)"""
    from vlib import gload, tyuniverse as U
    desc, variant = item
    try:
        U.env()
        o, mod = gload.run_src(program(desc, variant), with_prelude=False)
        try:
            if o.kind == "error":
                return ("rejected", o.title, {})
            if o.kind == "crash":
                return ("crash", o.exc[:200], {})
            bad = gload.validate(o.package)
            drops = count_drops(o.package)
            if bad is not None:
                msg = bad.split("Stack backtrace")[0].split("Caused by:")[-1]
                return ("invalid-hugr", " ".join(msg.split())[:200], drops)
            m, e = drops.get("main", 0), drops.get("eat", 0)
            need_m, need_e = {"unused": (1, 0), "branch": (1, 1), "reassign": (2, 0)}[variant]
            if m < need_m or e < need_e:
                return ("missing-drop", f"drops main={m} (need >= {need_m}) eat={e} (need >= {need_e})", drops)
            return (None, "", drops)
        finally:
            if mod is not None:
                gload.unload(mod)
    except Exception as e:  # noqa: BLE001
        return ("HARNESS", f"{type(e).__name__}: {e}", {})


def p2_types(descs):
    """closed, well-kinded, oracle says droppable and definitely not copyable"""
    from vlib import tyuniverse as U
    out, skipped_open, skipped_kind, skipped_unwritable = [], 0, 0, 0
    for d in descs:
        if not info(d)[0]:
            continue
        c, dr = classify(d)
        if dr is True and c is None:
            skipped_open += 1
            continue
        if not (c is False and dr is True):
            continue
        if not well_kinded(d):
            skipped_kind += 1
            continue
        if not info(d)[2]:
            skipped_unwritable += 1
            continue
        out.append(d)
    return out, skipped_open, skipped_kind, skipped_unwritable


def has_affine_component(desc, binding=()) -> bool:
    """Does a value of this type physically contain an array (reachable through tuple /
    Option / array elements and struct FIELDS, not through function types)?  A type that
    is non-copyable only because of a phantom struct argument (GP[array[int, 2]]) has
    no such component: its HUGR value is a plain copyable tuple and no drop op can be
    demanded for it (boundary case, counted)."""
    from vlib.tyuniverse import STRUCTS
    if isinstance(desc, str):
        return False
    head = desc[0]
    if head == "param":
        return binding[desc[1]]
    if head == "array":
        return True
    if head in ("frozenarray", "func", "var"):
        return False
    if head in ("option", "tuple"):
        return any(has_affine_component(d, binding) for d in desc[1:])
    if head == "struct":
        args = tuple(has_affine_component(d, binding) for d in desc[2:])
        return any(has_affine_component(f, args) for f in STRUCTS[desc[1]][1])
    raise ValueError(desc)


# --------------------------------------------------------------------------- run
def run(ctx):
    from vlib import tyuniverse as U
    U.env()
    if ctx.quick:
        descs = U.universe(2)
        bound = "depth<=2 complete"
    else:
        descs = U.universe(3, restrict_pairs_at=3)
        bound = "depth<=2 complete; depth 3: all unary constructors over depth-2 types, 2-tuples with REPS"
    global _DESCS
    _DESCS = descs
    step = 8192
    ranges = [(i, min(i + step, len(descs))) for i in range(0, len(descs), step)]
    # ~85 us per type: below ~150 k types a fork pool costs more than it saves
    if len(descs) < 150_000:
        res = [eval_range(r) for r in ranges]
    else:
        res = ctx.pmap(eval_range, ranges, chunk=1, recycle=10_000)
    n = nontrivial = propagated = boundary = open_cases = no_hugr = 0
    harness = []
    n_harness = 0
    classes: dict = {}
    for cnt, cls, viols, hs, nh in res:
        n += cnt[0]
        nontrivial += cnt[1]
        propagated += cnt[2]
        boundary += cnt[3]
        open_cases += cnt[4]
        no_hugr += cnt[6]
        harness += hs
        n_harness += nh
        for k, v in cls.items():
            classes[k] = classes.get(k, 0) + v
        for key, (count, what, desc) in viols.items():
            ctx.violation(key, what, {"part": "classify", "desc": desc})
            ctx.violations[key]["count"] += count - 1

    # ---- part 2
    if ctx.quick:
        p2_universe = U.universe(2, vars=False, nvar=False, bases=QUICK_P2_BASES)
        p2_bound = f"depth<=2 over bases {QUICK_P2_BASES}"
    else:
        p2_universe = U.universe(2, vars=False, nvar=False)
        p2_bound = "depth<=2 over all bases"
    tys, sk_open, sk_kind, sk_unwr = p2_types(p2_universe)
    items = [(d, v) for d in tys for v in VARIANTS]
    # ~25 ms per program; a fork pool only pays off for the thorough tier
    out = [run_drop(i) for i in items] if len(items) < 1000 else ctx.pmap(run_drop, items, chunk=64, recycle=40)
    failing = {}
    for (d, v), (prob, detail, drops) in zip(items, out):
        if prob == "HARNESS":
            harness.append(detail)
        elif prob is not None:
            failing[(d, v)] = (prob, detail)
    p2_phantom = p2_prop = 0
    drop_hist: dict = {}
    for (d, v), (prob, detail, drops) in zip(items, out):
        k = f"{v}:main={drops.get('main', 0)},eat={drops.get('eat', 0)}"
        drop_hist[k] = drop_hist.get(k, 0) + 1
    for (d, v), (prob, detail) in failing.items():
        if any(failing.get((ch, v), ("",))[0] == prob for ch in U.children(d)):
            p2_prop += 1
            continue
        if prob == "missing-drop" and not has_affine_component(d):
            p2_phantom += 1
            continue
        ctx.violation(f"drop:{v}:{prob}:{head_of(d)}",
                      f"T = {show(d)} (droppable, not copyable), program '{v}': {prob}: {detail}",
                      {"part": "drop", "desc": d, "variant": v})
    if harness:
        raise RuntimeError(f"{max(n_harness, len(harness))} harness errors, first: {harness[0]}")
    from checks import c14b
    p3 = c14b.run_part(ctx)
    samples = [{"type": show(d), "oracle": str(classify(d))} for d in descs[::max(1, len(descs) // 6)][:6]]
    samples += [{"program": program(tys[len(tys) // 2], "branch")}] if tys else []
    return {
        "evaluations": n + len(items) + p3["p3_programs"],
        "distinct_nontrivial": nontrivial + len(items) + p3["p3_programs"],
        "rule": "part 1: composite types whose oracle class is not (copyable, droppable); "
                "part 2: every (affine closed type, program variant) compiled and validated",
        "samples": samples,
        "types_classified": n, "bound": bound, "oracle_classes": classes,
        "mismatch_propagated_from_component": propagated,
        "boundary_hugr_more_permissive_accepted": boundary,
        "open_cases_frozenarray_copyability": open_cases,
        "ill_kinded_frozenarray_without_hugr_type": no_hugr,
        "p2_bound": p2_bound, "p2_types": len(tys), "p2_programs": len(items),
        "p2_failing": len(failing), "p2_failing_propagated": p2_prop,
        "p2_phantom_no_drop_accepted": p2_phantom,
        "p2_skipped_open_copyability": sk_open, "p2_skipped_ill_kinded": sk_kind,
        "p2_skipped_owned_copyable_func_input_unwritable": sk_unwr,
        "p2_drop_histogram": drop_hist,
        "harness_errors": n_harness + len(harness),
        **p3,
    }


def replay(ctx, item):
    if item["part"] == "generic-drop":
        from checks import c14b
        return c14b.replay(ctx, item)
    from vlib import tyuniverse as U
    U.env()
    desc = U.norm(item["desc"])
    if item["part"] == "classify":
        viol, fl = eval_type(desc)
        return {"violation": bool(viol), "violations": viol, "oracle": str(classify(desc)),
                "observed(copyable,droppable,hugr_bound,to_hugr)": str(observe(desc))}
    prob, detail, drops = run_drop((desc, item["variant"]))
    return {"violation": prob is not None, "problem": prob, "detail": detail, "drops": drops,
            "program": program(desc, item["variant"])}
