"""C12 — Type inference finds an instantiation exactly when one exists (part a: `unify`).

Exhaustive grid over `guppylang_internals.tys.ty.unify` (with `_unify_var`,
`_unify_args`) and `tys.subst.Substituter`.

Enumerated space (every tier enumerates each of its grids COMPLETELY, nothing is sampled):
all ordered pairs (s, t) of same-kind terms from a pair universe  x  all consistent
(acyclic, one binding per variable) partial solutions with <= 2 bindings whose right-hand
sides come from a range universe.  Universes are built from atoms
  int bool None qubit  ?a ?b (copyable+droppable existential type variables)
  ?c (existential type variable that may be linear)  #0 (bound variable)  #1 (linear bound
  variable)  and the constants 1 2 ?n ?m #c0
by the constructors tuple (arity 0-2), array[T, n], Option[T], S[T] (a generic struct),
and function types with 0-2 inputs, where inputs of non-copyable type carry the flags
Inout (borrowed) or Owned.

Oracle (written independently, on the driver's own term representation): Robinson
unification with full occurs check of the equation system  {v = sigma(v)} + {s = t}.
Function types decompose if their arities agree; a disagreement of input flags is
recorded.  Expected outcome:
  * structural failure                                   -> unify must return None
  * flags disagree on an input whose solved type is ground and linear (not copyable and
    not droppable by the driver's own structural definition), and the solution binds no
    copyable variable to a possibly non-copyable type    -> unify must return None
  * flags disagree only on inputs that are not definitely linear (the statement talks
    about *linear* inputs only; guppylang ignores flags there)  -> either answer accepted,
    counted as `flag_boundary_cases`; a returned substitution is then compared modulo flags
  * otherwise                                            -> unify must succeed.
For every returned substitution R: R is acyclic; the closure of R makes s and t equal;
R satisfies every binding of the partial solution; R is most general (the oracle's mgu is
an instance of closure(R): one-way matching; the other direction holds for every unifier);
the call returned without RecursionError (termination); and guppylang's own `Substituter`
applied until fixpoint gives exactly the driver's closure and guppylang-equal types.
"""
from __future__ import annotations

import itertools
import sys

ID = "C12"
LEVEL = "exploration"

# --------------------------------------------------------------------------------------
# The driver's own term language.  A term is a tuple (head, *children).
#   variables: ("?a",) ("?b",) ("?c",) type variables, ("?n",) ("?m",) const variables
#   function types: head "fn[" + one flag letter per input + "]", children = inputs + (output,)
#     flag letters: "-" no flags, "I" Inout (borrowed), "O" Owned
# --------------------------------------------------------------------------------------
TYPE_VARS = ("?a", "?b", "?c")
CONST_VARS = ("?n", "?m")
ALL_VARS = TYPE_VARS + CONST_VARS
COPYABLE_VARS = ("?a", "?b")          # declared copyable + droppable
CONST_HEADS = frozenset({"1", "2", "#c0", "?n", "?m"})


def is_var(t):
    return t[0][0] == "?"


def kind(t):
    return "const" if t[0] in CONST_HEADS else "type"


def erase(h):
    return "fn" if h[:3] == "fn[" else h


def flags_of(h):
    return h[3:-1]


def size(t):
    return 1 + sum(size(c) for c in t[1:])


def vars_of(t, acc=None):
    if acc is None:
        acc = set()
    if is_var(t):
        acc.add(t[0])
    for c in t[1:]:
        vars_of(c, acc)
    return acc


def erase_flags(t):
    if len(t) == 1:
        return t
    return (erase(t[0]),) + tuple(erase_flags(c) for c in t[1:])


def show(t):
    h = t[0]
    if len(t) == 1 and h not in ("tuple", "fn[]"):
        return {"none": "None"}.get(h, h)
    if h == "tuple":
        return "tuple[" + ", ".join(show(c) for c in t[1:]) + "]"
    if erase(h) == "fn":
        fl = flags_of(h)
        ins = ", ".join(show(c) + {"-": "", "I": " @inout", "O": " @owned"}[f]
                        for c, f in zip(t[1:-1], fl))
        return f"(({ins}) -> {show(t[-1])})"
    return h + "[" + ", ".join(show(c) for c in t[1:]) + "]"


def show_sigma(sig):
    return "{" + ", ".join(f"{v}: {show(u)}" for v, u in sig) + "}"


# ---- the driver's own structural copy/drop classification (for the flag rule only)
def syn_copyable(t):
    h = t[0]
    if h in ("int", "bool", "none", "#0", "?a", "?b"):
        return True
    if h in ("qubit", "#1", "?c", "array"):
        return False
    if erase(h) == "fn":
        return True
    return all(syn_copyable(c) for c in t[1:] if kind(c) == "type")  # tuple option S


def syn_droppable(t):
    h = t[0]
    if h in ("int", "bool", "none", "#0", "?a", "?b"):
        return True
    if h in ("qubit", "#1", "?c"):
        return False
    if erase(h) == "fn":
        return True
    return all(syn_droppable(c) for c in t[1:] if kind(c) == "type")  # tuple array option S


def definitely_linear(t):
    """Ground (no inference variables) and neither copyable nor droppable."""
    return not vars_of(t) and not syn_copyable(t) and not syn_droppable(t)


# --------------------------------------------------------------------------------------
# Oracle: textbook Robinson unification with occurs check (idempotent substitution)
# --------------------------------------------------------------------------------------
def app(th, t):
    h = t[0]
    if h[0] == "?":
        return th.get(h, t)
    if len(t) == 1:
        return t
    return (h,) + tuple(app(th, c) for c in t[1:])


def occurs(v, t):
    if t[0] == v:
        return True
    return any(occurs(v, c) for c in t[1:])


def robinson(eqs, th=None, mism=None):
    """Returns (theta, flag_mismatches, None) or (None, None, reason)."""
    th = dict(th) if th else {}
    mism = list(mism) if mism else []
    stack = list(reversed(eqs))
    while stack:
        s, t = stack.pop()
        s = app(th, s)
        t = app(th, t)
        if s == t:
            continue
        if is_var(s) or is_var(t):
            if not is_var(s):
                s, t = t, s
            v = s[0]
            if occurs(v, t):
                return None, None, "occurs"
            one = {v: t}
            th = {k: app(one, u) for k, u in th.items()}
            th[v] = t
            continue
        hs, ht = s[0], t[0]
        if erase(hs) != erase(ht):
            a, b = sorted((coarse(hs), coarse(ht)))
            return None, None, f"clash:{a}~{b}"
        if len(s) != len(t):
            return None, None, f"arity:{erase(hs)}"
        if hs != ht:  # same arity function types whose input flags differ
            for i, (f, g) in enumerate(zip(flags_of(hs), flags_of(ht))):
                if f != g:
                    mism.append((s[1 + i], t[1 + i]))
        stack.extend(reversed(list(zip(s[1:], t[1:]))))
    return th, mism, None


def expected_outcome(th, mism):
    """'ok' | 'fail' | 'either' for a structurally unifiable instance."""
    if not mism:
        return "ok"
    ill_kinded = any(v in th and not (syn_copyable(th[v]) and syn_droppable(th[v]))
                     for v in COPYABLE_VARS)
    if not ill_kinded and any(definitely_linear(app(th, a)) for a, _ in mism):
        return "fail"
    return "either"


def find_cycle(r):
    """r: dict var -> term.  Returns a list of variables on a cycle, or None."""
    state = {}

    def dfs(v, path):
        state[v] = 1
        for w in sorted(vars_of(r[v])):
            if w not in r:
                continue
            if state.get(w) == 1:
                return path[path.index(w):] if w in path else [w]
            if w not in state:
                c = dfs(w, path + [w])
                if c:
                    return c
        state[v] = 2
        return None

    for v in sorted(r):
        if v not in state:
            c = dfs(v, [v])
            if c:
                return c
    return None


def closure(r):
    """Idempotent form of an ACYCLIC substitution."""
    done = {}

    def res(v):
        if v not in done:
            done[v] = go(r[v])
        return done[v]

    def go(t):
        h = t[0]
        if h[0] == "?":
            return res(h) if h in r else t
        if len(t) == 1:
            return t
        return (h,) + tuple(go(c) for c in t[1:])

    for v in r:
        res(v)
    return done


def match(p, t, d):
    """One-way matching modulo flags: is there delta with delta(p) == t ?"""
    if is_var(p):
        if p[0] in d:
            return erase_flags(d[p[0]]) == erase_flags(t)
        d[p[0]] = t
        return True
    if is_var(t) or erase(p[0]) != erase(t[0]) or len(p) != len(t):
        return False
    return all(match(a, b, d) for a, b in zip(p[1:], t[1:]))


def coarse(h):
    """Coarse constructor class used in violation keys (keeps the number of keys small)."""
    h = erase(h)
    if h[0] == "?":
        return "cvar" if h in CONST_VARS else "var"
    if h in ("1", "2", "#c0"):
        return "const"
    if h in ("int", "bool", "none", "qubit", "#0", "#1"):
        return "atom"
    return h


def shape(t):
    return coarse(t[0])


def pair_shape(s, t):
    return "~".join(sorted((shape(s), shape(t))))


# --------------------------------------------------------------------------------------
# Universes
# --------------------------------------------------------------------------------------
def flag_opts(x):
    return ("-",) if syn_copyable(x) else ("I", "O")


def mk(atoms_t, atoms_c, cons, inner=None, inner_c=None, fn2_atoms=()):
    """All terms with one constructor from `cons` applied to `inner` terms (default atoms)."""
    inner = atoms_t if inner is None else inner
    inner_c = atoms_c if inner_c is None else inner_c
    out = []
    for c in cons:
        if c == "tuple0":
            out.append(("tuple",))
        elif c == "tuple1":
            out += [("tuple", x) for x in inner]
        elif c == "tuple2":
            out += [("tuple", x, y) for x in inner for y in inner]
        elif c == "array":
            out += [("array", x, n) for x in inner for n in inner_c]
        elif c == "option":
            out += [("option", x) for x in inner]
        elif c == "S":
            out += [("S", x) for x in inner]
        elif c == "fn0":
            out += [("fn[]", y) for y in inner]
        elif c == "fn1":
            out += [(f"fn[{f}]", x, y) for x in inner for f in flag_opts(x) for y in inner]
        elif c == "fn2":
            out += [(f"fn[{f}{g}]", x, x2, y) for x in fn2_atoms for f in flag_opts(x)
                    for x2 in fn2_atoms for g in flag_opts(x2) for y in fn2_atoms]
        else:
            raise ValueError(c)
    return out


def A(*names):
    return [(n,) for n in names]


def dedup(ts):
    seen, out = set(), []
    for t in ts:
        if t not in seen:
            seen.add(t)
            out.append(t)
    return out


def sigmas(range_t, range_c, max_bind, tvars=TYPE_VARS, cvars=CONST_VARS):
    """All acyclic substitutions with 1..max_bind bindings (as tuples of (var, term))."""
    single = []
    for v in tvars:
        single += [(v, u) for u in range_t if v not in vars_of(u)]
    for v in cvars:
        single += [(v, u) for u in range_c if v not in vars_of(u)]
    out = [(b,) for b in single]
    if max_bind >= 2:
        order = {v: i for i, v in enumerate(ALL_VARS)}
        for (v, u), (w, x) in itertools.combinations(single, 2):
            if order[v] >= order[w]:
                continue
            if w in vars_of(u) and v in vars_of(x):
                continue  # cyclic
            out.append(((v, u), (w, x)))
    return out


def grids(tier):
    """List of grids: (name, pair_types, pair_consts, list_of_sigmas)."""
    full_t = A("int", "bool", "none", "qubit", "?a", "?b", "?c", "#0", "#1")
    full_c = A("1", "2", "?n", "?m", "#c0")
    all_cons = ["tuple0", "tuple1", "tuple2", "array", "option", "S", "fn0", "fn1", "fn2"]
    fn2_atoms = A("int", "qubit", "?a", "?c")
    u1 = dedup(full_t + mk(full_t, full_c, all_cons, fn2_atoms=fn2_atoms))

    # reduced universes for the grids with partial solutions
    p_at = A("int", "qubit", "?a", "?b", "?c")
    p_ac = A("1", "?n", "?m")
    p_cons = ["tuple1", "tuple2", "array", "option", "fn1"]
    s_at = A("int", "?a", "?b", "?c")
    s_ac = A("1", "?n", "?m")
    out = []
    if tier == "quick":
        out.append(("G0:depth<=1 pairs x {}", u1, full_c, [()]))
        p1 = dedup(p_at + mk(p_at, p_ac, p_cons))
        s1 = dedup(s_at + mk(s_at, s_ac, ["tuple1", "array", "fn1"]))
        r1 = dedup(full_t + mk(full_t, full_c, ["tuple0", "tuple1", "array", "option", "S"])
                   + mk(p_at, (), ["tuple2", "fn1"]))
        out.append(("G1:reduced depth<=1 pairs x 1 binding (range: depth<=1, full atoms; tuple2/fn over reduced atoms)",
                    p1, p_ac, sigmas(r1, full_c, 1)))
        q_at = A("int", "?a", "?b", "?c")
        q1 = dedup(q_at + A("qubit") + mk(q_at, A("1", "?n"), ["tuple1", "tuple2", "array"])
                   + mk(A("?a", "?c", "qubit"), (), ["fn1"]))
        s2 = dedup(s_at + mk(A("?a", "?b", "?c"), A("?n", "?m"), ["tuple1", "array"])
                   + mk(A("?a", "?c"), (), ["fn1"]))
        out.append(("G2:small depth<=1 pairs x 2 bindings (range small depth<=1)",
                    q1, p_ac, [s for s in sigmas(s2, s_ac, 2) if len(s) == 2]))
        z_at = A("int", "?a", "?b")
        z1 = dedup(z_at + mk(z_at, (), ["tuple1", "tuple2"]) + mk(A("int"), A("1", "?n", "?m"), ["array"]))
        z2 = dedup(z1 + mk(z_at, (), ["tuple1", "tuple2"], inner=z1))
        out.append(("G3:depth<=2 pairs (tuples of int ?a ?b tuples and array[int, 1|?n|?m]) x {}", z2, [], [()]))
    else:
        out.append(("G0:depth<=1 pairs x {}", u1, full_c, [()]))
        # depth 2 over reduced atoms/constructors, empty and 1-binding partial solutions
        d_at = A("int", "qubit", "?a", "?b")
        d_ac = A("1", "?n")
        d1 = dedup(d_at + mk(d_at, d_ac, ["tuple1", "tuple2", "array", "option", "fn1"]))
        d1m = dedup(d_at + mk(d_at, d_ac, ["tuple1", "array", "option", "fn1"]))   # without tuple2
        d2 = dedup(d1 + mk(d_at, d_ac, ["tuple1", "array", "option"], inner=d1)
                   + mk(d_at, d_ac, ["tuple2", "fn1"], inner=d1m))
        out.append(("T0:depth<=2 pairs (atoms int qubit ?a ?b, consts 1 ?n; binary constructors over "
                    "the tuple2-free depth-1 terms) x {}", d2, d_ac, [()]))
        e_at = A("int", "?a", "?b")
        e1 = dedup(e_at + mk(e_at, A("?n"), ["tuple1", "array", "fn1"]))
        e1m = dedup(e_at + mk(e_at, A("?n"), ["tuple1", "array"]))
        e2 = dedup(e1 + mk(e_at, A("1", "?n"), ["tuple1", "tuple2", "array"], inner=e1)
                   + mk(e_at, A("1", "?n"), ["fn1"], inner=e1m))
        s1 = dedup(s_at + mk(s_at, s_ac, ["tuple1", "array", "fn1"]))
        out.append(("T1:depth<=2 pairs (small atoms) x 1 binding", e2, A("1", "?n"),
                    sigmas(s1, s_ac, 1, tvars=("?a", "?b", "?c"), cvars=("?n",))))
        p1 = dedup(p_at + mk(p_at, p_ac, p_cons))
        r1 = dedup(full_t + mk(full_t, full_c, ["tuple1", "tuple2", "array", "option", "S", "fn1"]))
        out.append(("T2:reduced depth<=1 pairs x 1 binding (range full depth<=1)",
                    p1, p_ac, sigmas(r1, full_c, 1)))
        s2 = dedup(s_at + A("qubit") + mk(s_at, A("1", "?n", "?m"), ["tuple1", "array", "option"])
                   + mk(A("int", "?a", "?c"), (), ["fn1"])
                   + mk(A("?a", "?b", "?c"), (), ["tuple2"]))
        out.append(("T3:reduced depth<=1 pairs x 2 bindings (range reduced depth<=1)",
                    p1, p_ac, [s for s in sigmas(s2, s_ac, 2) if len(s) == 2]))
        z_at = A("int", "?a", "?b")
        z1 = dedup(z_at + mk(z_at, (), ["tuple1", "tuple2"]) + mk(A("int"), A("1", "?n", "?m"), ["array"]))
        z2 = dedup(z1 + mk(z_at, (), ["tuple1", "tuple2"], inner=z1))
        out.append(("G3:depth<=2 pairs (tuples of int ?a ?b tuples and array[int, 1|?n|?m]) x {}", z2, [], [()]))
    return out


# --------------------------------------------------------------------------------------
# guppylang side: builder (term -> guppylang object) and reader (guppylang object -> term)
# --------------------------------------------------------------------------------------
_G = {}


def _g():
    if _G:
        return _G
    import ast as pyast

    import vlib  # noqa: F401  (compat shim)
    from guppylang_internals.definition.common import DefId
    from guppylang_internals.definition.struct import CheckedStructDef, StructField
    from guppylang_internals.tys import builtin as B
    from guppylang_internals.tys import ty as T
    from guppylang_internals.tys.arg import ConstArg, TypeArg
    from guppylang_internals.tys.const import BoundConstVar, ConstValue, ExistentialConstVar
    from guppylang_internals.tys.param import TypeParam
    from guppylang_internals.tys.qubit import qubit_ty
    from guppylang_internals.tys.subst import Substituter

    nat = B.nat_type()
    ev = {
        "?a": T.ExistentialTypeVar("a", 900001, True, True),
        "?b": T.ExistentialTypeVar("b", 900002, True, True),
        "?c": T.ExistentialTypeVar("c", 900003, False, False),
        "?n": ExistentialConstVar(nat, "n", 900011),
        "?m": ExistentialConstVar(nat, "m", 900012),
    }
    sdef = CheckedStructDef(
        DefId.fresh(), "S", pyast.parse("class S: pass").body[0],
        [TypeParam(0, "T", must_be_copyable=False, must_be_droppable=False)],
        [StructField("x", T.BoundTypeVar("T", 0, False, False))],
    )
    _G.update(T=T, B=B, TypeArg=TypeArg, ConstArg=ConstArg, ConstValue=ConstValue,
              BoundConstVar=BoundConstVar, ExistentialConstVar=ExistentialConstVar,
              Substituter=Substituter, nat=nat, ev=ev, sdef=sdef, qubit=qubit_ty(),
              by_id={v.id: k for k, v in ev.items()}, cache={})
    return _G


_FLAG = {"-": "NoFlags", "I": "Inout", "O": "Owned"}


def build(t):
    g = _g()
    c = g["cache"]
    if t in c:
        return c[t]
    T, B = g["T"], g["B"]
    h = t[0]
    if h[0] == "?":
        r = g["ev"][h]
    elif h == "int":
        r = B.int_type()
    elif h == "bool":
        r = B.bool_type()
    elif h == "none":
        r = T.NoneType()
    elif h == "qubit":
        r = g["qubit"]
    elif h == "#0":
        r = T.BoundTypeVar("T", 0, True, True)
    elif h == "#1":
        r = T.BoundTypeVar("L", 1, False, False)
    elif h in ("1", "2"):
        r = g["ConstValue"](g["nat"], int(h))
    elif h == "#c0":
        r = g["BoundConstVar"](g["nat"], "k", 0)
    elif h == "tuple":
        r = T.TupleType([build(x) for x in t[1:]])
    elif h == "array":
        r = B.array_type(build(t[1]), build(t[2]))
    elif h == "option":
        r = B.option_type(build(t[1]))
    elif h == "S":
        r = T.StructType([g["TypeArg"](build(t[1]))], g["sdef"])
    elif erase(h) == "fn":
        r = T.FunctionType(
            [T.FuncInput(build(x), getattr(T.InputFlags, _FLAG[f]))
             for x, f in zip(t[1:-1], flags_of(h))],
            build(t[-1]))
    else:
        raise ValueError(t)
    c[t] = r
    return r


def read(o):
    """guppylang object -> driver term (independent of `build`)."""
    g = _g()
    T, B = g["T"], g["B"]
    if isinstance(o, T.ExistentialTypeVar | g["ExistentialConstVar"]):
        return (g["by_id"][o.id],)
    if isinstance(o, T.BoundTypeVar):
        return (f"#{o.idx}",)
    if isinstance(o, g["BoundConstVar"]):
        return (f"#c{o.idx}",)
    if isinstance(o, g["ConstValue"]):
        return (str(o.value),)
    if isinstance(o, T.NumericType):
        return ({T.NumericType.Kind.Int: "int", T.NumericType.Kind.Nat: "nat",
                 T.NumericType.Kind.Float: "float"}[o.kind],)
    if isinstance(o, T.NoneType):
        return ("none",)
    if isinstance(o, T.TupleType):
        return ("tuple",) + tuple(read(x) for x in o.element_types)
    if isinstance(o, T.FunctionType):
        if o.params or o.comptime_args:
            raise ValueError("generic function type in result")
        fl = ""
        for i in o.inputs:
            fl += {T.InputFlags.NoFlags: "-", T.InputFlags.Inout: "I", T.InputFlags.Owned: "O"}[i.flags]
        return (f"fn[{fl}]",) + tuple(read(i.ty) for i in o.inputs) + (read(o.output),)
    if isinstance(o, T.StructType):
        assert o.defn is g["sdef"]
        return ("S",) + tuple(read_arg(a) for a in o.args)
    if isinstance(o, T.OpaqueType):
        for name, d in (("bool", B.bool_type_def), ("array", B.array_type_def),
                        ("option", B.option_type_def), ("qubit", g["qubit"].defn)):
            if o.defn is d:
                return (name,) + tuple(read_arg(a) for a in o.args)
    raise ValueError(f"unreadable {o!r}")


def read_arg(a):
    g = _g()
    return read(a.ty) if isinstance(a, g["TypeArg"]) else read(a.const)


# --------------------------------------------------------------------------------------
# One evaluation
# --------------------------------------------------------------------------------------
def _oracle_verdict(s, t, sig):
    th, mism, why = robinson([((v,), u) for v, u in sig] + [(s, t)])
    return f"not unifiable, {why}" if th is None else "unifiable"


def evaluate(s, t, sig, pre=None):
    """Returns (findings, info).  findings: list of (key, detail).  `pre` = oracle state of
    the partial solution alone (theta, mism) to avoid re-solving it for every pair."""
    g = _g()
    T = g["T"]
    gs, gt = build(s), build(t)
    gsub = {g["ev"][v]: build(u) for v, u in sig}
    findings = []
    info = {}
    sh = pair_shape(s, t)

    # ---- implementation
    try:
        res = T.unify(gs, gt, dict(gsub))
        raised = None
    except RecursionError:
        res, raised = None, "recursion"
    except Exception as e:  # noqa: BLE001
        res, raised = None, type(e).__name__
    if raised == "recursion":
        findings.append(("non-termination:unbounded-recursion",
                         "RecursionError: unify recurses without bound (oracle: "
                         + _oracle_verdict(s, t, sig) + ")"))
        info["impl"] = "recursion"
        return findings, info
    if raised:
        findings.append((f"unify-raises:{raised}:{sh}", f"raised {raised}"))
        info["impl"] = "raise"
        return findings, info
    info["impl"] = "none" if res is None else "subst"

    # ---- oracle
    if pre is None:
        pre = robinson([((v,), u) for v, u in sig])[:2]
        assert pre[0] is not None, "partial solution not consistent (harness bug)"
    th, mism, why = robinson([(s, t)], pre[0], pre[1])
    exp = "fail" if th is None else expected_outcome(th, mism)
    if th is not None and exp == "fail":
        why = "linear-input-flags-disagree"
    info["exp"] = exp
    info["why"] = why

    if res is None:
        if exp == "ok":
            findings.append((f"unify-rejects-unifiable:{sh}",
                             f"returned None; oracle mgu = {show_sigma(sorted(th.items()))}"))
        return findings, info

    # ---- a substitution was returned: translate it
    r = {}
    for k, v in res.items():
        name = g["by_id"].get(getattr(k, "id", None))
        if name is None or g["ev"][name] != k:
            findings.append(("result-binds-unknown-variable", f"key {k!r}"))
            return findings, info
        tv = read(v)
        if (name in CONST_VARS) != (kind(tv) == "const"):
            findings.append(("result-kind-mismatch", f"{name} := {show(tv)}"))
            return findings, info
        r[name] = tv
    info["result"] = show_sigma(sorted(r.items()))

    cyc = find_cycle(r)
    if cyc:
        if len(cyc) == 1:
            cls = "direct-occurs"            # v bound to a term that contains v itself
        elif all(v in CONST_VARS for v in cyc):
            cls = "const-var-chain"
        else:
            cls = "var-chain-occurs"         # cycle closed through other bindings
        findings.append((f"cyclic-substitution:{cls}",
                         f"returned {show_sigma(sorted(r.items()))} which is cyclic through "
                         f"{' -> '.join(cyc + cyc[:1])}; oracle says "
                         + ("not unifiable (" + str(why) + ")" if exp == "fail" else "unifiable")))
        info["cyclic"] = True
        return findings, info

    if exp == "fail":
        findings.append((f"unify-accepts-nonunifiable:{why}",
                         f"returned {show_sigma(sorted(r.items()))}; oracle: not unifiable ({why})"))
        return findings, info

    rs = closure(r)
    s1, t1 = app(rs, s), app(rs, t)
    modulo = exp == "either"
    same = (erase_flags(s1) == erase_flags(t1)) if modulo else (s1 == t1)
    if not same:
        findings.append(("result-not-unifier",
                         f"closure gives {show(s1)} vs {show(t1)} under {show_sigma(sorted(r.items()))}"))
    for v, u in sig:
        if app(rs, (v,)) != app(rs, u):
            findings.append(("result-drops-partial-solution",
                             f"binding {v}: {show(u)} not satisfied by {show_sigma(sorted(r.items()))}"))
            break
    if not findings:
        names = vars_of(s) | vars_of(t)
        for v, u in sig:
            names.add(v)
            names |= vars_of(u)
        names = sorted(names)
        d = {}
        if not all(match(app(rs, (v,)), app(th, (v,)), d) for v in names):
            findings.append(("result-not-most-general",
                             f"returned {show_sigma(sorted(r.items()))}; oracle mgu "
                             f"{show_sigma(sorted(th.items()))} is not an instance of it"))

    # ---- guppylang's own Substituter, iterated to a fixpoint
    cs, ct = gs, gt
    for _ in range(len(res) + 2):
        ns, nt = cs.substitute(res), ct.substitute(res)
        if ns == cs and nt == ct:
            break
        cs, ct = ns, nt
    else:
        findings.append(("substituter-no-fixpoint", "no fixpoint after len(subst)+2 rounds"))
        return findings, info
    if read(cs) != s1 or read(ct) != t1:
        findings.append(("substituter-mismatch",
                         f"Substituter fixpoint {show(read(cs))} / {show(read(ct))}, "
                         f"independent closure {show(s1)} / {show(t1)}"))
    elif (cs == ct) != (s1 == t1):
        findings.append(("type-equality-mismatch",
                         f"guppylang == says {cs == ct} for {show(s1)} vs {show(t1)}"))
    return findings, info


# --------------------------------------------------------------------------------------
# Parallel work
# --------------------------------------------------------------------------------------
_GRIDS = []


def _work(item):
    gi, si, lo, hi = item
    name, ut, uc, sigs = _GRIDS[gi]
    sig = sigs[si]
    pre = robinson([((v,), u) for v, u in sig])[:2]
    if pre[0] is None:
        raise AssertionError(f"inconsistent partial solution enumerated: {sig}")
    dom = {v for v, _ in sig}
    cnt = dict(n=0, nontrivial=0, ok=0, none=0, exp_ok=0, exp_fail=0, exp_either=0,
               either_accepted=0, either_rejected=0, cyclic=0, cyclic_empty_sigma=0,
               nonterminating_empty_sigma=0)
    cyc_ex = [None]
    viol = {}
    samples = []

    def one(s, t):
        cnt["n"] += 1
        vs = vars_of(s) | vars_of(t)
        if s != t and vs and (not sig or (dom & vs)):
            cnt["nontrivial"] += 1
        f, info = evaluate(s, t, sig, pre)
        if info.get("impl") == "subst":
            cnt["ok"] += 1
        elif info.get("impl") == "none":
            cnt["none"] += 1
        e = info.get("exp")
        if e:
            cnt["exp_" + e] += 1
            if e == "either":
                cnt["either_accepted" if info["impl"] == "subst" else "either_rejected"] += 1
        if info.get("impl") == "recursion" and not sig:
            cnt["nonterminating_empty_sigma"] += 1
        if info.get("cyclic"):
            cnt["cyclic"] += 1
            if not sig:
                cnt["cyclic_empty_sigma"] += 1
                ex = f"unify({show(s)}, {show(t)}, {{}}) -> {info['result']}"
                if cyc_ex[0] is None or (len(ex), ex) < (len(cyc_ex[0]), cyc_ex[0]):
                    cyc_ex[0] = ex
        for key, detail in f:
            sz = size(s) + size(t) + sum(1 + size(u) for _, u in sig)
            what = f"unify({show(s)}, {show(t)}, {show_sigma(sig)}): {detail}"
            cur = viol.get(key)
            if cur is None:
                viol[key] = [1, sz, what, {"s": s, "t": t, "sigma": [list(b) for b in sig]}]
            else:
                cur[0] += 1
                if (sz, what) < (cur[1], cur[2]):
                    cur[1:] = [sz, what, {"s": s, "t": t, "sigma": [list(b) for b in sig]}]
        if len(samples) < 2 and info.get("impl") == "subst" and s != t and cnt["ok"] % 997 == 5:
            samples.append({"s": show(s), "t": show(t), "sigma": show_sigma(sig),
                            "impl": info.get("impl"), "oracle": info.get("exp"),
                            "result": info.get("result")})

    for s in ut[lo:hi]:
        for t in ut:
            one(s, t)
    if lo == 0:
        for s in uc:
            for t in uc:
                one(s, t)
    return cnt, viol, samples, cyc_ex[0]


def _self_test(all_terms):
    """Harness sanity: reader inverts builder on every universe term."""
    bad = [t for t in all_terms if read(build(t)) != t]
    if bad:
        raise AssertionError(f"reader/builder disagree on {len(bad)} terms, e.g. {bad[0]}")
    # Robinson sanity on hand-checked cases
    a, b = ("?a",), ("?b",)
    assert robinson([(a, ("tuple", b)), (b, a)])[0] is None
    assert robinson([(a, ("tuple", b)), (b, ("int",))])[0] == {"?a": ("tuple", ("int",)), "?b": ("int",)}
    assert robinson([(("fn[O]", ("qubit",), a), ("fn[I]", ("qubit",), ("int",)))])[1]


def run(ctx):
    global _GRIDS
    _g()
    lim = sys.getrecursionlimit()
    _GRIDS = grids(ctx.tier)
    seen = set()
    for _, ut, uc, sigs in _GRIDS:
        seen.update(ut)
        seen.update(uc)
        for sg in sigs:
            seen.update(u for _, u in sg)
    _self_test(sorted(seen))
    for t in seen:
        build(t)  # warm the cache before forking

    items = []
    grid_info = []
    for gi, (name, ut, uc, sigs) in enumerate(_GRIDS):
        per = (len(ut) ** 2 + len(uc) ** 2)
        grid_info.append({"grid": name, "pair_types": len(ut), "pair_consts": len(uc),
                          "partial_solutions": len(sigs), "calls": per * len(sigs)})
        # split big pair sets so that one item is ~<= 40k calls
        step = max(1, min(len(ut), 40000 // max(1, len(ut))))
        for si in range(len(sigs)):
            for lo in range(0, len(ut), step):
                items.append((gi, si, lo, min(len(ut), lo + step)))
    ctx.say(f"C12 {ctx.tier}: " + "; ".join(f"{g['grid'].split(':')[0]}={g['calls']}" for g in grid_info)
            + f"; items={len(items)}")
    results = ctx.pmap(_work, items, chunk=max(1, min(64, len(items) // 256 or 1)))
    assert sys.getrecursionlimit() == lim

    tot = {}
    samples = []
    merged = {}
    cyc_example = None
    for cnt, viol, smp, cex in results:
        if cex and (cyc_example is None or (len(cex), cex) < (len(cyc_example), cyc_example)):
            cyc_example = cex
        for k, v in cnt.items():
            tot[k] = tot.get(k, 0) + v
        if len(samples) < 8:
            samples += smp[:1]
        for key, (c, sz, what, item) in viol.items():
            cur = merged.get(key)
            if cur is None:
                merged[key] = [c, sz, what, item]
            else:
                cur[0] += c
                if (sz, what) < (cur[1], cur[2]):
                    cur[1:] = [sz, what, item]
    for key in sorted(merged):
        c, sz, what, item = merged[key]
        ctx.violation(key, what, item)
        ctx.violations[key]["count"] += c - 1

    expected_calls = sum(g["calls"] for g in grid_info)
    if tot["n"] != expected_calls:
        raise AssertionError(f"enumerated {tot['n']} calls, expected {expected_calls}")
    from checks import c12b
    pb = c12b.run_part(ctx)
    from checks import c12c
    pb.update(c12c.run_part(ctx))
    return {
        **pb,
        "evaluations": tot["n"] + pb["b_generic_calls"] + pb["c_expected_type_calls"],
        "distinct_nontrivial": tot["nontrivial"],
        "rule": "all ordered same-kind pairs (s,t) of each grid's pair universe x every acyclic partial "
                "solution of the grid; non-trivial = s != t, an inference variable occurs in s or t, and the "
                "partial solution is empty or binds a variable occurring in s or t",
        "samples": samples[:8],
        "grids": grid_info,
        "impl_returned_substitution": tot["ok"],
        "impl_returned_none": tot["none"],
        "oracle_unifiable": tot["exp_ok"],
        "oracle_not_unifiable": tot["exp_fail"],
        "flag_boundary_cases": tot["exp_either"],
        "flag_boundary_accepted_by_impl": tot["either_accepted"],
        "flag_boundary_rejected_by_impl": tot["either_rejected"],
        "cyclic_results": tot["cyclic"],
        "cyclic_results_with_empty_partial_solution": tot["cyclic_empty_sigma"],
        "cyclic_example_with_empty_partial_solution": cyc_example,
        "nonterminating_calls_with_empty_partial_solution": tot["nonterminating_empty_sigma"],
        "violation_classes": len(merged),
        "exhaustive": True,
    }


def _tup(x):
    return tuple(_tup(y) for y in x) if isinstance(x, list | tuple) else x


def replay(ctx, item):
    if item.get("part") == "b":
        from checks import c12b
        return c12b.replay(ctx, item)
    if item.get("part") == "c":
        from checks import c12c
        return c12c.replay(ctx, item)
    s, t = _tup(item["s"]), _tup(item["t"])
    sig = tuple((b[0], _tup(b[1])) for b in item["sigma"])
    findings, info = evaluate(s, t, sig)
    return {"violation": bool(findings),
            "call": f"unify({show(s)}, {show(t)}, {show_sigma(sig)})",
            "findings": [list(f) for f in findings], "info": info}
